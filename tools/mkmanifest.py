#!/venv/bin/python
"""Regenerates MANIFEST.json from the table below (keeps it schema-valid at all times)."""
import json, os, sys
HERE = os.path.dirname(os.path.dirname(os.path.abspath(__file__)))

CHECKS = {
 'C19': dict(level='exploration', design='3/C19',
    text='Hypothesis-generated range sets (disjoint/adjacent/overlapping/nested/duplicated, bank and 10000-block edges) plus an exhaustively enumerated small universe, each judged by a set-theoretic validity predicate written from the statement; exploration, not proof: holds on everything generated.',
    note='Trusted: CPython, Hypothesis, my bank-window table (taken from the address windows plc_modbus.py documents). Inputs have count>=1 inside one bank.',
    technique='property-based testing (Hypothesis) + bounded exhaustive enumeration against a validity predicate'),
}

CHECKS.update({
 'C03': dict(level='exploration', design='3/C03',
    text='Generated tag configurations x request histories on a fresh in-process simulator; every reply and, after every step, every Attribute value is compared with an independent typed-array model; requests/replies go through an independent reference codec. Exploration of the generated histories only.',
    note='Trusted: CPython, Hypothesis, vp/refcodec.py and vp/model.py (independent of cpppo). The in-process driver repeats the three steps of enip_srv_tcp; TCP transport itself is exercised by C02/C06/C12/C14.',
    technique='property-based testing of request histories against a reference model (Hypothesis)'),
 'C05': dict(level='exploration', design='3/C05',
    text='Same machine as C03 with a boundary/invalid/cross-type biased generator: status table of the statement, all-tags before==after for refused requests, model equality after every step and a closing sweep that reads every tag on both sessions. Exploration only.',
    note='Trusted as C03. Where the statement admits two behaviours (cross-type writes) the judge accepts either; unspecified requests (zero counts, unaligned offsets) may get any reply but may not change a tag.',
    technique='property-based testing of request histories against a reference model (Hypothesis), boundary-biased generators'),
})

CHECKS.update({
 'C06': dict(level='exploration', design='3/C06',
    text='Generated request sequences (all service kinds, CIP-failing ones mixed in, random sender contexts, pipelining groups, bundles) against a real TCP simulator and the in-process twin; replies read to end-of-stream and decoded by the strict reference decoder: count, order, echoed context/session, command, CPF shape, service|0x80. Exploration only.',
    note='Trusted: CPython, Hypothesis, vp/refcodec.py. "Unsupported/unroutable" is read at CIP level; unknown encapsulation commands are left to C08. A socket timeout is inconclusive, never a violation.',
    technique='property-based testing of request sequences over TCP and in-process, strict reference decoder as oracle'),
 'C07': dict(level='exploration', design='3/C07',
    text='Differential: generated member lists run one-by-one vs. as one Multiple Service Packet from the same restored tag state; member replies, final states, bundle status and offset-table arithmetic (strict reference decoder) must agree; library producer must regenerate the reference bundle bytes. Exploration only.',
    note='Trusted: CPython, Hypothesis, vp/refcodec.py, vp/model.py (only to generate valid/invalid members). Members without an individual CIP reply (unknown tag/object, empty Set Attribute Single) are excluded and counted.',
    technique='differential property-based testing (bundle vs. singles) with a strict reference decoder'),
})

CHECKS.update({
 'C14': dict(level='exploration', design='3/C14',
    text='Generated call histories through pylogix (an independent client: Register, small/large Forward Open, Read, fragmented Read, Write, fragmented Write, multi-tag Read, failing members, Close) interleaved with raw unconnected and connected requests built and strictly decoded by the reference codec, against a real TCP simulator; values/statuses vs. the typed-array model, server Attributes vs. model after every call, forward-open table emptied after Close. Exploration only.',
    note='Trusted: CPython, Hypothesis, pylogix 1.1.6, vp/refcodec.py, vp/model.py. Only types both sides support; services pylogix never emits are covered by the reference-codec requests.',
    technique='property-based testing of client call histories (independent client + reference codec) against a reference model'),
})

CHECKS.update({
 'C12': dict(level='exploration', design='3/C12',
    text='Metamorphic + model: generated operation lists run through cpppo\'s own client (connector.operate) against a real TCP simulator under sampled (depth, multiple) settings x fragment off/on with tag state reset between runs: one result per operation in order, identical (status, value) sequences, equal to the typed-array model, final state equal, recorded bundles never mix route/send paths. Text clause: independently rendered operation strings must parse to exactly the structured operation; format_path/parse_path round trip. Exploration only.',
    note='Trusted: CPython, Hypothesis, vp/model.py, my text renderer (written from the documented operation syntax). Unknown-tag operations are outside the quantifier and not generated.',
    technique='metamorphic property-based testing (settings matrix) + reference model + text round trip'),
})

CHECKS.update({
 'C13': dict(level='fault_enumeration', design='3/C13',
    text='A harness-owned fault-injecting TCP relay between cpppo\'s client APIs (pipeline, synchronous/operate/results/process, proxy.read) and a real TCP simulator: for generated exchanges over position-identifying tag values EVERY cut offset of the reply stream, the cut offsets of the request stream, sampled blackhole offsets and proxy fault/recover sequences are replayed; oracle: error or complete, every yielded value correct for its own operation, no result beyond what complete reply frames delivered, gateway discarded and next use recovers. Enumeration is exhaustive per generated exchange (bounds in the evidence), not over exchanges.',
    note='Trusted: CPython, Hypothesis (exchange generation), vp/relay.py, vp/refcodec.py (frame accounting). Races between a request-stream cut and replies in flight are neutralised by judging only what the relay recorded as delivered.',
    technique='fault injection at every byte offset (enumerated) over Hypothesis-generated exchanges, model-value oracle'),
})

CHECKS.update({
 'C08': dict(level='exploration', design='3/C08',
    text='Generated hostile byte streams (random bytes; bit/byte/field-level mutants of valid frames incl. inconsistent length/count/offset/size fields; mixed with valid frames at any point of a session) fed to one in-process connection exactly as enip_srv_tcp feeds them: deterministic engine-step bound plus a retried watchdog (no hang), per-frame judgement of tag changes against the typed-array model where only frames the structural reference decoder accepts as complete well-formed writes may change tags, witness session and fresh registration afterwards; a TCP variant checks server thread, witness session and listener after every hostile connection. Exploration only. Four parser-tolerance findings are listed as known (known_findings.json).',
    note='Trusted: CPython, Hypothesis, vp/refcodec.py in structural mode (lengths/counts/offsets/sizes must agree; reserved and pad byte values free), vp/model.py. The watchdog is the only clock-based signal and needs two consecutive 20 s timeouts.',
    technique='structure-aware mutation fuzzing driven by Hypothesis with a model/decoder oracle inside the target'),
 'C10': dict(level='exploration', design='3/C10',
    text='A catalogue of 96 parser-machine factories (framework primitives, regex/string machines, every scalar TYPE, strings, EPATH variants, status, typed data, encapsulation, commands, CPF and items, Unconnected Send, all registered service request/reply machines) x limit form (int / data path / callable / parsed length prefix / missing path) x placement x limit value x source wrapper and chunking, each run over a harness counting iterator: sent == symbols truly taken, success implies sent <= limit, limit >= len(E) identical to the unlimited run, repeat=k gives exactly k results; plus a deterministic sweep of every limit value for 29 fixed sentences. Exploration (exhaustive only within the sweep bounds).',
    note='Trusted: CPython, Hypothesis, the struct-only encoder in vp/c10cat.py. Any exception counts as "it fails" (the statement allows it).',
    technique='property-based testing over a machine catalogue with a counting-source oracle + bounded exhaustive limit sweep'),
})

CHECKS.update({
 'C09': dict(level='exploration', design='3/C09',
    text='Engine A: 2..3 real session threads run generated request lists through the in-process simulator one at a time under a harness-owned deterministic scheduler (sys.settrace steps at call/line granularity, cpppo\'s locks swapped for scheduler-aware ones, Hypothesis-drawn schedules of count-based and function-directed preemptions); the recorded invocation/response history is checked for reply ownership, exceptions, private data, untorn vectors and, exhaustively (Wing-Gong), linearizability against the array model. Engine B: 8 real client threads over TCP with a 1 microsecond switch interval, interleaving-independent clauses only. Bounded exploration of interleavings; cannot show absence of races.',
    note='Trusted: CPython (settrace, GIL), Hypothesis, vp/sched.py, vp/refcodec.py. A Multiple Service Packet is linearised member by member. Line-internal races are not split.',
    technique='schedule-controlled concurrency testing (Hypothesis-drawn preemption schedules) + linearizability checking; real-thread stress'),
 'C11': dict(level='exploration', design='3/C11',
    text='All regular-expression ASTs up to a size bound over a small alphabet x all strings up to a length bound (exhaustive, sharded), plus Hypothesis ASTs with multi-byte symbols, strings and chunkings, for the str and bytes machines; oracle = Brzozowski derivatives over an own AST (no greenery, no re): longest viable prefix consumed and stored, terminal iff that prefix (length >= 1) is a sentence, NonTerminal otherwise, identical for every chunking. Exhaustive within the stated bounds only. One upstream (greenery 2.1) finding is listed as known.',
    note='Trusted: CPython, Hypothesis, vp/regexref.py (self-tested against re.fullmatch on the shared syntax at start).',
    technique='bounded exhaustive enumeration + property-based testing against a derivative-based reference semantics'),
 'C15': dict(level='exploration', design='3/C15',
    text='The complete personality x request-route-path-kind x service grid (5x9x11) with drawn values, in-process, plus text forms of route paths, client-built frames and a CLI matrix over TCP; oracle = decision table of the statement, typed-array model on acceptance, and on refusal one error reply, unchanged snapshot and zero Attribute accesses (counting Attribute subclass). Exploration; the grid itself is enumerated completely.',
    note='Trusted: CPython, Hypothesis, vp/refcodec.py, vp/model.py. Multi-segment personalities are set as class attributes (main() restricts the CLI to one segment).',
    technique='exhaustive decision-table grid with property-based values + text round trip'),
})

CHECKS.update({
 'C16': dict(level='exploration', design='3/C16',
    text='Generated histories of set/get/in/del/pop/setdefault/update/iterate/copy/deepcopy operations (item, attribute, method and chained forms; leading dots, .. back-tracking, indexed list elements) on dotdict and up to two copies, compared after every step with a nested dict/list reference model using an independently written path resolver; plus a bounded exhaustive enumeration of dotted paths over a fixed tree. Exploration (exhaustive only within the enumeration bounds).',
    note='Trusted: CPython, Hypothesis, the reference model in vp/checks/c16.py. Failure classes involving lists/strings/indexes and a few documented not-implemented operations are accepted either way (see assumptions).',
    technique='model-based property testing of operation histories + bounded exhaustive path enumeration'),
 'C20': dict(level='exploration', design='3/C20',
    text='Recursive generated values (type-exact round trip through dump/parse, with tails), message streams in every chunking fed to tnet_machine exactly as tnet_from feeds it and through the real tnet_from, and raw frames judged by a 40-line independent reference parser (differential tnetstrings.parse vs. tnet_machine); deterministic sub-spaces: every cut position for a corpus, all ordered pairs back to back, a size ladder across every digit-count boundary of the length prefix; atheris coverage-guided stage on the raw clause in the thorough tier. Exploration.',
    note='Trusted: CPython, Hypothesis, atheris (thorough, optional), the reference parser in vp/checks/c20.py.',
    technique='round-trip and differential property-based testing, exhaustive chunking of a corpus, coverage-guided fuzzing (thorough)'),
})

CHECKS.update({
 'C04': dict(level='exploration', design='3/C04',
    text='Bounded exhaustive enumeration of fragmented transfers (element type per size x tag length x start x count x reply budget 1..3*size+1 set through Logix.MAX_BYTES or the per-request max_size, via Unconnected Send, Multiple Service Packet and straight to the Logix object) driven exactly as the statement says, all in-order tilings for fragmented writes with guard tags, plus Hypothesis-drawn large cases (tags up to 5000 elements, and of 32770 / 40000 / 65535 elements with start indices around 32768, the real 488-byte budget) and the same transfers through cpppo\'s own client over TCP. Exhaustive within the stated bounds only.',
    note='Trusted: CPython, Hypothesis, vp/refcodec.py, vp/sim.py. In-bounds, element-aligned transfers only (out-of-bounds is C05).',
    technique='bounded exhaustive enumeration + property-based testing with a reassembly/model-slice oracle'),
 'C17': dict(level='exploration', design='3/C17',
    text='Instants x all 599 zones x precisions x parse paths with every transition of every zone enumerated (transition table bisected by the harness from zoneinfo and re-checked per case), harness-built wall-clock strings in gaps/folds/edges, comparison operators vs. renderings, duration and offset round trips; oracle: the set of UTC instants having the rendered wall-clock time decides return/reject. Exploration; the per-zone transition enumeration is complete for the tzdata installed.',
    note='Trusted: CPython zoneinfo/tzdata, Hypothesis. Comparison-equal pairs up to 2 ms apart at exact float ties are counted as observations, not failures.',
    technique='property-based testing + enumeration of all zone transitions with an independent transition-table oracle'),
})

CHECKS.update({
 'C01': dict(level='exploration', design='3/C01',
    text='Hypothesis-generated messages over the whole grammar (typed data for 14 element types, EPATH plain/padded/single with every segment kind and width, status, every Message Router / Logix / Connection Manager service request and reply incl. Multiple Service Packets and small/large Forward Open, Unconnected Send and its error reply, CPF items, every encapsulation command) plus a deterministic boundary product; three clauses per message: library produce == independent reference encoder, library parse of reference bytes recovers every encoded field leaf by leaf (layered as server and client do), produce(parse(b)) == b exactly. Exploration only.',
    note='Trusted: CPython, Hypothesis, vp/refcodec.py + vp/refcodec_full.py (struct only, no cpppo; self-tested enc(dec(enc(m)))==enc(m)). A layout misread shared by cpppo\'s docstring tables and the reference encoder is invisible (C14 cross-checks the pylogix subset).',
    technique='round-trip and differential property-based testing against an independent reference codec'),
 'C02': dict(level='fault_enumeration', design='3/C02',
    text='(a) framer in-process: generated frame streams x every two-way split, byte-at-a-time, block and Hypothesis k-way chunkings, fed exactly as enip_srv_tcp feeds its machine -- parsed frames, consumed byte counts and source.sent identical for every chunking and equal to the reference decoder, partial tail never completes; (b) the same streams served chunk by chunk to a real cpppo client; (c) over TCP every truncation offset of generated write-request streams followed by half-close: replies == frames wholly delivered, tags == model after exactly those frames, witness session and new registration work. Exhaustive per generated stream within the stated bounds.',
    note='Trusted: CPython, Hypothesis, vp/refcodec.py. The in-process feeder re-implements the server loop; only the TCP engine reaches enip_srv_tcp itself. Socket timeouts (30 s) are inconclusive.',
    technique='metamorphic chunking-invariance testing + exhaustive truncation-offset fault enumeration over generated streams'),
 'C18': dict(level='exploration', design='3/C18',
    text='Generated histories (rotated / compressed / duplicated files written with the real logger, equal and increasing timestamps, comments and damaged lines) x loader settings x Hypothesis-drawn schedules of load() calls under a harness-owned clock, judged by a record-list model: every record exactly once, in order, never early, not late, final register map, COMPLETE; two exhaustively enumerated universes (file switches, one damaged line). One design-level finding (a file starting at the timestamp of a single-timestamp predecessor is skipped) is listed as known.',
    note='Trusted: CPython, Hypothesis, the record-list model in vp/checks/c18.py. Record times in one history are >= 2 ms apart (timestamp compares with a 1 ms epsilon).',
    technique='model-based property testing of histories and load() schedules under a controlled clock + bounded exhaustive universes'),
})

PENDING = {}

# additions made while testing the checks against independently seeded changes (DESIGN.md section 9.6)
ADDENDA = {
 'C01': ' Fourth clause (re-produce): a dict produced once is overwritten in place with the field values of a second message of identical shape and produced again; the bytes must be those of a fresh dict (stale cached encodings). Forward Open also given by bare fields (sizes decide Small/Large).',
 'C02': ' TCP engine: requests delivered whole in two pieces with a final piece of 1..23 bytes (a missing reply is confirmed by one further frame); payloads around and beyond 0x8000 bytes in the quick tier.',
 'C10': ' Catalogue additions: dfa(repeat) around a symbol-restricted two-state sub-grammar with an incomplete intermediate element; encapsulation payloads of 32767..65000 bytes; a run whose first symbol was pushed back onto a fresh source; the declared end of an unrecognized CPF item is a hard bound.',
 'C11': ' Latin-1-range symbols (one byte in ISO-8859-1, two in UTF-8) in the multi-byte alphabet; half of the machines are built with a regex_context and the storage location is checked.',
 'C12': ' One materialised operation list is issued again under every setting (a caller\'s list is not consumed). Text clause also covers get_attribute.attribute_operations (un-cast integers are SINT, @c/i/a reads one attribute, @c/i all) and the format/parse round trip of numeric paths that skip a level.',
 'C03': ' One request in eight comes from the boundary generator of C05 (refused requests must change nothing either); a TCP engine runs the same histories against enip.main.main() with generated command lines. A few histories run on one 40000-element tag at start indices around 32768 (upper half of the 16-bit element segment).',
 'C04': ' Fill values keep extreme anchors extreme at every index (ULINT >= 2**63, LINT near its minimum).',
 'C05': ' Set Attribute Single payloads with 1..size-1 stray or missing bytes.',
 'C06': ' A quarter of the shards run against --size N (over-size requests: one reply with a non-zero encapsulation status) and a quarter against --route-path; bundle members address other objects and are judged member by member; a client-context clause drives the library client collect() with arbitrary sender contexts; Forward Open / Large Forward Open / Forward Close in the sequences; a positive test that Unregister ends the session; a routed clause (router rig: second simulator behind the stalling relay, DESIGN 9.7).',
 'C07': ' Client clause also spells attribute services as generic service-code operations; bundles of 255/256/257/300 small members.',
 'C08': ' TCP clause: a session aborted with RST followed by a new session from the same source port (after the aborted connection\'s handler thread ended); bursts of connections reset before accept; a write request cut at every byte offset followed by end-of-stream; a connection neither answered nor closed within 15 s is watched for another 45 s (late close = violation). Connected clause: Forward Open with 0..3 hops then connected requests under a repeating watchdog the code under test cannot swallow.',
 'C09': ' Register Session is issued under the schedule too (dedicated sweep scenario and one in four drawn cases); both engines require pairwise distinct session handles of simultaneously open sessions; one tag whose element ranges are each written by one session only; produce side line-traced (reader preempted while encoding); unparsable requests from one session while others run (two-preemption sweep, hostile sessions in engine B); a same-source-port pair from two loopback addresses; engine B clients also pipeline request pairs in one segment (both answered, in order).',
 'C13': ' Stall clause: the relay delivers a reply up to byte k, stays silent past the client timeout, then delivers the rest; the connector is driven directly (with conn: harvest(issue(...))) and a later transaction must never yield the delayed reply. poll.run over several cycles. One wide exchange (12 reads, all in flight; 21 in the thorough tier) under every contiguous run of wholly lost replies.',
 'C14': ' Tags with dotted names sharing leading components and unknown siblings. Connected sequence counts cross 0x8000/0xFFFF; port-less connection paths (reference session and pylogix Micro800); a second connected session dropped abruptly; raw out-of-range requests must carry 0xFF/0x2105; an exception raised inside pylogix is a failure to interoperate.',
 'C15': ' Stream clause: operation streams with per-operation route path text through connector.issue (frames captured, decoded by the reference codec); connector-level default route paths; configuration-file personalities (--config) and main(UCMM_class=...) in the CLI matrix.',
 'C16': ' Index expressions as index forms; stored None/False/0.0; pop(path, default) when only the leaf is absent.',
 'C18': ' Files are written in 1..3 consecutive logger sessions; a third of the plain histories use encoding=utf-8 for writing and loading, with non-ASCII comments heading files.',
 'C19': ' Two-bank inputs hugging the gap between neighbouring banks; limit 0 (= none given); a poller clause drives poller_modbus over an in-process fake transport (holding registers, and coils with pymodbus-encoded whole-byte responses): every requested register reads back its value.',
 'C20': ' Sessions clause: consecutive tnet_from sessions, earlier consumers stopping before all received data was consumed; ignore= with 0..3 ignorable symbols between messages. Round trip of values holding one object twice.',
}
for _k, _v in ADDENDA.items():
    CHECKS[_k]['text'] += _v


def main():
    ids = [json.loads(l)['id'] for l in open(os.path.join(HERE, 'properties.jsonl')) if l.strip()]
    checks = []
    na = []
    for pid in ids:
        c = CHECKS.get(pid)
        if c is None or not os.path.exists(os.path.join(HERE, 'vp', 'checks', pid.lower() + '.py')):
            na.append({'property_id': pid, 'reason': PENDING.get(pid, 'check not built yet (work in progress; DESIGN.md section 3/%s describes the planned generated check)' % pid)})
            continue
        checks.append({
            'property_id': pid,
            'quick_cmd': './check %s quick' % pid,
            'thorough_cmd': './check %s thorough' % pid,
            'evidence_file': 'evidence/%s.json' % pid,
            'replay_cmd_template': './check %s --replay {path}' % pid,
            'engine': 'vp',
            'level_claimed': {'category': c['level'], 'text': c['text'], 'design_ref': 'DESIGN.md section ' + c['design']},
            'level_note': c['note'],
            'technique': c['technique'],
        })
    doc = {
        'version': 1,
        'setup_cmd': './setup.sh',
        'hooks': {
            'guard': 'CPPPO_VERIF',
            'enable': 'no source hooks: the checks import /repo\'s working tree directly (symlink .pkg/cpppo -> /repo) and inject clocks, locks and counters from the harness through public extension points; ./check exports CPPPO_VERIF=1 for uniformity',
            'baseline_off_cmd': 'cd /repo && /venv/bin/python -m pytest -ra -q -p no:cacheprovider --timeout=900 --continue-on-collection-errors',
            'source_commits': [],
            'add_only': True,
        },
        'engines': [{'name': 'vp', 'path': 'vp/', 'serves_properties': [c['property_id'] for c in checks],
                     'kind_free_text': 'Python harness: Hypothesis strategies / stateful histories / bounded enumeration / fault-injecting relay / atheris targets, explicit oracles (reference codec, typed-array model, derivative regex semantics, nested-dict model, record-list model), failure collection by root-cause signature, shrinking, JSON replay files'}],
        'checks': checks,
        'notes': 'Exit codes: 0 held, 1 VIOLATION, 2 harness error/inconclusive. Known findings: known_findings.json. Regression replays: replay/<id>/*.json run first on every invocation.',
        'not_applicable': na,
    }
    with open(os.path.join(HERE, 'MANIFEST.json'), 'w') as f:
        json.dump(doc, f, indent=1)
        f.write('\n')
    try:
        import jsonschema
        jsonschema.validate(doc, json.load(open('/root/.vp/MANIFEST.schema.json')))
        print('MANIFEST.json valid;', len(checks), 'checks,', len(na), 'not yet claimed')
    except ImportError:
        print('MANIFEST.json written (jsonschema not importable here)')

if __name__ == '__main__':
    main()
