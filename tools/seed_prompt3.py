#!/venv/bin/python
"""usage: tools/seed_prompt3.py <Cxx>  -> writes /tmp/seed_prompt_<Cxx>c.txt (round 3: up to three changes, each at a different anchored mechanism)"""
import json, sys, os, re
pid = sys.argv[1]
name = pid + (sys.argv[2] if len(sys.argv) > 2 else 'c')
props = [json.loads(l) for l in open('/verif/properties.jsonl')]
p = [x for x in props if x['id'] == pid][0]
done = []
for d in sorted(x for x in os.listdir('/verif/seeded') if x.startswith(pid)):
    m = '/verif/seeded/%s/meta.json' % d
    if os.path.exists(m):
        meta = json.load(open(m))
        files = sorted(set(re.findall(r'^\+\+\+ b/(\S+)', open('/verif/seeded/%s/patch.diff' % d).read(), re.M)))
        done.append('- (already done, do NOT repeat or vary) files %s: needs %s' % (', '.join(files), meta['needs_to_manifest']))
mech = '\n'.join('  - %s (%s)' % (m['name'], m['where']) for m in p['anchors'].get('mechanism', []))
wt = '/tmp/seed_' + name
txt = f"""You are helping to evaluate a verification harness by playing the adversary. Work ONLY inside your scratch git worktree of the cpppo repository (a pure-Python EtherNet/IP CIP protocol library, client and Logix controller simulator) at {wt} . Do NOT read or touch /verif or /repo (another team works there); do not run git commit; do not create files outside {wt} and /tmp/seedout_{name} .

Property (this is all you are told about what is being verified):
---
Property {pid}: {p['title']}

Statement: {p['statement']}

Quantified over: {p['quantifier']['text']}

Anchored in files: {', '.join(p['anchors']['files'])}
Mechanisms the property rests on (line numbers may have drifted a little):
{mech}
---

Your task: produce up to THREE independent small, realistic changes to the library code (each the kind of regression a maintainer could plausibly introduce in a refactor or "optimisation" — an off-by-one at a boundary, a dropped or reordered step, a wrong variable, a cache, a missing conversion, a default that changed, two sites that each look fine alone), each of which BREAKS the property above while the code still imports and the repository's existing test-suite still passes. Each of the three must sit at a DIFFERENT mechanism from the list above (different function; ideally different files and different clauses of the statement) and need a different kind of trigger. Prefer changes that need something specific to manifest — a particular boundary value or unusual input, a multi-step sequence of operations, a particular configuration, interleaving or fault point — NOT ones that ordinary use or the existing tests expose at once. Do not touch test files. Do not add dead code or comments that announce the bug. Work on them one at a time: make change 1, test, save its deliverables, revert it (`git apply -R`), then change 2, and so on; each patch must apply on its own to the unchanged tree. If you can only find two good ones, deliver two.

How to run things against your worktree (the installed `cpppo` package points at /repo, so you MUST put your worktree first on the path):
  export PYTHONPATH={wt}_pkg        # contains the symlink cpppo -> {wt}
  /venv/bin/python -c "import cpppo; print(cpppo.__file__)"     # must print a path inside {wt}
  cd {wt} && PYTHONPATH={wt}_pkg /venv/bin/python -m pytest -q -p no:cacheprovider --timeout=900 <test files>
The existing tests most relevant to your area must pass with each change (run the relevant test files for each; run the whole suite once for the change you consider the most invasive):
  cd {wt} && PYTHONPATH={wt}_pkg /venv/bin/python -m pytest -ra -q -p no:cacheprovider --timeout=900 --continue-on-collection-errors 2>&1 | tail -40
(17 tests fail even on the unchanged tree because the sandbox has no network/multiprocessing managers — e.g. test_apidict_multiprocessing, test_dotdict_multiprocessing_proxies, test_managed_proxy, test_plc_modbus_timeouts, test_pymodbus_service_actions, test_client_api_random, hart_test::*, poll_test::test_powerflex_poll_success/test_powerflex_simple, udt_test::test_logix_remote_udt, the *bench* tests, test_soak_Process; these do not count. To compare with the unchanged code use `git diff > p.diff; git apply -R p.diff; <same command>; git apply p.diff` -- never `git stash` (the stash is shared with other worktrees).) The machine is heavily loaded; be patient with timeouts.

Previous adversaries already produced the following changes for this property; choose DIFFERENT mechanisms:
{chr(10).join(done)}

Deliverables, in /tmp/seedout_{name}/1/, /tmp/seedout_{name}/2/, /tmp/seedout_{name}/3/ (create them), each holding:
  patch.diff   — `git -C {wt} diff` of that change alone (library files only)
  demo.py      — a small standalone program (run as: PYTHONPATH=<pkgdir> /venv/bin/python demo.py) that exits 0 on the unchanged code and exits non-zero (assertion failure) with that change applied, demonstrating the property violation through the library's public behaviour
  notes.md     — 5-10 lines: what you changed, why it breaks the property, what specific input / sequence / interleaving it needs in order to manifest, which tests you ran and their result
Verify each demo.py both ways (git apply -R / git apply of its patch.diff -- never git stash) before you finish; leave the worktree unchanged (all patches reverted) at the end. Final message: a short summary per change (the diff, how it manifests, test results).
"""
open('/tmp/seed_prompt_%s.txt' % name, 'w').write(txt)
print('/tmp/seed_prompt_%s.txt' % name)
