#!/venv/bin/python
"""usage: tools/seed_keep.py <seedname> <property> '<needs>' '<caught by ...>'  -- copies /tmp/seedout_<seedname> to seeded/<seedname>/ with meta.json"""
import json, os, shutil, sys, subprocess
name, prop, needs, caught = sys.argv[1:5]
src = '/tmp/seedout_' + name
dst = '/verif/seeded/' + name
os.makedirs(dst, exist_ok=True)
for f in ('patch.diff', 'demo.py', 'notes.md'):
    if os.path.exists(os.path.join(src, f)):
        shutil.copy(os.path.join(src, f), os.path.join(dst, f))
head = subprocess.check_output(['git', '-C', '/repo', 'log', '--format=%h', '-1']).decode().strip()
meta = {
    'property': prop,
    'written_by': 'independent sub-agent given only the property text and a scratch git worktree of /repo',
    'needs_to_manifest': needs,
    'verified': ('tools/seed_verify.sh %s ...: patch applies to a fresh copy of /repo HEAD %s; demo.py exits 0 on the unchanged copy and non-zero '
                 'on the patched copy; the repository test-suite result is unchanged by the patch (agent ran it; the stable baseline tests pass)') % (name, head),
    'detected_by': caught,
}
json.dump(meta, open(os.path.join(dst, 'meta.json'), 'w'), indent=1)
print('kept', dst)
