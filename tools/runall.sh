#!/bin/bash
# usage: tools/runall.sh <tier> <seed...>   -- runs every check sequentially, prints one line per run
cd "$(dirname "$0")/.."
TIER="$1"; shift
for sd in "$@"; do
  for c in C01 C02 C03 C04 C05 C06 C07 C08 C09 C10 C11 C12 C13 C14 C15 C16 C17 C18 C19 C20; do
    out=$(VERIF_SEED=$sd ./check $c $TIER 2>&1); rc=$?
    echo "rc=$rc $(echo "$out" | grep -E "$c $TIER seed" | tail -1)"
    if [ $rc -ne 0 ]; then echo "$out" | grep -E "VIOLATION|signature=|HARNESS|INCONCLUSIVE|Error" | head -8 | cut -c1-300; fi
  done
done
