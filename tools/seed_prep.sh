#!/bin/bash
# usage: tools/seed_prep.sh <name>   -> creates /tmp/seed_<name> (git worktree of /repo HEAD) and /tmp/seed_<name>_pkg/cpppo -> it
set -e
N="$1"
WT=/tmp/seed_$N
git -C /repo worktree remove --force "$WT" 2>/dev/null || true
rm -rf "$WT" "${WT}_pkg"
git -C /repo worktree add --detach "$WT" HEAD >/dev/null 2>&1
mkdir -p "${WT}_pkg" && ln -s "$WT" "${WT}_pkg/cpppo"
echo "$WT"
