#!/bin/bash
# usage: tools/seed_verify.sh <seedname> <check ids...>   e.g. tools/seed_verify.sh C19 C19
# Verifies a seeded change in a fresh scratch copy of /repo HEAD: patch applies, demo passes without / fails with,
# then runs the named checks against the patched copy.  Prints a summary; leaves nothing behind.
N="$1"; shift
OUT=/tmp/seedout_$N
W=/tmp/sv_$N
rm -rf "$W" "${W}_pkg"; mkdir -p "$W" "${W}_pkg"
git -C /repo archive HEAD | tar -x -C "$W"
ln -s "$W" "${W}_pkg/cpppo"
cd "$W"
echo "== demo on unchanged copy"
( cd $OUT && PYTHONPATH=${W}_pkg timeout 600 /venv/bin/python demo.py >/tmp/sv_$N.clean.log 2>&1 ); echo "   exit $?"
echo "== apply patch"
git init -q . 2>/dev/null; patch -p1 -s < $OUT/patch.diff && echo "   applied"
echo "== demo on patched copy"
( cd $OUT && PYTHONPATH=${W}_pkg timeout 600 /venv/bin/python demo.py >/tmp/sv_$N.patched.log 2>&1 ); echo "   exit $?"
tail -3 /tmp/sv_$N.patched.log
cd /verif
for c in "$@"; do
  echo "== ./check $c quick against patched copy"
  VP_REPO=$W VP_SHRINK_S=15 ./check $c quick 2>&1 | grep -E "VIOLATION|signature=|quick seed|HARNESS|INCONCLUSIVE|KNOWN" | cut -c1-220
done
rm -rf "$W" "${W}_pkg"
