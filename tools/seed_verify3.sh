#!/bin/bash
# usage: tools/seed_verify3.sh <Cxx> <k> <check ids...>   (round 3: deliverables in /tmp/seedout_<Cxx>c/<k>/)
# Same as seed_verify.sh; links /tmp/seedout_<Cxx>c<k> -> that directory so that seed_keep.py <Cxx>c<k> works.
P="$1"; K="$2"; shift; shift
rm -rf /tmp/seedout_${P}c${K}; ln -s /tmp/seedout_${P}c/${K} /tmp/seedout_${P}c${K}
exec "$(dirname "$0")/seed_verify.sh" ${P}c${K} "$@"
