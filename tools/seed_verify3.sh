#!/bin/bash
# usage: [ROUND=c|d] tools/seed_verify3.sh <Cxx> <k> <check ids...>   (rounds 3/4: deliverables in /tmp/seedout_<Cxx><round>/<k>/)
# Same as seed_verify.sh; links /tmp/seedout_<Cxx><round><k> -> that directory so that seed_keep.py <Cxx><round><k> works.
R="${ROUND:-c}"
P="$1"; K="$2"; shift; shift
rm -rf /tmp/seedout_${P}${R}${K}; ln -s /tmp/seedout_${P}${R}/${K} /tmp/seedout_${P}${R}${K}
exec "$(dirname "$0")/seed_verify.sh" ${P}${R}${K} "$@"
