#!/bin/bash
# Offline setup: make sure hypothesis (and, best effort, atheris) are importable by /venv/bin/python.
HERE="$(cd "$(dirname "${BASH_SOURCE[0]}")" && pwd)"
PY="${VP_PYTHON:-/venv/bin/python}"
mkdir -p "$HERE/.deps" "$HERE/.pkg" "$HERE/evidence"
export PYTHONPATH="$HERE/.deps"
"$PY" -c 'import hypothesis' 2>/dev/null || \
    "$PY" -m pip install -q --no-index --find-links /opt/veriftools/wheels --target "$HERE/.deps" hypothesis || exit 1
"$PY" -c 'import atheris' 2>/dev/null || \
    "$PY" -m pip install -q --no-index --find-links /opt/veriftools/wheels --target "$HERE/.deps" atheris || \
    echo "setup: atheris not installable; coverage-guided tiers will be skipped" >&2
"$PY" -c 'import hypothesis; print("hypothesis", hypothesis.__version__)'
exit 0
