"""
sim -- drive the cpppo Logix simulator.

Two drivers:
  * in-process: `Device` builds the `tags` dotdict exactly as enip.main.main() does for a tag list
    and processes one complete frame per call with the same three steps `enip_srv_tcp` performs
    (frame with enip_machine, logix.process, enip_encode).  Global simulator state (device directory,
    symbol table, UCMM singleton, sessions, forward-opens) is reset for every new Device.
  * TCP: `TcpServer` runs enip.main.main() in a daemon thread on 127.0.0.1:<ephemeral>; the bound port
    is read from control['address'].  One server per process (cpppo keeps its tags in module globals).
"""
from __future__ import annotations

import contextlib
import socket
import threading
import time

from . import refcodec as rc

TYPE_NAMES = ('BOOL', 'SINT', 'USINT', 'INT', 'UINT', 'DINT', 'UDINT', 'LINT', 'ULINT', 'REAL', 'LREAL',
              'SSTRING', 'STRING')


def _mods():
    import cpppo
    from cpppo.server.enip import parser, device, logix, ucmm
    return cpppo, parser, device, logix, ucmm


def tag_default(tname):
    return 0.0 if tname in ('REAL', 'LREAL') else '' if tname in ('SSTRING', 'STRING') else 0


def tag_arg(spec):
    """CLI argument main() accepts for this tag spec."""
    name = spec['name']
    if spec.get('address'):
        name += '@%d/%d/%d' % tuple(spec['address'])
    return '%s=%s[%d]' % (name, spec['type'], spec['length'])


def reset_globals():
    cpppo, parser, device, logix, ucmm = _mods()
    device.lookup_reset()
    logix.setup_reset()
    ucmm.UCMM.sessions.clear()
    device.Connection_Manager.forwards.clear()


class Incomplete(Exception):
    pass


class Device(object):
    """A fresh in-process simulator holding the given tags.

    specs: [{'name','type','length','address': None|[cls,ins,att]}]
    """

    def __init__(self, specs, ucmm_class=None, attribute_class=None, size=None, max_bytes=None):
        cpppo, parser, device, logix, ucmm = _mods()
        self.cpppo, self.parser, self.device, self.logix, self.ucmm = cpppo, parser, device, logix, ucmm
        reset_globals()
        attribute_class = attribute_class or device.Attribute
        self.specs = [dict(s) for s in specs]
        self.tags = cpppo.dotdict()
        self.attrs = {}
        for s in self.specs:
            tcls = getattr(parser, s['type'])
            dflt = tag_default(s['type'])
            attribute = None
            path = None
            if s.get('address'):
                segments, elm, cnt = device.parse_path_elements('@%d/%d/%d' % tuple(s['address']))
                path = {'segment': segments}
                ids = device.resolve(path, attribute=True)
                for tn, te in dict.items(self.tags):
                    if not te['path']:
                        continue
                    if device.resolve(te['path'], attribute=True) == ids:
                        assert te.attribute.parser.__class__ is tcls and len(te.attribute) == s['length']
                        attribute = te.attribute
                        break
            if attribute is None:
                attribute = attribute_class(name=s['name'], type_cls=tcls,
                                            default=dflt if s['length'] == 1 else [dflt] * s['length'])
            entry = cpppo.dotdict()
            entry.attribute = attribute
            entry.path = path
            entry.error = 0x00
            dict.__setitem__(self.tags, s['name'], entry)
            self.attrs[s['name']] = attribute
        self.kwds = dict(tags=self.tags, size=size)
        if ucmm_class is not None:
            self.kwds['UCMM_class'] = ucmm_class
        self.machine = parser.enip_machine(name='vp', context='enip')
        self.saved_max_bytes = logix.Logix.MAX_BYTES
        if max_bytes is not None:
            logix.Logix.MAX_BYTES = max_bytes
        # make the device objects exist now (as the first request would)
        logix.setup(**self.kwds)

    def close(self):
        self.logix.Logix.MAX_BYTES = self.saved_max_bytes

    # -- state inspection ("in-process inspection of Attribute values")
    def values(self, name):
        a = self.attrs[name]
        v = a.value
        return [v] if a.scalar else list(v)

    def snapshot(self):
        out = {}
        for s in self.specs:
            out[s['name']] = [rc.canon_value(s['type'], v) for v in self.values(s['name'])]
        return out

    def raw_snapshot(self):
        return {s['name']: list(self.values(s['name'])) for s in self.specs}

    def restore(self, raw):
        for name, vals in raw.items():
            a = self.attrs[name]
            if a.scalar:
                a.default = vals[0]
            else:
                a.default[:] = list(vals)

    # -- one request frame -> (outcome, reply_bytes|None)
    def frame_parse(self, frame, machine=None):
        """Parse exactly one complete frame with enip_machine the way enip_srv_tcp does; returns data.
        machine: a per-connection enip_machine (the real server has one per connection); default: a shared one."""
        data = self.cpppo.dotdict()
        source = self.cpppo.rememberable(bytes(frame))
        with (machine or self.machine) as machine:
            with contextlib.closing(machine.run(path='request', source=source, data=data)) as engine:
                waiting = False
                for mch, sta in engine:
                    if sta is None and source.peek() is None:
                        waiting = True      # the server would block in recv() here
                        break
            if waiting:
                raise Incomplete('frame incomplete after %d bytes' % source.sent)
        return data, source

    def process(self, addr, frame, machine=None):
        """-> ('reply', bytes) | ('closed', None) | ('error', exc)

        'reply'  : a reply frame was produced (session continues unless its encapsulation status != 0)
        'closed' : the session ended without a reply (Unregister)
        'error'  : an exception left logix.process / the encoder; the server closes this connection
        """
        addr = tuple(addr)
        try:
            data, source = self.frame_parse(frame, machine)
        except Incomplete:
            raise
        except Exception as exc:
            self.logix.process(addr, data=self.cpppo.dotdict(), **self.kwds)
            return ('error', exc)
        try:
            proceed = self.logix.process(addr, data=data, **self.kwds)
            if not proceed:
                return ('closed', None)
            assert 'response.enip' in data
            if 'input' not in data.response.enip or not data.response.enip.input:
                assert data.response.enip.status
            return ('reply', self.parser.enip_encode(data.response.enip))
        except Exception as exc:
            try:
                self.logix.process(addr, data=self.cpppo.dotdict(), **self.kwds)
            except Exception:
                pass
            return ('error', exc)

    def end_session(self, addr):
        self.logix.process(tuple(addr), data=self.cpppo.dotdict(), **self.kwds)


class Session(object):
    """A registered in-process session: wraps messages in SendRRData frames encoded by refcodec."""

    def __init__(self, dev, addr=('127.0.0.1', 10001), register=True):
        self.dev = dev
        self.addr = tuple(addr)
        self.counter = 0
        self.handle = None
        self.alive = False
        if register:
            self.register()

    def register(self, machine=None):
        dev = self.dev
        kind, rpy = dev.process(self.addr, rc.register(), machine=machine)
        assert kind == 'reply', (kind, rpy)
        e = rc.dec_encap(rpy)
        assert e['status'] == 0 and e['session'] != 0
        self.handle = e['session']
        self.alive = True

    def context(self):
        self.counter += 1
        return self.counter.to_bytes(8, 'little')

    def send(self, message, wrap=True, route_path=None, context=None):
        """message: Message Router request bytes.  wrap: put it in an Unconnected Send.
        -> dict(kind, enip_status, reply (decoded MR reply or None), raw)"""
        ctx = context or self.context()
        msg = rc.unconnected_send(message, route_path=route_path) if wrap else message
        kind, rpy = self.dev.process(self.addr, rc.rr_frame(self.handle, msg, ctx))
        out = {'kind': kind, 'enip_status': None, 'reply': None, 'raw': rpy, 'context': ctx}
        if kind == 'reply':
            e = rc.dec_encap(rpy)
            out['enip_status'] = e['status']
            out['encap'] = e
            if e['status'] == 0:
                e2, m = rc.dec_rr_reply(rpy)
                out['message'] = m
                out['reply'] = rc.dec_mr_reply(m)
            else:
                self.alive = False
        else:
            self.alive = False
            if kind == 'error':
                out['error'] = '%s: %s' % (type(rpy).__name__, str(rpy)[:200])
                out['raw'] = None
        return out


# ------------------------------------------------------------------------------------------------
# TCP


class TcpServer(object):
    """enip.main.main() in a daemon thread.  Only one per process."""
    _started = False

    def __init__(self, specs, extra_argv=(), no_config=True, **main_kwds):
        cpppo, parser, device, logix, ucmm = _mods()
        from cpppo.server.enip import main as enip_main
        assert not TcpServer._started, 'one TCP simulator per process'
        TcpServer._started = True
        reset_globals()
        self.enip_main = enip_main
        self.specs = [dict(s) for s in specs]
        self.control = cpppo.apidict(timeout=1.0, done=False, disable=False, latency=0.05)
        argv = ['--address', '127.0.0.1:0', '--no-udp'] + (['--no-config'] if no_config else []) + list(extra_argv) + [tag_arg(s) for s in self.specs]
        self.error = None

        def target():
            try:
                enip_main.main(argv=argv, server={'control': self.control}, **main_kwds)
            except BaseException as exc:        # noqa
                self.error = exc

        self.thread = threading.Thread(target=target, name='vp-enip-server', daemon=True)
        self.thread.start()
        t0 = time.time()
        while time.time() - t0 < 20:
            a = dict.get(self.control, 'address')
            if a:
                break
            if self.error is not None or not self.thread.is_alive():
                raise RuntimeError('simulator did not start: %r' % (self.error,))
            time.sleep(0.01)
        else:
            raise RuntimeError('simulator did not report its address')
        self.address = tuple(a)
        # make sure the device objects and tags exist before the first client (in-process inspection)
        self.tags = enip_main.tags

    def attribute(self, name):
        return dict.__getitem__(self.tags, name).attribute

    def values(self, name):
        a = self.attribute(name)
        return [a.value] if a.scalar else list(a.value)

    def snapshot(self):
        return {s['name']: [rc.canon_value(s['type'], v) for v in self.values(s['name'])] for s in self.specs}

    def set_values(self, name, vals):
        a = self.attribute(name)
        if a.scalar:
            a.default = vals[0]
        else:
            a.default[:] = list(vals)

    def alive(self):
        return self.thread.is_alive()

    def stop(self):
        dict.__setitem__(self.control, 'done', True)
        self.thread.join(5)

    def connect(self, timeout=5.0):
        s = socket.create_connection(self.address, timeout=timeout)
        s.setsockopt(socket.IPPROTO_TCP, socket.TCP_NODELAY, 1)
        return s


def recv_frames(sock, n, timeout=5.0):
    """Read until n complete frames arrived, EOF, or timeout -> (frames, leftover, eof)"""
    buf = b''
    eof = False
    deadline = time.time() + timeout
    frames = []
    while True:
        frames, left = rc.split_frames(buf)
        if len(frames) >= n:
            break
        remaining = deadline - time.time()
        if remaining <= 0:
            break
        sock.settimeout(remaining)
        try:
            chunk = sock.recv(65536)
        except socket.timeout:
            break
        except (ConnectionResetError, BrokenPipeError):
            eof = True
            break
        if not chunk:
            eof = True
            break
        buf += chunk
    frames, left = rc.split_frames(buf)
    return frames, left, eof


def recv_until_eof(sock, timeout=5.0):
    buf = b''
    eof = False
    deadline = time.time() + timeout
    while True:
        remaining = deadline - time.time()
        if remaining <= 0:
            break
        sock.settimeout(remaining)
        try:
            chunk = sock.recv(65536)
        except socket.timeout:
            break
        except (ConnectionResetError, BrokenPipeError):
            eof = True
            break
        if not chunk:
            eof = True
            break
        buf += chunk
    return buf, eof


class TcpSession(object):
    def __init__(self, server, timeout=5.0):
        self.sock = server.connect(timeout)
        self.timeout = timeout
        self.counter = 0
        self.sock.sendall(rc.register())
        frames, left, eof = recv_frames(self.sock, 1, timeout)
        assert len(frames) == 1 and not left, (frames, left, eof)
        e = rc.dec_encap(frames[0])
        assert e['status'] == 0 and e['session']
        self.handle = e['session']

    def context(self):
        self.counter += 1
        return self.counter.to_bytes(8, 'little')

    def send(self, message, wrap=True, route_path=None):
        ctx = self.context()
        msg = rc.unconnected_send(message, route_path=route_path) if wrap else message
        self.sock.sendall(rc.rr_frame(self.handle, msg, ctx))
        frames, left, eof = recv_frames(self.sock, 1, self.timeout)
        out = {'kind': 'reply' if frames else ('closed' if eof else 'timeout'), 'enip_status': None, 'reply': None,
               'context': ctx, 'raw': frames[0] if frames else None}
        if frames:
            e = rc.dec_encap(frames[0])
            out['enip_status'] = e['status']
            out['encap'] = e
            if e['status'] == 0:
                _, m = rc.dec_rr_reply(frames[0])
                out['message'] = m
                out['reply'] = rc.dec_mr_reply(m)
        return out

    def close(self):
        try:
            self.sock.close()
        except Exception:
            pass


# ------------------------------------------------------------------------------------------------
# per-process singletons (a server thread does not survive fork(); never reuse an inherited object)

_PER_PROCESS = {}


def per_process(key, factory):
    import os
    ent = _PER_PROCESS.get(key)
    if ent is None or ent[0] != os.getpid():
        TcpServer._started = False
        ent = _PER_PROCESS[key] = (os.getpid(), factory())
    return ent[1]
