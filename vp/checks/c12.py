"""
C12 -- client results do not depend on pipelining depth or request bundling; text <-> operation.

Clause 'settings' (metamorphic + model): a generated operation list is run through cpppo's client
(connector.operate) against a real TCP simulator under a matrix of (depth, multiple) settings, separately for
fragment off / on; tag state is reset in-process before every run.  Oracle: exactly one result per operation,
in operation order; the (status, value) sequence is identical for every setting and equals the typed-array
model; the final tag state equals the model; every Multiple Service Packet the client sends contains only
operations sharing one (route_path, send_path).

Clause 'text': structured operations rendered to text by an independent renderer must parse
(parse_operations) to exactly the structured operation; format_path / parse_path round trip.
"""
from __future__ import annotations

import json

from hypothesis import strategies as st

from .. import common, model as M, refcodec as rc, sim, tagcheck
from ..common import Stats

PID = 'C12'
LEVEL = 'exploration'
RULE = ('settings: case = list of 1..N operations (reads/writes of scalars and ranges, Get/Set Attribute Single, operations '
        'refused with a CIP status anywhere, per-operation route/send path variations) run under every (depth in {0,1,2,3,8,50}) x '
        '(multiple in {0,90,250,500,4000}) sample x fragment in {off,on}; non-trivial = list with a refused operation not in last '
        'position and a write->read dependency, run under >= 3 distinct settings.  text: case = structured operation (symbolic '
        'dotted/indexed or @class/instance/attribute path, index | range | *count, +offset, (TYPE) cast, CSV values) rendered to '
        'text; non-trivial = text with a range or count and a value list or cast')
ASSUMPTIONS = [
    'operations addressing unknown tags are not generated: they end the session at encapsulation level in every mode (outside '
    'the quantifier of the statement)',
    'fragment off and fragment on select different services and are compared separately (the statement does not equate them)',
    'route paths are varied only between values the unconfigured simulator accepts; a bare (non Unconnected Send) request is '
    'not used because Read Tag Fragmented 0x52 is then ambiguous',
    'one TCP simulator per forked worker; tag values reset in-process before every run; client timeout 10 s, a timeout is '
    'inconclusive',
]
MIN_EVALUATIONS = {'quick': 400, 'thorough': 5000}

SPECS = [
    {'name': 'I16', 'type': 'INT', 'length': 20, 'address': None},
    {'name': 'Scalar', 'type': 'DINT', 'length': 1, 'address': None},
    {'name': 'F32', 'type': 'REAL', 'length': 8, 'address': [0x93, 1, 3]},
    {'name': 'Big', 'type': 'DINT', 'length': 300, 'address': None},
    {'name': 'Str', 'type': 'SSTRING', 'length': 3, 'address': None},
    {'name': 'Flags', 'type': 'BOOL', 'length': 5, 'address': [0x104, 2, 1]},
    {'name': 'Motor.Speed', 'type': 'LREAL', 'length': 2, 'address': None},
    {'name': 'U8', 'type': 'USINT', 'length': 6, 'address': None},
    {'name': 'Setpoint', 'type': 'LREAL', 'length': 1, 'address': None},
    {'name': 'Ratio', 'type': 'REAL', 'length': 1, 'address': None},
]
DEPTHS = [0, 1, 2, 3, 8, 50]
MULTIPLES = [0, 90, 250, 500, 4000]
ROUTES = [None, [{'port': 1, 'link': 0}], [{'port': 2, 'link': 3}]]
SENDS = [None, '@6/1']


@st.composite
def oper(draw):
    op = draw(tagcheck.op_strategy(SPECS, draw(st.sampled_from(['valid', 'valid', 'edge']))))
    while (op['tag'] == 'NoSuchTag' and not op.get('unknown_attribute')) or (op['svc'] == 'set_attr' and not op.get('values')):
        op = draw(tagcheck.op_strategy(SPECS, 'valid'))
    # the fragment flag of the run chooses the service; offsets are not spelled per operation
    if op['svc'] == 'read_frag':
        op['svc'] = 'read_tag'
    if op['svc'] == 'write_frag':
        op['svc'] = 'write_tag'
        op['count'] = len(op['values'])
    op.pop('offset', None)
    op.pop('raw', None)         # (a byte-level Set Attribute Single payload cannot be spelled through the client API)
    if op['svc'] == 'write_tag' and op['count'] != len(op['values']):
        op['count'] = len(op['values'])
    op['route'] = draw(st.sampled_from([0, 0, 0, 1, 2]))
    op['send'] = draw(st.sampled_from([0, 0, 1]))
    return op


@st.composite
def setting_cases(draw, k):
    ops = draw(st.lists(oper(), min_size=1, max_size=k))
    nset = draw(st.integers(3, 4))
    settings = draw(st.lists(st.tuples(st.sampled_from(DEPTHS), st.sampled_from(MULTIPLES)), min_size=nset, max_size=nset, unique=True))
    return {'ops': ops, 'settings': [list(s) for s in settings]}


_SERVER = [None]
_ADDR = {}
SPEC_TYPE = {sp['name'].lower(): sp['type'] for sp in SPECS}


def _start_server():
    srv = sim.TcpServer(SPECS)
    s = sim.TcpSession(srv)
    s.send(rc.req_read_tag([{'symbolic': 'I16'}], 1))       # makes the simulator set up its tags
    s.close()
    from cpppo.server.enip import device
    for sp in SPECS:
        _ADDR[sp['name']] = tuple(device.resolve_tag(sp['name']))
    return srv


def server():
    return sim.per_process('c12', _start_server)


def client_op(op, fragment):
    """Translate a model op into the dict cpppo's client expects."""
    spec = [s for s in SPECS if s['name'].lower() == op['tag'].lower()]
    if op.get('unknown_object'):
        address = tuple(op['unknown_object'])
    else:
        address = _ADDR[spec[0]['name']]
    path = M.op_path(op, address)
    d = {'path': [dict(s) for s in path]}
    svc = op['svc']
    if svc == 'read_tag':
        d.update(method='read', elements=op['count'])
    elif svc == 'write_tag':
        d.update(method='write', data=list(op['values']), elements=op['count'], tag_type=rc.tcode(op['type']))
    elif svc == 'get_attr' and op.get('via_code'):
        # the same service spelled as a generic service-code operation (payload pre-rendered by the client); data_size makes
        # the operation eligible for bundling
        d.update(method='service_code', code=0x0E, data_size=64)
    elif svc == 'get_attr':
        d.update(method='get_attribute_single')
    elif svc == 'set_attr' and op.get('via_code'):
        ttype = spec[0]['type']
        d.update(method='service_code', code=0x10, data=list(op['values']), elements=len(op['values']), tag_type=rc.tcode(ttype), data_size=4)
    elif svc == 'set_attr':
        ttype = spec[0]['type']
        d.update(method='set_attribute_single', data=list(op['values']), elements=len(op['values']), tag_type=rc.tcode(ttype))
    if ROUTES[op.get('route', 0)] is not None:
        d['route_path'] = [dict(r) for r in ROUTES[op['route']]]
    if SENDS[op.get('send', 0)] is not None:
        d['send_path'] = SENDS[op['send']]
    return d


def norm_status(sts):
    if isinstance(sts, tuple):
        return [int(sts[0]), [int(x) for x in sts[1]]]
    return int(sts) if sts is not None else None


def norm_value(val):
    if val is None or val is True:
        return val
    out = []
    for v in val:
        if isinstance(v, float):
            out.append(repr(v))
        elif isinstance(v, (bool, int, str)):
            out.append(v)
        else:
            out.append(repr(v))
    return out


def model_check(mdl, op, sts, val, fragment):
    """-> problem string or None; updates the model on accepted writes."""
    if op.get('unknown_attribute'):
        exp = {'kind': 'noattr' if op['svc'] in ('read_tag', 'write_tag') else 'unknown'}
    else:
        mop = dict(op)
        if fragment and op['svc'] == 'read_tag':
            mop['svc'] = 'read_frag'
            mop['offset'] = 0
        if fragment and op['svc'] == 'write_tag':
            mop['svc'] = 'write_frag'
            mop['offset'] = 0
        exp = M.expect(mdl, mop)
    k = exp['kind']
    code = sts[0] if isinstance(sts, list) else sts
    if k == 'range':
        ok = sts == [0xFF, [0x2105]] or (exp.get('type_either') and sts == [0xFF, [0x2107]])
        return None if ok and val is None else 'range error expected, got status %r value %r' % (sts, val)
    if k == 'type':
        return None if sts == [0xFF, [0x2107]] and val is None else 'type error expected, got status %r value %r' % (sts, val)
    if k == 'noattr':
        return None if code == 5 and val is None else 'status 0x05 expected, got %r' % (sts,)
    if k in ('fail', 'unknown'):
        return None if code not in (0, 6) and val is None else 'failure expected, got status %r' % (sts,)
    if k == 'unspecified':
        return None
    if k == 'read':
        if code not in (0, 6) or val is None:
            return 'read refused: %r' % (sts,)
        want = exp['data']
        got = list(val)
        if code == 0:
            return None if M.same_values(exp['type'], got, want) else 'read data %r != %r' % (M._v(got), M._v(want))
        return None if 0 < len(got) < len(want) and M.same_values(exp['type'], got, want[:len(got)]) else 'partial read data wrong'
    if k == 'attr_read':
        if code != 0 or val is None:
            return 'get attribute refused: %r' % (sts,)
        try:
            raw = bytes(bytearray(val))
        except (TypeError, ValueError):
            return 'get attribute result is not the attribute\'s bytes: %r' % (val,)
        return None if raw == M.wire(exp['type'], exp['data']) else 'get attribute data differs'
    if k == 'attr_write':
        if code != 0:
            return 'set attribute refused: %r' % (sts,)
        M.apply_write(mdl, exp)
        return None
    if k == 'write':
        if code == 0:
            M.apply_write(mdl, exp)
            return None
        if exp['must_accept']:
            return 'write refused: %r' % (sts,)
        return None if sts == [0xFF, [0x2107]] else 'cross-type write refused with %r' % (sts,)
    raise AssertionError(k)


_INITIAL = {}


def run_setting(srv, ops, fragment, depth, multiple, cops=None):
    """-> (results [(status, value)], bundles [(n, route, send, [req ids])], reqids, error)"""
    from cpppo.server.enip import client
    import os
    if _INITIAL.get('pid') != os.getpid():      # the simulator's own initial values (their Python types matter for scalars)
        _INITIAL.clear()
        _INITIAL['pid'] = os.getpid()
        _INITIAL['values'] = {s['name']: list(srv.values(s['name'])) for s in SPECS}
    for name, vals in _INITIAL['values'].items():
        srv.set_values(name, list(vals))
    if cops is None:
        cops = [client_op(op, fragment) for op in ops]
    bundles = []
    with client.connector(host=srv.address[0], port=srv.address[1], timeout=10.0) as conn:
        orig = conn.multiple

        def recording_multiple(request, **kw):
            bundles.append((len(request), kw.get('route_path'), kw.get('send_path'), [id(r) for r in request]))
            return orig(request=request, **kw)

        conn.multiple = recording_multiple
        results = []
        reqs = []
        try:
            for idx, dsc, req, rpy, sts, val in conn.operate(cops, depth=depth, multiple=multiple, fragment=fragment, timeout=10.0):
                raw = val if (val is None or val is True) else list(val)
                results.append((norm_status(sts), norm_value(val), req, raw))     # req kept alive so ids stay unique
                reqs.append(id(req))
        except Exception as exc:
            return results, bundles, reqs, cops, '%s: %s' % (type(exc).__name__, str(exc)[:300])
    return results, bundles, reqs, cops, None


def pred_settings(case, stats):
    srv = server()
    ops = case['ops']
    refused_inside = False
    dep = False
    probe = M.Model(SPECS)
    for s in SPECS:
        probe.set_numeric_address(s['name'], _ADDR[s['name']])
    written = set()
    for i, op in enumerate(ops):
        k = 'noattr' if op.get('unknown_attribute') else M.expect(probe, op)['kind']
        if k in ('range', 'type', 'noattr', 'fail') and i < len(ops) - 1:
            refused_inside = True
        if k in ('write', 'attr_write'):
            written.add(op['tag'].lower())
        if k in ('read', 'attr_read') and op['tag'].lower() in written:
            dep = True
    classes = ['ops:%d' % min(len(ops), 10)] + (['refused-inside'] if refused_inside else []) + (['write-read-dependency'] if dep else [])
    if any(op.get('route') or op.get('send') for op in ops):
        classes.append('path-variation')
    stats.case(case, nontrivial=refused_inside and dep and len(case['settings']) >= 3, classes=classes)

    for fragment in (False, True):
        baseline = None
        # one materialised operation list per fragment mode, issued again under every setting (a caller's list is not consumed)
        shared = [client_op(op, fragment) for op in ops]
        for depth, multiple in case['settings']:
            results, bundles, reqids, cops, err = run_setting(srv, ops, fragment, depth, multiple, cops=shared)
            tag = {'fragment': fragment, 'depth': depth, 'multiple': multiple}
            if err is not None:
                stats.fail('settings', 'client-raised', case, observed=dict(tag, error=err, results=len(results)),
                           expected='one result per operation (no operation here ends the session)')
                continue
            if len(results) != len(ops):
                stats.fail('settings', 'result-count', case, observed=dict(tag, results=len(results), operations=len(ops)),
                           expected='exactly one result per operation')
                continue
            seq = [(r[0], r[1]) for r in results]
            # model judgement (fresh model per run; state was reset)
            mdl = M.Model(SPECS)
            for s in SPECS:
                mdl.set_numeric_address(s['name'], _ADDR[s['name']])
            for i, (op, r) in enumerate(zip(ops, results)):
                prob = model_check(mdl, op, r[0], r[3], fragment)
                if prob:
                    stats.fail('settings', 'result-differs-from-model', case, observed=dict(tag, index=i, op=op, problem=prob),
                               expected='status and value of the typed-array model, in operation order')
                    break
            else:
                if srv.snapshot() != mdl.snapshot():
                    diff = [n for n in mdl.snapshot() if srv.snapshot()[n] != mdl.snapshot()[n]]
                    stats.fail('settings', 'final-state-differs-from-model', case, observed=dict(tag, tags=diff), expected='model state')
            if baseline is None:
                baseline = (tag, seq)
            elif seq != baseline[1]:
                first = [i for i, (a, b) in enumerate(zip(seq, baseline[1])) if a != b][:1]
                stats.fail('settings', 'results-depend-on-setting', case,
                           observed={'a': baseline[0], 'b': tag, 'first_difference': first,
                                     'a_result': common.jsonable(baseline[1][first[0]]) if first else None,
                                     'b_result': common.jsonable(seq[first[0]]) if first else None},
                           expected='identical (status, value) sequence for every depth / multiple')
            # bundling purity
            byid = {rid: i for i, rid in enumerate(reqids)}
            for n, route, send, ids in bundles:
                members = [byid[r] for r in ids if r in byid]
                keys = {(json.dumps(cops[i].get('route_path'), sort_keys=True), json.dumps(cops[i].get('send_path'))) for i in members}
                if len(keys) > 1 or (keys and (json.dumps(route, sort_keys=True), json.dumps(send)) not in keys):
                    stats.fail('settings', 'bundle-mixes-paths', case, observed=dict(tag, members=members, bundle_route=route, bundle_send=send,
                               member_paths=sorted(keys)), expected='all members of a bundle share the bundle\'s (route_path, send_path)')
            if multiple:
                stats.count('bundles-recorded', len(bundles))
                stats.count('bundles-with-2+-members', sum(1 for b in bundles if b[0] >= 2))


# ------------------------------------------------------------------------------------------------
# text clause

NAMES = ['Tag', 'SCADA', 'a', 'Motor.Speed', 'x.y.z', 'Caf\xe9', 'T_1', 'boo.foo.Zed9']
TYPES = ['INT', 'SINT', 'USINT', 'UINT', 'DINT', 'UDINT', 'LINT', 'ULINT', 'REAL', 'LREAL', 'BOOL', 'SSTRING', 'STRING']
CODES = {t: rc.tcode(t) for t in TYPES}


@st.composite
def text_cases(draw):
    numeric = draw(st.booleans())
    o = {'numeric': numeric}
    if numeric:
        o['cia'] = [draw(st.integers(0, 0xFFFF)), draw(st.integers(0, 0xFFFF)), draw(st.integers(1, 255))][:draw(st.integers(1, 3))]
        o['bases'] = [draw(st.sampled_from(['d', 'x', 'o', 'b', 'z'])) for _ in o['cia']]
    else:
        o['name'] = draw(st.sampled_from(NAMES))
        o['mid_index'] = draw(st.one_of(st.none(), st.integers(0, 99))) if '.' in o['name'] else None
    o['index'] = draw(st.one_of(st.none(), st.integers(0, 70000)))
    form = draw(st.sampled_from(['none', 'range', 'star'])) if o['index'] is not None else draw(st.sampled_from(['none', 'star']))
    o['count_form'] = form
    o['count'] = draw(st.integers(1, 500)) if form != 'none' else None
    o['offset'] = draw(st.one_of(st.none(), st.none(), st.integers(0, 4000)))
    o['fragment'] = draw(st.booleans())
    o['write'] = draw(st.booleans())
    o['space'] = draw(st.integers(0, 7))
    if o['write']:
        cast = draw(st.one_of(st.none(), st.sampled_from(TYPES)))
        o['cast'] = cast
        o['cast_case'] = draw(st.sampled_from(['upper', 'lower']))
        n = o['count'] if o['count'] is not None and o['count'] <= 40 else draw(st.integers(1, 6))
        if cast is None:
            kind = draw(st.sampled_from(['int', 'real']))
            o['int_type'] = draw(st.sampled_from([None, 'INT', 'DINT', 'SINT', 'UDINT']))
            if kind == 'int':
                t = o['int_type'] or 'INT'
                lo, hi = rc.INT_RANGES[t]
                o['values'] = draw(st.lists(st.integers(lo, hi), min_size=n, max_size=n))
                o['vtype'] = t
            else:
                o['values'] = draw(st.lists(st.floats(-1e6, 1e6).map(lambda f: round(f, 3)), min_size=n, max_size=n))
                o['values'][0] = o['values'][0] + 0.5      # make sure a '.' appears
                o['vtype'] = 'REAL'
        else:
            o['int_type'] = None
            o['vtype'] = cast
            if cast in rc.INT_RANGES:
                lo, hi = rc.INT_RANGES[cast]
                o['values'] = draw(st.lists(st.integers(lo, hi), min_size=n, max_size=n))
            elif cast in ('REAL', 'LREAL'):
                o['values'] = draw(st.lists(st.one_of(st.integers(-1000, 1000), st.floats(-1e9, 1e9, allow_nan=False)), min_size=n, max_size=n))
            elif cast == 'BOOL':
                o['values'] = draw(st.lists(st.sampled_from([0, 1, 'true', 'False', 'TRUE', 7]), min_size=n, max_size=n))
            else:
                o['values'] = draw(st.lists(st.text(st.sampled_from('abcXYZ 019,.=+-_[]()*@/'), max_size=8), min_size=n, max_size=n))
        # consistency the parser demands: non-fragment write without offset needs len(values) == count (if given)
        if o['count'] is not None and not (o['offset'] is not None or o['fragment']) and len(o['values']) != o['count']:
            o['count'] = len(o['values'])
        if (o['offset'] is not None or o['fragment']):
            if o['count'] is None:
                o['count_form'] = 'star'
                o['count'] = len(o['values']) + draw(st.integers(0, 3))
            size = {'SINT': 1, 'USINT': 1, 'BOOL': 1, 'INT': 2, 'UINT': 2, 'DINT': 4, 'UDINT': 4, 'REAL': 4, 'LINT': 8, 'ULINT': 8, 'LREAL': 8}.get(o['vtype'])
            if size is None:
                o['offset'] = None
                o['fragment'] = False
                if o['count'] is not None:
                    o['count'] = len(o['values'])
            else:
                room = max(0, o['count'] - len(o['values']))
                if o['count'] < len(o['values']):
                    o['count'] = len(o['values'])
                    room = 0
                if o['offset'] is not None:
                    o['offset'] = size * draw(st.integers(0, room))
    return o


def render_int(v, base):
    return {'d': '%d' % v, 'x': '0x%X' % v, 'o': '0o%o' % v, 'b': '0b' + bin(v)[2:], 'z': '%03d' % v}[base]


def render_text(o):
    sp = o['space']
    if o['numeric']:
        t = '@' + '/'.join(render_int(v, b) for v, b in zip(o['cia'], o['bases']))
    else:
        t = o['name']
        if o.get('mid_index') is not None:
            head, rest = t.split('.', 1)
            t = '%s[%d].%s' % (head, o['mid_index'], rest)
    if o['index'] is not None:
        if o['count_form'] == 'range':
            t += '[%d-%d]' % (o['index'], o['index'] + o['count'] - 1)
        else:
            t += '[%d]' % o['index']
    if o['count_form'] == 'star':
        t += '*%d' % o['count']
    if o['offset'] is not None:
        t += (' ' if sp & 1 else '') + '+' + (' ' if sp & 2 else '') + '%d' % o['offset']
    if o['write']:
        vals = []
        for v in o['values']:
            if isinstance(v, str) and o['vtype'] in ('SSTRING', 'STRING'):
                vals.append('"%s"' % v.replace('"', '""'))
            elif isinstance(v, float):
                vals.append(repr(v))
            else:
                vals.append(str(v))
        sep = ', ' if sp & 4 else ','
        cast = ''
        if o['cast']:
            cast = '(%s)' % (o['cast'] if o['cast_case'] == 'upper' else o['cast'].lower())
        t += (' ' if sp & 1 else '') + '=' + (' ' if sp & 2 else '') + cast + sep.join(vals)
    return t


def expected_op(o):
    segs = []
    if o['numeric']:
        for k, v in zip(('class', 'instance', 'attribute'), o['cia']):
            segs.append({k: v})
    else:
        parts = o['name'].split('.')
        for i, part in enumerate(parts):
            segs.append({'symbolic': part})
            if i == 0 and o.get('mid_index') is not None:
                segs.append({'element': o['mid_index']})
    if o['index'] is not None:
        segs.append({'element': o['index']})
    d = {'path': segs}
    if o['count'] is not None:
        d['elements'] = o['count']
    if o['offset'] is not None:
        d['offset'] = o['offset']
    if o['write']:
        d['method'] = 'write'
        d['tag_type'] = CODES[o['vtype']]
        vals = []
        for v in o['values']:
            if o['vtype'] in rc.INT_RANGES:
                vals.append(int(v))
            elif o['vtype'] in ('REAL', 'LREAL'):
                vals.append(float(v))
            elif o['vtype'] == 'BOOL':
                vals.append(v if isinstance(v, bool) else (str(v).lower() == 'true') if isinstance(v, str) and not v.isdigit() else int(v) != 0)
            else:
                vals.append(v)
        d['data'] = vals
        if 'elements' not in d and not (o['offset'] is not None or o['fragment']):
            d['elements'] = len(vals)
    return d


def norm_op(d):
    out = {}
    for k, v in dict(d).items():
        if k == 'path':
            out[k] = [dict(s) for s in v]
        elif k == 'data':
            out[k] = [repr(x) if isinstance(x, float) else x for x in v]
        else:
            out[k] = v
    return out


def pred_text(case, stats):
    from cpppo.server.enip import client
    o = case
    if o['write'] and o['vtype'] in ('SSTRING', 'STRING') and any(v != v.strip() or v == '' and False for v in o['values']):
        # csv skipinitialspace strips leading blanks inside the documented value syntax; trailing blank after a quoted
        # string is documented as not handled -> keep to values without leading/trailing blanks
        stats.exclude('string value with leading/trailing blank')
        return
    text = render_text(o)
    want = norm_op(expected_op(o))
    nt = (o['count'] is not None) and bool(o['write'])
    stats.case(case, nontrivial=nt, classes=['text:' + ('numeric' if o['numeric'] else 'symbolic'), 'text:count-' + o['count_form'],
                                             'text:' + ('write' if o['write'] else 'read')] + (['text:offset'] if o['offset'] is not None else [])
               + (['text:cast'] if o.get('cast') else []))
    kw = {}
    if o.get('int_type'):
        kw['int_type'] = o['int_type']
    try:
        got = list(client.parse_operations([text], fragment=o['fragment'], **kw))
    except Exception as exc:
        stats.fail('text', 'well-formed-operation-rejected', case, observed={'text': text, 'error': '%s: %s' % (type(exc).__name__, str(exc)[:200])},
                   expected=want)
        return
    if len(got) != 1 or norm_op(got[0]) != want:
        stats.fail('text', 'operation-text-denotes-other-operation', case, observed={'text': text, 'parsed': [norm_op(g) for g in got]}, expected=want)
    # path round trip
    segs = want['path']
    plain = not any('element' in s for s in segs[:-1])
    if plain:
        try:
            ftext = client.format_path(segs, count=o['count'] if o['index'] is not None else None)
            back, elm, cnt = client.parse_path_elements(ftext)
        except Exception as exc:
            stats.fail('text', 'format-parse-path-raised', case, observed={'segments': segs, 'error': '%s: %s' % (type(exc).__name__, str(exc)[:200])},
                       expected='format_path output parses back')
            return
        if [dict(s) for s in back] != segs or (o['index'] is not None and o['count'] is not None and cnt != o['count']):
            stats.fail('text', 'formatted-path-parses-to-other-segments', case, observed={'formatted': ftext, 'parsed': [dict(s) for s in back], 'count': cnt},
                       expected={'segments': segs, 'count': o['count']})


def pred_text_more(case, stats):
    """Two further textual clauses on numeric paths: (1) a path that skips a level ([class, attribute], [instance, attribute],
    [class, instance, element]) is formatted so that it parses back to the same segments (off-position segments in JSON form);
    (2) get_attribute.attribute_operations: '@c/i/a=v,...' without a cast denotes a Set Attribute Single of SINT data (documented
    default), '@c/i/a' a Get Attribute Single, '@c/i' Get Attributes All."""
    from cpppo.server.enip import client, get_attribute
    o = case
    if not o['numeric'] or len(o['cia']) < 3:
        return
    c_, i_, a_ = o['cia']
    for segs in ([{'class': c_}, {'attribute': a_}], [{'instance': i_}, {'attribute': a_}], [{'class': c_}, {'instance': i_}, {'element': a_}],
                 [{'class': c_}, {'instance': i_}, {'attribute': a_}]):
        try:
            ftext = client.format_path(segs)
            back, elm, cnt = client.parse_path_elements(ftext)
        except Exception as exc:
            stats.fail('text', 'format-parse-path-raised', case, observed={'segments': segs, 'error': '%s: %s' % (type(exc).__name__, str(exc)[:200])},
                       expected='format_path output parses back')
            return
        if [dict(x) for x in back] != segs:
            stats.fail('text', 'formatted-path-parses-to-other-segments', case, observed={'formatted': ftext, 'parsed': [dict(x) for x in back]},
                       expected={'segments': segs})
            return
    vals = [int(v) % 200 - 60 for v in (o.get('values') or [3, 250, -5]) if isinstance(v, (int, float)) and not isinstance(v, bool)][:4] or [7]
    texts = ['@%d/%d/%d=%s' % (c_, i_, a_, ','.join(str(v) for v in vals)), '@%d/%d/%d' % (c_, i_, a_), '@%d/%d' % (c_, i_)]
    want = [('set_attribute_single', rc.tcode('SINT'), vals), ('get_attribute_single', None, None), ('get_attributes_all', None, None)]
    try:
        got = list(get_attribute.attribute_operations(texts))
    except Exception as exc:
        stats.fail('text', 'well-formed-operation-rejected', case, observed={'texts': texts, 'error': '%s: %s' % (type(exc).__name__, str(exc)[:200])},
                   expected='three attribute operations')
        return
    seen = [(g.get('method'), g.get('tag_type') if 'data' in g else None, list(g['data']) if 'data' in g else None) for g in got]
    if seen != want:
        stats.fail('text', 'attribute-operation-text-denotes-other-operation', case, observed={'texts': texts, 'parsed': seen}, expected=want)


def pred_text_all(case, stats):
    pred_text(case, stats)
    pred_text_more(case, stats)


CLAUSES = {'settings': pred_settings, 'text': pred_text_all}
STRATEGIES = {'settings': lambda k: setting_cases(k), 'text': lambda k: text_cases()}


def shard(job):
    seed, i, n, k, ntext = job
    s = Stats()
    common.hyp_run(s, text_cases(), pred_text_all, ntext, common.shard_seed(seed, i) + 3, 'text', PID)
    common.hyp_run(s, setting_cases(k), pred_settings, n, common.shard_seed(seed, i), 'settings', PID, skey=k)
    return s


def run(tier, seed):
    if tier == 'thorough':
        jobs = [(seed, i, 60, 40, 3000) for i in range(32)]
    else:
        jobs = [(seed, i, 6, 16, 300) for i in range(16)]
    return common.parallel(shard, jobs)
