"""
C13 -- under any connection fault the client never pairs a reply with the wrong request.

A harness-owned fault-injecting TCP relay (vp/relay.py) sits between cpppo's client (connector.pipeline /
synchronous / operate / process, get_attribute.proxy.read) and a real TCP simulator.  For each generated
exchange the fault-free run measures both stream lengths; then EVERY cut offset of the server->client stream,
EVERY cut offset of the client->server stream, a sample of "replies lost from offset k on" (blackhole) faults, and
the loss of every single reply frame and of every adjacent pair of reply frames (later replies still delivered) is replayed.  Tags hold distinct, position-identifying values, so a mis-paired value is recognisable.
"""
from __future__ import annotations

import hypothesis
from hypothesis import given, strategies as st

from .. import common, refcodec as rc, sim
from ..relay import Relay
from ..common import Stats

PID = 'C13'
LEVEL = 'fault_enumeration'
RULE = ('exchange = 3..12 operations (reads of distinct element ranges of tags holding position-identifying values, a few writes) '
        '(quick tier: 3..7 operations, request-stream cuts every 2nd/3rd offset) x API (pipeline depth 1/3/8, synchronous, operate/process, proxy.read) x multiple in {0,250}; faults = every byte offset '
        'of the reply stream (cut), every byte offset of the request stream (cut), sampled blackhole offsets, and for the proxy a '
        'fault / recover / fault / recover sequence; a case = (exchange, fault); non-trivial = cut strictly inside a frame with '
        '>= 1 complete reply delivered before it and >= 1 request still outstanding')
ASSUMPTIONS = [
    'all operations are valid: any yielded value that differs from the model value of its own operation is a mis-pairing',
    'the proxy is used through its documented context-manager API (with via: list(via.read(...))), which is what discards the '
    'gateway on an exception',
    'a cut in the request stream races with replies already in flight; the oracle only uses what the relay recorded as delivered '
    'to the client in that run, so the race cannot cause a false alarm',
    'client timeout 0.3 s for blackhole faults, 5 s otherwise; one TCP simulator + relay per forked worker',
    'stall clause: the connector is used directly in its documented form `with conn: harvest(issue(...))`; a reply is delivered up '
    'to byte k (k >= 1; cases where the relay could not hand that part over within half the client timeout are not judged: a reply that is merely late is outside the fault model of the statement), then nothing for 1.2 s (client timeout 0.5 s), then the rest; the client may raise (the harness then reconnects) or '
    'end the result stream, but a later transaction must never yield the delayed reply of the earlier one (results of the timed-out '
    'transaction itself are only checked for correctness, not for their number: ending early is how harvest reports a timeout)',
]
MIN_EVALUATIONS = {'quick': 800, 'thorough': 10000}

SPECS = [
    {'name': 'V', 'type': 'DINT', 'length': 64, 'address': None},
    {'name': 'W', 'type': 'INT', 'length': 32, 'address': None},
    {'name': 'R', 'type': 'REAL', 'length': 8, 'address': None},
    {'name': 'X', 'type': 'DINT', 'length': 16, 'address': None},
]
INIT = {'V': [7000 + i for i in range(64)], 'W': [100 + i for i in range(32)], 'R': [0.5 + i for i in range(8)], 'X': [0] * 16}
APIS = ['pipeline', 'synchronous', 'proxy', 'process', 'operate0', 'results']


@st.composite
def exchanges(draw, maxops=12):
    n = draw(st.integers(3, maxops))
    ops = []
    used = set()
    for j in range(n):
        kind = draw(st.sampled_from(['read', 'read', 'read', 'write']))
        if kind == 'write':
            e = draw(st.integers(0, 15))
            k = draw(st.integers(1, min(3, 16 - e)))
            ops.append({'kind': 'write', 'tag': 'X', 'elem': e, 'values': [5000 + 16 * j + i for i in range(k)]})
        else:
            tag = draw(st.sampled_from(['V', 'V', 'W', 'R']))
            L = len(INIT[tag])
            for _ in range(5):
                e = draw(st.integers(0, L - 1))
                k = draw(st.integers(1, min(4, L - e)))
                if (tag, e, k) not in used:
                    break
            used.add((tag, e, k))
            ops.append({'kind': 'read', 'tag': tag, 'elem': e, 'count': k})
    return {'ops': ops, 'api': draw(st.sampled_from(APIS)), 'depth': draw(st.sampled_from([1, 3, 8])),
            'multiple': draw(st.sampled_from([0, 120, 250]))}


def expected_values(ex):
    """Model value per operation; writes to X are visible to later reads of X (none are generated) -> constant."""
    out = []
    for op in ex['ops']:
        out.append(True if op['kind'] == 'write' else list(INIT[op['tag']][op['elem']:op['elem'] + op['count']]))
    return out


def op_text(op):
    if op['kind'] == 'read':
        return '%s[%d-%d]' % (op['tag'], op['elem'], op['elem'] + op['count'] - 1)
    return '%s[%d-%d]=(DINT)%s' % (op['tag'], op['elem'], op['elem'] + len(op['values']) - 1, ','.join(map(str, op['values'])))


_ENV = {}


def env():
    import os
    if _ENV.get('pid') != os.getpid():      # never reuse a server/relay inherited across fork()
        _ENV.clear()
        sim.TcpServer._started = False
        srv = sim.TcpServer(SPECS)
        _ENV['pid'] = os.getpid()
        _ENV['server'] = srv
        _ENV['relay'] = Relay(srv.address)
    return _ENV['server'], _ENV['relay']


def reset_tags(srv):
    for name, vals in INIT.items():
        srv.set_values(name, list(vals))


def same(a, b):
    if a is True or b is True or a is None or b is None:
        return a is b
    try:
        return len(a) == len(b) and all(abs(float(x) - float(y)) < 1e-6 for x, y in zip(a, b))
    except Exception:
        return False


def results_possible(delivered, proxy):
    """How many operation results are carried by reply frames wholly contained in the delivered bytes."""
    frames, _ = rc.split_frames(bytes(delivered))
    total = 0
    for f in frames:
        try:
            e = rc.dec_encap(f)
            if e['command'] != rc.CMD['send_rr_data'] or e['status'] != 0:
                continue
            _, msg = rc.dec_rr_reply(f)
            mr = rc.dec_mr_reply(msg)
            if mr['service'] == 0x8A and mr['status'] in (0, 0x1E):
                total += len(rc.dec_multiple_body(mr['data']))
            else:
                total += 1
        except rc.RefDecodeError:
            continue
    return total, len(frames)


def run_client(ex, address, timeout):
    """Run the exchange through cpppo's client at address -> (results [values], raised or None)"""
    from cpppo.server.enip import client
    ops = list(client.parse_operations([op_text(o) for o in ex['ops']]))
    results = []
    api = ex['api']
    try:
        with client.connector(host=address[0], port=address[1], timeout=timeout) as conn:
            if api == 'pipeline':
                for idx, dsc, req, rpy, sts, val in conn.pipeline(ops, depth=ex['depth'], multiple=ex['multiple'], timeout=timeout):
                    results.append(val if sts in (0, 6) else ('status', repr(sts)))
            elif api == 'synchronous':
                for idx, dsc, req, rpy, sts, val in conn.synchronous(ops, multiple=ex['multiple'], timeout=timeout):
                    results.append(val if sts in (0, 6) else ('status', repr(sts)))
            elif api == 'operate0':
                for idx, dsc, req, rpy, sts, val in conn.operate(ops, depth=0, multiple=ex['multiple'], timeout=timeout):
                    results.append(val if sts in (0, 6) else ('status', repr(sts)))
            elif api == 'results':
                for val in conn.results(ops, depth=ex['depth'] if ex['depth'] > 1 else 0, multiple=ex['multiple'], timeout=timeout):
                    results.append(val)
            elif api == 'process':
                failures, vals = conn.process(ops, depth=0, multiple=ex['multiple'], timeout=timeout)
                results.extend(vals)
            else:
                raise AssertionError(api)
    except Exception as exc:
        return results, '%s: %s' % (type(exc).__name__, str(exc)[:160])
    return results, None


def judge_run(ex, results, raised, conn, stats, case, clause, api_family):
    exp = expected_values(ex)
    n = len(exp)
    if raised is None and len(results) != n:
        stats.fail(clause, '%s:silently-fewer-results-than-operations' % api_family, case,
                   observed={'results': len(results), 'operations': n, 'raised': None},
                   expected='an error, or exactly one result per operation')
    for i, val in enumerate(results[:n]):
        if not same(val if not isinstance(val, tuple) else None, exp[i]):
            stats.fail(clause, '%s:result-not-correct-for-its-own-request' % api_family, case,
                       observed={'index': i, 'value': common.jsonable(val), 'own_request_expects': common.jsonable(exp[i]), 'op': ex['ops'][i]},
                       expected='only values belonging to the operation at that position')
            break
    if conn is not None:
        possible, frames = results_possible(conn.s2c, api_family == 'proxy')
        if len(results) > possible:
            stats.fail(clause, '%s:result-without-completely-received-reply' % api_family, case,
                       observed={'results': len(results), 'results_carried_by_complete_reply_frames': possible, 'delivered_bytes': len(conn.s2c)},
                       expected='no result for an operation whose reply frame was not wholly delivered')


def fault_free(ex):
    srv, relay = env()
    reset_tags(srv)
    relay.set_plan([None])
    if ex['api'] == 'proxy':
        vals, raised, via = run_proxy_once(ex, relay.address, 5.0, None)
        close_proxy(via)
        results = vals
    else:
        results, raised = run_client(ex, relay.address, 5.0)
    relay.wait_idle(5.0)
    conn = relay.conns[0]
    return results, raised, bytes(conn.s2c), bytes(conn.c2s)


def run_proxy_once(ex, address, timeout, via):
    from cpppo.server.enip.get_attribute import proxy
    if via is None:
        via = proxy(host=address[0], port=address[1], timeout=timeout, depth=ex['depth'], multiple=ex['multiple'])
    vals = []
    try:
        with via:
            for v in via.read([op_text(o) for o in ex['ops']]):
                vals.append(v)
    except Exception as exc:
        return vals, '%s: %s' % (type(exc).__name__, str(exc)[:160]), via
    return vals, None, via


def close_proxy(via):
    try:
        via.close_gateway()
    except Exception:
        pass


def pred_fault(case, stats):
    """case = {'exchange': ex, 'fault': {'dir','kind','at'}, 'lengths': [S, C], 'boundaries': [...]}"""
    srv, relay = env()
    ex, fault = case['exchange'], case['fault']
    fam = 'proxy' if ex['api'] == 'proxy' else 'pipeline' if ex['api'] == 'pipeline' or (ex['api'] == 'results' and ex['depth'] > 1) else 'synchronous'
    reset_tags(srv)
    timeout = 0.3 if fault['kind'] in ('blackhole', 'drop') else 5.0
    bounds = case.get('s2c_frame_ends', [])
    inside = fault['dir'] == 's2c' and fault['at'] not in bounds and any(b < fault['at'] for b in bounds[1:]) and fault['at'] < (bounds[-1] if bounds else 0)
    stats.case(case, nontrivial=bool(inside), classes=['%s:%s:%s' % (fam, fault['dir'], fault['kind'])] + (['cut-inside-frame-with-replies-before-and-after'] if inside else []))
    if ex['api'] == 'proxy':
        relay.set_plan([fault, None])
        vals, raised, via = run_proxy_once(ex, relay.address, timeout, None)
        relay.wait_idle(2.0)
        conn = relay.conns[0] if relay.conns else None
        judge_run(ex, vals, raised, conn, stats, case, 'fault', fam)
        if raised is not None and via.gateway is not None:
            stats.fail('fault', 'proxy:gateway-kept-after-failure', case, observed={'raised': raised}, expected='proxy.gateway is None after a failed read')
        # recovery: same proxy object, relay now transparent
        via.timeout = 5.0
        if raised is None and len(vals) == len(ex['ops']):
            close_proxy(via)            # fault did not bite (e.g. cut after the last byte); force the reconnect path anyway
        reset_tags(srv)
        vals2, raised2, via = run_proxy_once(ex, relay.address, 5.0, via)
        exp = expected_values(ex)
        if raised2 is not None or len(vals2) != len(exp) or not all(same(a, b) for a, b in zip(vals2, exp)):
            if raised is None and len(vals) != len(exp):
                pass    # already reported as silently-fewer; the stale gateway is the same root cause
            else:
                stats.fail('fault', 'proxy:next-use-does-not-recover', case, observed={'raised': raised2, 'values': common.jsonable(vals2)[:6]},
                           expected='after a failure the next read reconnects and returns correct data')
        close_proxy(via)
        return
    relay.set_plan([fault])
    results, raised = run_client(ex, relay.address, timeout)
    relay.wait_idle(2.0)
    conn = relay.conns[0] if relay.conns else None
    judge_run(ex, results, raised, conn, stats, case, 'fault', fam)


def pred_sequence(case, stats):
    """proxy: fault A, recover, fault B, recover -- on one proxy object."""
    srv, relay = env()
    ex = dict(case['exchange'], api='proxy')
    stats.case(case, nontrivial=True, classes=['proxy:fault-sequence'])
    exp = expected_values(ex)
    via = None
    plan = []
    for f in case['faults']:
        plan += [f, None]
    relay.set_plan(plan)
    for f in case['faults']:
        reset_tags(srv)
        vals, raised, via = run_proxy_once(ex, relay.address, 0.3 if f['kind'] == 'blackhole' else 5.0, via)
        relay.wait_idle(2.0)
        judge_run(ex, vals, raised, None, stats, case, 'sequence', 'proxy')
        if raised is not None and via.gateway is not None:
            stats.fail('sequence', 'proxy:gateway-kept-after-failure', case, observed={'raised': raised}, expected='gateway discarded')
        if raised is None:
            close_proxy(via)
        via.timeout = 5.0
        reset_tags(srv)
        vals2, raised2, via = run_proxy_once(ex, relay.address, 5.0, via)
        if raised2 is not None or len(vals2) != len(exp) or not all(same(a, b) for a, b in zip(vals2, exp)):
            if not (raised is None and len(vals) != len(exp)):
                stats.fail('sequence', 'proxy:next-use-does-not-recover', case, observed={'raised': raised2, 'n': len(vals2)},
                           expected='reconnect and correct data after each fault')
        # the transparent connection stays open for the next fault? no: force a new connection for the next fault
        close_proxy(via)
    close_proxy(via)


# ------------------------------------------------------------------------------------------------
# poll.run: results reach process() only from completely received polls of the current cycle


def pred_poll(case, stats):
    """case = {'exchange': ex (reads only are used), 'cut_at': k|None, 'cycles': n}.  The device's values change at every
    poll-cycle boundary (after the last process() call of a poll, and in failure()), so a value delivered for a poll whose
    reply was not completely received -- eg. a stale result of an earlier poll -- is recognisable."""
    from cpppo.server.enip import poll
    from cpppo.server.enip.get_attribute import proxy
    srv, relay = env()
    ex = case['exchange']
    reads = [o for o in ex['ops'] if o['kind'] == 'read'] or [{'kind': 'read', 'tag': 'V', 'elem': 0, 'count': 2}]
    params = [op_text(o) for o in reads]
    stats.case(case, nontrivial=case['cut_at'] is not None, classes=['poll:' + ('cut' if case['cut_at'] is not None else 'fault-free')])
    state = {'cycle': 0, 'got': [], 'failures': 0, 'problems': []}

    def set_cycle(c):
        state['cycle'] = c
        for name, vals in INIT.items():
            srv.set_values(name, [v + 1000 * c if not isinstance(v, float) else v + 1000.0 * c for v in vals])

    def expected(o):
        c = state['cycle']
        return [v + 1000 * c if not isinstance(v, float) else v + 1000.0 * c for v in INIT[o['tag']][o['elem']:o['elem'] + o['count']]]

    def process(p, v):
        i = len(state['got'])
        if i >= len(params) or p != params[i] or not same(v, expected(reads[i])):
            state['problems'].append({'cycle': state['cycle'], 'param': p, 'value': common.jsonable(v),
                                      'expected_now': None if i >= len(params) else common.jsonable(expected(reads[i])), 'position': i})
        state['got'].append(p)
        if len(state['got']) >= len(params):
            state['got'] = []
            state['consecutive_failures'] = 0
            if state['cycle'] + 1 >= case['cycles']:
                process.done = True
            set_cycle(state['cycle'] + 1)

    def failure(exc):
        state['failures'] += 1
        state['consecutive_failures'] = state.get('consecutive_failures', 0) + 1
        state['max_consecutive'] = max(state.get('max_consecutive', 0), state['consecutive_failures'])
        if state['got']:
            state['problems'].append({'cycle': state['cycle'], 'partial_poll_delivered': list(state['got'])})
        state['got'] = []
        if state['failures'] > 3 or state['cycle'] + 1 >= case['cycles']:
            process.done = True
        set_cycle(state['cycle'] + 1)

    set_cycle(0)
    plan = [None] if case['cut_at'] is None else [{'dir': 's2c', 'kind': 'cut', 'at': case['cut_at']}, None, None]
    relay.set_plan(plan)
    via = proxy(host=relay.address[0], port=relay.address[1], timeout=5.0, depth=ex['depth'], multiple=ex['multiple'])
    try:
        poll.run(via, process=process, failure=failure, cycle=0.01, latency=0.01, params=params, pass_thru=True)
    finally:
        close_proxy(via)
        relay.wait_idle(2.0)
        reset_tags(srv)
    for pr in state['problems'][:1]:
        stats.fail('poll', 'poll:value-delivered-for-a-poll-not-completely-received-or-of-another-cycle', case, observed=pr,
                   expected='process() receives, per completed poll, each parameter once with the values the device holds in that cycle; nothing for a failed poll')
    if case['cut_at'] is not None and state.get('max_consecutive', 0) >= 2:
        # one injected fault (the first connection is cut once; every later connection is transparent): the poll after the failed
        # one must use a new connection and complete
        stats.fail('poll', 'poll:no-recovery-after-a-single-fault', case, observed={'consecutive_failed_polls': state['max_consecutive']},
                   expected='after a failed poll the connection is discarded and the next poll reconnects and delivers')
    if case['cut_at'] is None and state['failures']:
        stats.fail('poll', 'poll:fault-free-poll-failed', case, observed={'failures': state['failures']}, expected='no failure without a fault')
    stats.extra.setdefault('poll_s2c', 0)
    if case['cut_at'] is None and relay.conns:
        stats.extra['poll_s2c'] = len(relay.conns[0].s2c)



# ------------------------------------------------------------------------------------------------
# clause: stall -- a reply truncated by silence (not EOF) whose remainder arrives later, the connector used directly through
# its documented `with conn: harvest(issue(...))` form

STALL_TIMEOUT, STALL_HOLD = 0.5, 1.2


def _transaction(conn, text, timeout):
    from cpppo.server.enip import client
    with conn:
        return [val for idx, dsc, req, rpy, sts, val in conn.harvest(issued=conn.issue(client.parse_operations([text])), timeout=timeout)]


def pred_stall(case, stats):
    """case = {'first': op, 'second': op, 'cut': k}: transaction 1 reads `first`, its reply is delivered up to byte k, then
    silence longer than the client's timeout, then the rest; transaction 2 (after the rest arrived) reads `second` -- on the same
    connector if the client raised no error, on a new one otherwise.  Whatever transaction 2 yields must be correct for it."""
    import time
    from cpppo.server.enip import client
    srv, relay = env()
    reset_tags(srv)
    relay.set_plan([None, None])
    first, second = case['first'], case['second']
    exp1 = list(INIT[first['tag']][first['elem']:first['elem'] + first['count']])
    exp2 = list(INIT[second['tag']][second['elem']:second['elem'] + second['count']])
    conn = client.connector(host=relay.address[0], port=relay.address[1], timeout=5.0)
    reconnected = False
    try:
        warm = _transaction(conn, op_text(second), 5.0)
        if len(warm) != 1 or not same(warm[0], exp2):
            raise common.HarnessError('fault-free warm-up transaction wrong: %r' % (warm,))
        rconn = relay.conns[0]
        base = len(rconn.s2c)
        rconn.spec = {'dir': 's2c', 'kind': 'stall', 'at': base + case['cut'], 'hold': STALL_HOLD}
        t0 = time.time()
        try:
            got1, err1 = _transaction(conn, op_text(first), STALL_TIMEOUT), None
        except Exception as exc:
            got1, err1 = None, '%s: %s' % (type(exc).__name__, str(exc)[:120])
        if rconn.part_sent_at is None or rconn.part_sent_at > t0 + STALL_TIMEOUT / 2:
            # the truncated part did not demonstrably reach the client well before its timeout (a loaded machine): this would be
            # a reply that is merely late, which is not in the statement's fault model -- not judged
            stats.case(case, classes=['stall:not-judged:part-not-delivered-in-time'])
            return
        stats.case(case, nontrivial=True, classes=['stall:first-raised' if err1 else 'stall:first-returned:%d' % len(got1 or ())])
        if got1 and not same(got1[0], exp1):
            stats.fail('stall', 'stall:result-not-correct-for-its-own-request', case, observed={'transaction': 1, 'values': common.jsonable(got1)},
                       expected=common.jsonable(exp1))
        if not rconn.held and not rconn.released.is_set() and err1 is None and got1:
            stats.count('stall:reply-shorter-than-cut')         # the whole reply fitted before the cut: nothing was held back
            return
        if err1 is not None:
            try:
                conn.close()
            except Exception:
                pass
            conn = client.connector(host=relay.address[0], port=relay.address[1], timeout=5.0)
            reconnected = True
        rconn.released.wait(STALL_HOLD + 5.0)
        time.sleep(0.05)
        try:
            got2, err2 = _transaction(conn, op_text(second), 5.0), None
        except Exception as exc:
            got2, err2 = None, '%s: %s' % (type(exc).__name__, str(exc)[:120])
        stats.count('stall:second:' + ('raised' if err2 else 'returned') + (':reconnected' if reconnected else ':same-connector'))
        if got2 and not same(got2[0], exp2):
            stats.fail('stall', 'stall:later-transaction-yields-the-delayed-reply-of-an-earlier-one', case,
                       observed={'transaction': 2, 'values': common.jsonable(got2), 'first_transaction_raised': err1,
                                 'first_request_values': common.jsonable(exp1)},
                       expected={'values': common.jsonable(exp2), 'or': 'an error'})
    finally:
        try:
            conn.close()
        except Exception:
            pass
        relay.wait_idle(2.0)


@st.composite
def stall_cases(draw):
    def rd(tags):
        tag = draw(st.sampled_from(tags))
        L = len(INIT[tag])
        e = draw(st.integers(0, L - 2))
        return {'kind': 'read', 'tag': tag, 'elem': e, 'count': draw(st.integers(1, min(2, L - e)))}
    first = rd(['V', 'W'])
    second = rd(['V', 'W'])
    if second == first:
        second = dict(second, elem=(second['elem'] + 3) % (len(INIT[second['tag']]) - 2))
    return {'first': first, 'second': second, 'cut': draw(st.one_of(st.integers(1, 70), st.sampled_from([1, 23, 24, 25, 44, 60])))}


CLAUSES = {'fault': pred_fault, 'sequence': pred_sequence, 'poll': pred_poll, 'stall': pred_stall}
STRATEGIES = {'stall': lambda skey: stall_cases()}


def draw_exchanges(seed, n, maxops=12):
    got = []

    @hypothesis.seed(seed)
    @common.hyp_settings(n)
    @given(exchanges(maxops))
    def collect(ex):
        got.append(ex)

    collect()
    return got[:n]


def poll_shard(job):
    """Fault-free run measures the reply stream of `cycles` polls on one connection; then every (stride-th) cut offset
    after the first completed poll is replayed."""
    _, ex, cycles, idx, nsh, stride = job
    s = Stats()
    base = {'exchange': ex, 'cycles': cycles}
    probe = Stats()
    common.run_pred(pred_poll, dict(base, cut_at=None), probe, 'poll')
    total = int(probe.extra.get('poll_s2c', 0))
    if idx == 0:
        s.merge(probe)
    if total <= 0:
        return s
    first = total // cycles          # roughly the end of the first poll (the stream starts with Register + List Identity)
    for n, k in enumerate(range(first, total + 1, stride)):
        if n % nsh == idx:
            common.run_pred(pred_poll, dict(base, cut_at=k), s, 'poll')
    s.extra.pop('poll_s2c', None)
    return s


def shard(job):
    if job[0] == 'poll':
        return poll_shard(job)
    if job[0] == 'stall':
        s = Stats()
        common.hyp_run(s, stall_cases(), pred_stall, job[2], common.shard_seed(job[1], 700 + job[3]), 'stall', PID, skey=None)
        return s
    kind, payload = job
    s = Stats()
    if kind == 'fault':
        for case in payload:
            common.run_pred(pred_fault, case, s, 'fault')
    else:
        for case in payload:
            common.run_pred(pred_sequence, case, s, 'sequence')
    return s


def last_frame_members(s2c):
    frames, _ = rc.split_frames(s2c)
    if len(frames) < 3:
        return None
    return results_possible(frames[-1], False)[0]


def measure(job):
    ex = job
    s = Stats()
    results, raised, s2c, c2s = fault_free(ex)
    if ex.get('want_single_final'):
        # tightly bundled exchange: adjust the operation count until the final packet carries exactly one operation
        # (the shape in which a lost reply is followed by a delivered single-operation reply)
        base_ops = list(ex['ops'])
        pool = base_ops + [dict(o) for o in base_ops]
        for n in list(range(len(base_ops), 2, -1)) + list(range(len(base_ops) + 1, len(pool) + 1)):
            trial = dict(ex, ops=pool[:n])
            r = fault_free(trial)
            if r[1] is None and last_frame_members(r[2]) == 1:
                ex = trial
                results, raised, s2c, c2s = r
                s.count('exchange:final-packet-holds-one-operation')
                break
    exp = expected_values(ex)
    ok = raised is None and len(results) == len(exp) and all(same(a, b) for a, b in zip(results, exp))
    frames, left = rc.split_frames(s2c)
    ends, pos = [], 0
    for f in frames:
        pos += len(f)
        ends.append(pos)
    s.extra['measure'] = [{'exchange': ex, 'ok': ok, 'raised': raised, 'S': len(s2c), 'C': len(c2s), 'ends': ends}]
    if not ok:
        s.fail('fault', 'fault-free-run-wrong', {'exchange': ex, 'fault': None}, observed={'raised': raised, 'results': common.jsonable(results)[:8]},
               expected='the fault-free exchange yields the model values')
    return s


def run(tier, seed):
    thorough = tier == 'thorough'
    nex = 24 if thorough else 6
    exs = draw_exchanges(seed, max(nex * 3, 12), 12 if thorough else 7)
    # rotate API families and bundling so that every run has: unbundled / tightly bundled (2 operations per packet, with
    # an odd operation count so the final packet holds a single operation) / loosely bundled exchanges of each family
    fams = [['pipeline'], ['synchronous', 'operate0', 'process', 'results'], ['proxy']]
    mults = [120, 0, 120, 0, 250, 250]
    chosen = []
    for i in range(nex):
        fam = fams[i % 3]
        ex = dict(exs[i], api=fam[(i // 3) % len(fam)], multiple=mults[i % len(mults)])
        if ex['multiple'] == 120:
            ex['depth'] = max(ex['depth'], 3)
            ex['want_single_final'] = True
        chosen.append(ex)
    # one wide exchange: 12 single-element reads all in flight at once (contexts of 1 and 2 digits), judged under whole-frame losses only
    chosen.append({'ops': [{'kind': 'read', 'tag': 'V', 'elem': 3 * j + (seed % 3), 'count': 1} for j in range(12 if not thorough else 21)],
                   'api': 'pipeline', 'depth': 12 if not thorough else 21, 'multiple': 0, 'wide': True})
    stats = Stats()
    measured = []
    for ex in chosen:
        m = common.parallel(measure, [ex], fork=True)      # fork so the parent never owns a server
        stats.merge(m)
        measured.extend(m.extra.get('measure', []))
    stats.extra.pop('measure', None)
    cases = []
    for m in measured:
        if not m['ok']:
            continue
        ex = m['exchange']
        base = {'exchange': ex, 's2c_frame_ends': m['ends']}
        if ex.get('wide'):
            starts = [0] + m['ends'][:-1]
            fr = list(zip(starts, m['ends']))[1:]
            runs = [(fr[i][0], fr[j][1]) for i in range(len(fr)) for j in range(i, len(fr) - 1)]       # every contiguous run of lost replies followed by a delivered one
            if not thorough:
                runs = [r for n, r in enumerate(runs) if r[0] == fr[0][0] or n % 3 == seed % 3]
            for a, b in runs:
                cases.append(dict(base, fault={'dir': 's2c', 'kind': 'drop', 'at': a, 'until': b}))
            stats.exhaustive['wide exchange (pipeline depth=%d, %d single-element reads)' % (ex['depth'], len(ex['ops']))] = (
                '%d contiguous runs of whole reply frames lost, a later reply still delivered' % len(runs))
            continue
        for k in range(0, m['S'] + 1):
            cases.append(dict(base, fault={'dir': 's2c', 'kind': 'cut', 'at': k}))
        cstep = 1 if thorough else (3 if ex['api'] == 'proxy' else 2)
        for k in range(0, m['C'] + 1, cstep):
            cases.append(dict(base, fault={'dir': 'c2s', 'kind': 'cut', 'at': k}))
        holes = sorted(set([0] + m['ends'] + [e - 1 for e in m['ends']] + [e + 5 for e in m['ends'][:-1]]))
        holes = [h for h in holes if 0 <= h < m['S']]
        if not thorough:
            holes = holes[::max(1, len(holes) // 6)][:6]
        for k in holes:
            cases.append(dict(base, fault={'dir': 's2c', 'kind': 'blackhole', 'at': k}))
        # replies lost entirely while later ones still arrive: every single reply frame, and every adjacent pair
        starts = [0] + m['ends'][:-1]
        drops = [(a, b) for a, b in zip(starts, m['ends'])][1:]          # never the Register reply
        drops += [(a, b2) for (a, b), (a2, b2) in zip(drops, drops[1:])]
        for a, b in drops:
            cases.append(dict(base, fault={'dir': 's2c', 'kind': 'drop', 'at': a, 'until': b}))
        stats.exhaustive['exchange %d (%s depth=%d multiple=%d, %d ops)' % (len(stats.exhaustive), ex['api'], ex['depth'], ex['multiple'], len(ex['ops']))] = (
            'every s2c cut offset 0..%d; c2s cut offsets 0..%d step %d; %d blackhole offsets; %d whole-reply-frame drops (each frame, each adjacent pair)'
            % (m['S'], m['C'], cstep, len(holes), len(drops)))
    nsh = 16
    jobs = [('fault', cases[i::nsh]) for i in range(nsh)]
    # proxy fault sequences
    seqs = []
    for m in measured:
        if not m['ok']:
            continue
        S = m['S']
        picks = [(S // 3, 2 * S // 3), (S // 2 + 1, 30), (S - 3, 29)] if not thorough else [(a, b) for a in range(20, S, 37) for b in (29, S // 2, S - 5)]
        for a, b in picks:
            seqs.append({'exchange': m['exchange'], 'faults': [{'dir': 's2c', 'kind': 'cut', 'at': a}, {'dir': 's2c', 'kind': 'cut', 'at': b}]})
    jobs += [('sequence', seqs[i::4]) for i in range(4) if seqs[i::4]]
    # poll.run over several cycles with a cut in a later cycle
    pex = [m['exchange'] for m in measured if m['ok']][:(6 if thorough else 2)]
    for ex in pex:
        jobs += [('poll', dict(ex, api='proxy'), 4, i, 4, 1 if thorough else 3) for i in range(4)]
    stats.exhaustive['poll.run'] = ('%d exchanges x 4 poll cycles on one connection: every %s cut offset of the reply stream after the first completed poll'
                                    % (len(pex), 'byte' if thorough else 'third'))
    jobs += [('stall', seed, 12 if thorough else 3, i) for i in range(16)]
    common.parallel(shard, jobs, stats=stats)
    return stats
