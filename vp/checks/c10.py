"""
C10 — a length limit bounds what a nested parser may consume; source.sent equals the symbols actually
taken; a repeat count is exact.  (automata.py: peeking/chaining, state.run/transition, dfa_base.delegate;
server/enip/parser.py, device.py, logix.py: the parser machines.)

Every case is (machine class from the catalogue in vp/c10cat.py, parameters, tail, limit form/placement/
value, source wrapper, chunking, run path).  The valid encoding E comes from the catalogue's own
struct-based encoder.  Each case runs the machine twice or three times over a *counting* iterator of my
own placed under cpppo's peekable/chainable/rememberable wrapper:

  base   the same construction without the limit, over E+T
  ref    (greedy grammars only) without the limit over E alone
  lim    with the limit, over E+T

Oracle (none of it comes from cpppo):
  accounting  at every yield and at the end  source.sent == symbols pulled from my iterator - symbols pushed
              back (the latter measured black-box at the end by draining the source and counting how many
              drained symbols did not come from my iterator); what can still be read from the source is
              exactly (E+T)[sent:]; peek() is that sequence's head (or None) and does not move sent.
  bound       a run that ends without exception in a terminal machine consumed <= limit symbols after the
              point where the limit was established; the same for a length field *inside* E that was
              generated shorter/longer than its content (CPF item length, EPATH size, encapsulation length).
  agree       limit >= len(E), self-delimiting grammar: outcome, sent and parsed data identical to `base`,
              which itself must be a success at exactly len(E) with the values I encoded;
              limit == len(E), greedy grammar: identical to `ref`, which must be a success at len(E).
  repeat      success => the sub-grammar produced exactly k results (k octets / words / list entries) and
              never more than k in any outcome; fewer than k units of input => no success.
"""
from __future__ import annotations

import math

from hypothesis import strategies as st

from .. import common
from .. import c10cat as cat
from ..common import Stats

PID = 'C10'
LEVEL = 'exploration'
RULE = ('cases = (parser machine class from a catalogue of factories (listed in coverage.extra.catalogue), parameters -> valid encoding E by an own struct '
        'encoder, tail T of 0..8+ bytes, limit in int / data-path / callable / callable-reading-data / parsed-length-prefix / '
        'header-length-field form, placed on the machine itself or on an enclosing dfa, value in {0,1,inside E,len(E)-1,'
        'len(E),len(E)+1,..,len(E)+len(T)+5}, source = peekable | chainable fed lazily in chunks | chainable pre-chained | '
        'rememberable, run path); non-trivial = the limit falls strictly inside E, or strictly between len(E) and '
        'len(E)+len(T), or a length field inside E disagrees with its content, or a repeat count with too little input')
ASSUMPTIONS = [
    'the machine is driven as enip_srv_tcp drives it: on a (machine,None) event with nothing to peek the next block is '
    'chained; an empty block is always followed at once by the next non-empty one; at end of input the generator is '
    'simply iterated until it stops',
    'success = machine.run() ended without an exception and machine.terminal is True (machines are built with terminal=True)',
    'a limit given as data path / length prefix refers to an int the caller has stored / the grammar has parsed before '
    'the limited machine starts (as CPF, CIP, SSTRING do)',
    'exceptions (NonTerminal, AssertionError "exceeded limit", ...) are an allowed outcome of a limited run ("or it fails")',
    'pushed-back symbols are observed black-box (drain after the run); the per-yield check additionally reads the '
    'wrapper\'s _back list length',
    'regex machines: only limit/accounting behaviour of five fixed expressions; language equality is C11',
]
NEVER_GENERATED = [
    'never generated (cannot be counted): empty sentence for the ".*" / "[^\\0]*" string machines (zero-length symbolic or '
    'link-address EPATH segment, empty service_name / ip_address / free string_bytes) - regex machines accept only a '
    'consumed prefix of length >= 1 (the behaviour C11 states), so these are not sentences of the cpppo grammars',
    'never generated: typed_data STRUCT with a structure_tag and no payload byte (typed_data raises in move_if mov_struct; '
    'codec matter), Get Attribute List with 0 attributes (device.py: "TODO: handle 0 attributes?"), Read/Write Tag payloads '
    'with a type and zero elements, connection_data item without payload',
    'never generated: a CPF item of unrecognized type with a body anywhere but in last position (its parser swallows the '
    'rest of the input, so the encoding would not be a CPF sentence for cpppo)',
    'Get Attribute List request is only run with an empty run path (its move_if destinations lack the leading "."; with '
    'path="request" the parser raises) - codec matter',
]
MIN_EVALUATIONS = {'quick': 10000, 'thorough': 250000}
MAX_STEPS = 200000


# ------------------------------------------------------------------------------------------------
# counting iterator, driver


class Counter(object):
    """My own iterator under cpppo's wrapper: counts what is really pulled."""
    __slots__ = ('seq', 'i')

    def __init__(self, seq):
        self.seq = seq
        self.i = 0

    def __iter__(self):
        return self

    def __next__(self):
        if self.i >= len(self.seq):
            raise StopIteration
        v = self.seq[self.i]
        self.i += 1
        return v


def plain(v):
    """dotdict/array/... -> plain comparable JSON-able value (NaN-safe)."""
    import array
    if isinstance(v, dict):
        return {str(k): plain(x) for k, x in dict.items(v)}    # dotdict.items() would flatten
    if isinstance(v, (list, tuple)):
        return [plain(x) for x in v]
    if isinstance(v, array.array):
        return ['array', v.typecode, [plain(x) for x in v]]
    if isinstance(v, (bytes, bytearray)):
        return ['bytes', bytes(v).hex()]
    if isinstance(v, float):
        if math.isnan(v):
            return 'nan'
        return v
    if isinstance(v, (bool, int, str)) or v is None:
        return v
    return repr(v)


def dig(d, key, default=None):
    for part in key.split('.'):
        if isinstance(d, dict) and part in d:
            d = d[part]
        elif isinstance(d, list) and part.isdigit() and int(part) < len(d):
            d = d[int(part)]
        else:
            return default
    return d


class Run(object):
    __slots__ = ('exc', 'exc_type', 'sent', 'terminal', 'data', 'steps', 'acct', 'rem_ok', 'ok')


def split_chunks(symbols, cuts):
    out, prev = [], 0
    for c in cuts:
        c = min(max(c, prev), len(symbols))
        out.append(symbols[prev:c])
        prev = c
    out.append(symbols[prev:])
    return out


def drive(machine, symbols, cuts, srckind, runpath, predata):
    """Run one machine over the symbols; returns a Run with my own accounting observations."""
    cpppo, A, P = cat.mods()
    chunks = split_chunks(symbols, cuts if srckind != 'peek' else [])
    ctrs = [Counter(c) for c in chunks]
    if srckind == 'peek':
        src = A.peekable(ctrs[0])
    elif srckind == 'remember':
        src = A.rememberable(ctrs[0])
    else:
        src = A.chainable(ctrs[0])
    nxt = 1
    if srckind == 'chain-pre':
        for c in ctrs[1:]:
            src.chain(c)
        nxt = len(ctrs)
    data = cpppo.dotdict()
    for k, v in predata.items():
        data[k] = v

    def pulled():
        return sum(c.i for c in ctrs)

    r = Run()
    r.acct = None
    r.exc = r.exc_type = None
    r.steps = 0
    try:
        with machine:
            eng = machine.run(source=src, data=data, path=runpath)
            try:
                for m, s in eng:
                    r.steps += 1
                    if r.steps > MAX_STEPS:
                        raise common.HarnessError('machine yielded more than %d events' % MAX_STEPS)
                    back = getattr(src, '_back', None)
                    if back is not None and r.acct is None and src.sent != pulled() - len(back):
                        r.acct = ('mid-run', src.sent, pulled(), len(back))
                    if s is None and nxt < len(ctrs) and src.peek() is None:
                        # feed: chain blocks until a non-empty one has been chained
                        while nxt < len(ctrs):
                            src.chain(ctrs[nxt])
                            nxt += 1
                            if len(ctrs[nxt - 1].seq):
                                break
            finally:
                eng.close()
    except common.HarnessError:
        raise
    except Exception as exc:            # an allowed outcome: the parse failed
        r.exc = ('%s: %s' % (type(exc).__name__, exc))[:160]
        r.exc_type = type(exc).__name__
    r.sent = src.sent
    r.terminal = bool(machine.terminal)
    r.ok = r.exc is None and r.terminal
    # -- accounting, black-box
    before = pulled()
    pk = src.peek()
    if src.sent != r.sent and r.acct is None:
        r.acct = ('peek-moved-sent', r.sent, src.sent)
    if pk is None:
        if pulled() != r.sent and r.acct is None and before == pulled():
            # nothing to peek although symbols were pulled and not delivered
            r.acct = ('peek-none-but-pending', r.sent, pulled())
    elif r.sent >= len(symbols) or pk != symbols[r.sent]:
        if r.acct is None:
            r.acct = ('peek-wrong-symbol', r.sent, repr(pk))
    before = pulled()
    pushed_back_now = before - r.sent       # what the wrapper should be holding back (incl. the peeked one)
    rem = []
    while True:
        try:
            rem.append(next(src))
        except StopIteration:
            if nxt < len(ctrs):
                src.chain(ctrs[nxt])
                nxt += 1
                continue
            break
        if len(rem) > len(symbols) + 8:
            break
    held = len(rem) - (pulled() - before)   # drained symbols that did not come from my iterator
    if r.acct is None and held != pushed_back_now:
        r.acct = ('sent!=pulled-pushed_back', r.sent, before, held)
    if r.acct is None and list(rem) != list(symbols[r.sent:]):
        r.acct = ('remainder-differs', r.sent, len(rem), len(symbols) - r.sent)
    r.data = plain(data)
    return r


def drive_pushed(machine, symbols, runpath, predata):
    """The same run with the first symbol handed over by push() onto a fresh source (a driver that took one symbol off the
    input to look at it and pushes it back before parsing).  Only the accounting invariant is observed: at every event and at
    the end, source.sent == symbols pulled from the input iterable - symbols held back.  -> None or a detail tuple"""
    cpppo, A, P = cat.mods()
    if len(symbols) < 2:
        return None
    ctr = Counter(list(symbols[1:]))
    src = A.chainable(ctr)
    src.push(symbols[0])
    data = cpppo.dotdict()
    for k, v in predata.items():
        data[k] = v
    bad = None
    try:
        with machine:
            eng = machine.run(source=src, data=data, path=runpath)
            try:
                steps = 0
                for m, s in eng:
                    steps += 1
                    if steps > MAX_STEPS:
                        break
                    back = getattr(src, '_back', None)
                    # the pushed symbol did not come from the iterable: one more is "held back" than was pulled until it is taken
                    if back is not None and bad is None and src.sent != ctr.i - len(back):
                        bad = ('pushed-first-symbol', src.sent, ctr.i, len(back))
            finally:
                eng.close()
    except Exception:
        pass
    back = getattr(src, '_back', None)
    if bad is None and back is not None and src.sent != ctr.i - len(back):
        bad = ('pushed-first-symbol', src.sent, ctr.i, len(back))
    return bad


# ------------------------------------------------------------------------------------------------
# building the machine for a case


def build(entry, p, form, place, limit, with_limit):
    """-> (machine, start, extra predata {relative-to-runpath key: value}, parent path suffix)"""
    cpppo, A, P = cat.mods()
    kw = {'terminal': True}
    lim = None
    pre = {}
    if form in ('path', 'callpath'):
        pre['lim'] = limit              # present in the un-limited runs too, so that parsed data compare equal
    if with_limit:
        if form == 'int':
            lim = limit
        elif form == 'path':
            lim = '..lim'
        elif form == 'call':
            lim = lambda **kwds: limit                                             # noqa: E731
        elif form == 'callpath':
            lim = lambda path=None, data=None, **kwds: data[path + '..lim']        # noqa: E731
        elif form == 'prefix':
            lim = '..length'
        elif form == 'pathmissing':
            lim = '..nosuchkey'             # state.run: a limit path that does not exist counts as 0
    if form == 'field':
        # the limit is a data field the machine's own grammar refers to (CIP: ...length)
        pre[entry.field] = limit
        return entry.make(p, **kw), 0, pre, ''
    if form == 'prefix':
        if lim is not None:
            kw['limit'] = lim
        inner = entry.make(p, **kw)
        leng = P.UINT('len', context='length')
        leng[None] = inner
        return A.dfa('outer', context='o', initial=leng, terminal=True), 2, pre, 'o'
    if place == 'outer':
        inner = entry.make(p, **kw)
        okw = {'limit': lim} if lim is not None else {}
        return A.dfa('outer', context=entry.outer_ctx, initial=inner, terminal=True, **okw), 0, pre, entry.outer_ctx or ''
    if lim is not None:
        kw['limit'] = lim
    return entry.make(p, **kw), 0, pre, ''


def join(*parts):
    return '.'.join(x for x in parts if x)


def symbols_of(entry, b):
    return [chr(x) for x in b] if entry.text else list(b)


def run_case(entry, p, enc, body, case, limit, with_limit):
    import struct
    form, place = case['form'], case['place']
    machine, start, pre, sub = build(entry, p, form, place, limit, with_limit)
    runpath = case['path']
    predata = {join(runpath, k): v for k, v in pre.items()}
    ppath = join(runpath, sub)
    for k, v in enc.predata.items():
        predata[join(ppath, k)] = v
    if form == 'prefix':
        body = struct.pack('<H', limit) + body
    r = drive(machine, symbols_of(entry, body), case['cuts'], case['src'], runpath, predata)
    if case['src'] == 'chain' and not with_limit and r.acct is None and not (entry.whole or enc.whole):
        machine2, _s, _p, _sub = build(entry, p, form, place, limit, with_limit)
        r.acct = drive_pushed(machine2, symbols_of(entry, body), runpath, predata)
    return r, start, ppath


def check_expect(enc, rdata, ppath):
    """-> list of (key, observed, expected) where the parsed data differs from what I encoded."""
    bad = []
    for key, want in sorted(enc.expect.items()):
        k, idx = (key.split('#') + [None])[:2]
        got = dig(rdata, join(ppath, k), '<missing>')
        if idx is not None:
            sub = got[int(idx)] if isinstance(got, list) and int(idx) < len(got) else '<missing>'
            exp = want[1]
            if not (isinstance(sub, dict) and all(plain(sub.get(a)) == plain(b) for a, b in exp.items())):
                bad.append((key, sub, exp))
        elif isinstance(want, tuple) and want[0] == 'len':
            if not (isinstance(got, list) and len(got) == want[1]):
                bad.append((key, got, 'list of %d' % want[1]))
        elif plain(got) != plain(want):
            bad.append((key, got, plain(want)))
    return bad


# ------------------------------------------------------------------------------------------------
# the predicate


def pred_case(case, stats):
    entry = cat.CATALOG[case['m']]
    p = case['p']
    enc = entry.encode(p)
    E = enc.E
    T = common.unhx(case['tail'])
    short = case.get('short', 0)
    if short:
        E_in, T = E[:max(0, len(E) - short)], b''
    else:
        E_in = E
    n = len(E)
    form = case['form']
    L = 0 if form == 'pathmissing' else case['limit']
    has_limit = form != 'none'
    mname = case['m']

    # ---- classification
    classes = ['machine=' + mname, 'group=' + entry.group, 'limit_form=' + form + ('/' + case['place'] if has_limit and form not in ('prefix', 'field') else ''),
               'source=' + case['src'] + ('/chunks=%d' % (len(case['cuts']) + 1) if case['src'] != 'peek' else ''),
               'path=' + str(case['path'])]
    nontrivial = False
    if has_limit:
        if L == 0:
            rel = 'limit=0'
        elif L < n:
            rel = 'limit<len(E)'
            nontrivial = True
            if enc.unit and enc.unit > 1 and L % enc.unit:
                rel += ':cuts-element'
        elif L == n:
            rel = 'limit=len(E)'
        elif L < n + len(T):
            rel = 'len(E)<limit<len(E+T)'
            nontrivial = True
        else:
            rel = 'limit>=len(E+T)'
        classes.append(rel)
    if not enc.valid:
        nontrivial = True
    if short:
        classes.append('input_short_of_repeat')
        nontrivial = True
    if enc.k is not None:
        classes.append('repeat=%s' % (enc.k if enc.k in (0, 1, 2, 3, 7) else 'other'))
    classes.extend(enc.classes)
    selfdelim = entry.selfdelim and not enc.greedy
    classes.append('selfdelim' if selfdelim else 'greedy')

    fails = []

    def fail(clause, sig, observed, expected):
        if isinstance(observed, dict):
            observed = dict(observed, machine=mname)
        fails.append((clause, sig, observed, expected))

    # ---- base run: no limit, E+T     (for the 'field' form "no limit" is the truthful length len(E))
    base_limit = n if form == 'field' else L
    base, start, ppath = run_case(entry, p, enc, E_in + T, case, base_limit, with_limit=(form == 'field'))
    if base.acct:
        fail('accounting', 'accounting:%s:%s' % (base.acct[0], case['src']), {'run': 'base', 'detail': base.acct, 'exc': base.exc},
             'source.sent == pulled - pushed back; remainder == input[sent:]')
    natural_ok = None
    ref = None
    if not short and enc.valid:
        if selfdelim:
            natural_ok = (base.sent == start) if enc.zero else (base.ok and base.sent == start + n and not check_expect(enc, base.data, ppath))
            if not natural_ok:
                fail('agree', 'agree:unlimited-run-of-valid-encoding:%s' % entry.group,
                     {'ok': base.ok, 'exc': base.exc, 'sent': base.sent, 'mismatch': check_expect(enc, base.data, ppath)[:3]},
                     {'ok': True, 'sent': start + n})
        else:
            ref, _, _ = run_case(entry, p, enc, E_in, case, base_limit, with_limit=(form == 'field'))
            if ref.acct:
                fail('accounting', 'accounting:%s:%s' % (ref.acct[0], case['src']), {'run': 'ref', 'detail': ref.acct},
                     'source.sent == pulled - pushed back; remainder == input[sent:]')
            natural_ok = ref.ok and ref.sent == start + n and not check_expect(enc, ref.data, ppath)
            if not natural_ok:
                fail('agree', 'agree:unlimited-run-of-valid-encoding:%s' % entry.group,
                     {'ok': ref.ok, 'exc': ref.exc, 'sent': ref.sent, 'mismatch': check_expect(enc, ref.data, ppath)[:3]},
                     {'ok': True, 'sent': start + n})

    runs = [('base', base, None)]
    # ---- limited run
    lim = None
    if has_limit:
        lim, start, ppath = run_case(entry, p, enc, E_in + T, case, L, with_limit=True)
        runs.append(('lim', lim, L))
        if lim.acct:
            fail('accounting', 'accounting:%s:%s' % (lim.acct[0], case['src']), {'run': 'lim', 'detail': lim.acct, 'exc': lim.exc},
                 'source.sent == pulled - pushed back; remainder == input[sent:]')
        if lim.ok and lim.sent - start > L:
            fail('bound', 'bound:success-beyond-limit:limit-form=%s' % form,
                 {'sent': lim.sent, 'start': start, 'limit': L}, 'sent - start <= limit on success')
        classes.append('limited_run=' + ('success' if lim.ok else ('exception:' + lim.exc_type if lim.exc else 'non-terminal')))
        if lim.ok and L < n:
            classes.append('limited_run=success-with-shorter-sentence')
        if not short and enc.valid and natural_ok and not enc.zero:
            if selfdelim and L >= n:
                same = lim.ok and lim.sent == base.sent and drop_limit_keys(lim.data, case, entry) == drop_limit_keys(base.data, case, entry)
                if not same:
                    fail('agree', 'agree:limit>=len(E)-differs-from-unlimited:limit-form=%s' % form,
                         {'ok': lim.ok, 'exc': lim.exc, 'sent': lim.sent, 'data_equal': lim.data == base.data},
                         {'ok': True, 'sent': base.sent})
            elif not selfdelim and L == n:
                same = lim.ok and lim.sent == ref.sent and drop_limit_keys(lim.data, case, entry) == drop_limit_keys(ref.data, case, entry)
                if not same:
                    fail('agree', 'agree:limit==len(E)-differs-from-run-over-E-alone:limit-form=%s' % form,
                         {'ok': lim.ok, 'exc': lim.exc, 'sent': lim.sent, 'data_equal': lim.data == ref.data},
                         {'ok': True, 'sent': ref.sent})

    # ---- length fields inside E, and repeat counts, hold in every run
    for name, r, lval in runs:
        if enc.ibound is not None and r.ok and r.sent - start > enc.ibound:
            fail('bound', 'bound:success-beyond-inner-length-field:%s' % entry.group,
                 {'run': name, 'sent': r.sent, 'start': start, 'declared_end': enc.ibound}, 'sent - start <= declared end on success')
        if enc.k is not None and enc.results is not None:
            got = enc.results(dig(r.data, ppath, {}) if ppath else r.data)
            want = enc.k
            if enc.kkey is not None:
                # the count as this run parsed it from E; if the run never got that far the repeated dfa did not run
                # (dfa_base.delegate documents a missing count as 0 cycles)
                want = dig(r.data, join(ppath, enc.kkey), 0)
            if isinstance(want, int) and not isinstance(want, bool):
                if got > want:
                    fail('repeat', 'repeat:more-results-than-count:%s' % entry.group, {'run': name, 'results': got, 'k': want, 'ok': r.ok}, '<= k')
                elif r.ok and got != want:
                    fail('repeat', 'repeat:success-with-wrong-count:%s' % entry.group, {'run': name, 'results': got, 'k': want}, 'exactly k')
        if short and enc.k is not None and r.ok and enc.valid:
            fail('repeat', 'repeat:success-on-short-input:%s' % entry.group, {'run': name, 'sent': r.sent, 'k': enc.k, 'available': len(E_in)},
                 'no success: fewer than k units of input')
    if enc.soft_ibound is not None and base.ok and base.sent - start > enc.soft_ibound:
        classes.append('observation:unrecognized_cpf_item_read_past_its_declared_length')
    classes.append('base_run=' + ('success' if base.ok else ('exception:' + base.exc_type if base.exc else 'non-terminal')))

    stats.case(case, nontrivial=nontrivial, classes=classes)
    if (entry.whole or enc.whole) and case['src'] != 'peek':
        stats.exclude('chunked feeding not applied: machine is only ever run over a completely buffered input '
                      '(service parsers; unconnected_send 0xD2 look-ahead uses bare next())')
    if enc.soft_ibound is not None:
        stats.exclude('declared length of a CPF item of unrecognized type not asserted as a bound: cpppo gives that '
                      'item\'s octets parser no limit (parser.py CPF.__init__ "urec"); see class observation:...')
    for clause, sig, observed, expected in fails:
        stats.fail(clause, sig, case, observed=observed, expected=expected)


def drop_limit_keys(d, case=None, entry=None):
    """parsed data without the field that carried the limit value itself ('field' form only)."""
    if entry is None or entry.field is None:
        return d
    import copy
    d = copy.deepcopy(d)
    parent = dig(d, case['path']) if case['path'] else d
    if isinstance(parent, dict):
        parent.pop(entry.field, None)
    return d


CLAUSES = {'accounting': pred_case, 'bound': pred_case, 'agree': pred_case, 'repeat': pred_case, 'case': pred_case}

# ------------------------------------------------------------------------------------------------
# generator


@st.composite
def cases(draw, names):
    name = draw(st.sampled_from(names))
    entry = cat.CATALOG[name]
    p = entry.params(draw)
    enc = entry.encode(p)
    n = len(enc.E)
    if entry.tail is not None:
        tail = draw(entry.tail(p))
    else:
        tail = draw(st.binary(max_size=8))
    forms = list(entry.forms)
    form = draw(st.sampled_from(forms + (['none'] if 'field' not in forms else [])))
    place = 'own' if form in ('prefix', 'field', 'none') else draw(st.sampled_from(list(entry.places)))
    if form == 'none':
        place = draw(st.sampled_from(list(entry.places)))
    t = len(tail)
    kind = draw(st.sampled_from(['zero', 'one', 'inside', 'inside', 'inside', 'n-1', 'n', 'n', 'n+1', 'between', 'between',
                                 'n+t', 'beyond', 'any']))
    limit = {'zero': 0, 'one': 1, 'n-1': max(0, n - 1), 'n': n, 'n+1': n + 1, 'n+t': n + t, 'beyond': n + t + 5}.get(kind)
    if kind == 'inside':
        limit = draw(st.integers(0, max(0, n - 1)))
    elif kind == 'between':
        limit = draw(st.integers(n, n + t))
    elif kind == 'any':
        limit = draw(st.integers(0, n + t + 8))
    src = draw(st.sampled_from(['peek', 'chain', 'chain', 'chain-pre', 'remember']))
    total = n + t + (2 if form == 'prefix' else 0)
    cuts = []
    if src != 'peek' and not (entry.whole or enc.whole):
        cuts = sorted(draw(st.lists(st.integers(0, total), max_size=3)))
    short = 0
    if entry.group in ('primitive', 'scalar') and enc.k is not None and enc.k > 0 and n > 0 and draw(st.integers(0, 9)) == 0:
        short = draw(st.integers(1, n))
    path = entry.runpath if entry.runpath is not None else draw(st.sampled_from([None, None, 'a', 'a.b']))
    case = {'m': name, 'p': p, 'tail': common.hx(tail), 'form': form, 'place': place, 'limit': limit, 'src': src,
            'cuts': cuts, 'path': path}
    if short:
        case['short'] = short
    return case


def shard(job):
    seed, idx, n, names = job
    s = Stats()
    common.hyp_run(s, cases(names), pred_case, n, common.shard_seed(seed, idx), 'case', PID)
    return s


# ------------------------------------------------------------------------------------------------
# deterministic sweeps over fixed sentences: every limit value, every limit form/placement, every single cut

_H = {'cmd': 0x6F, 'sess': 0x11223344, 'stat': 0, 'ctx': '0102030405060708', 'opt': 0}
_PATH = [{'t': 'class', 'w': 8, 'v': 2}, {'t': 'instance', 'w': 16, 'v': 300}, {'t': 'symbolic', 's': '6162'}]
SWEEP_SEEDS = [
    ('prim:octets', {'k': 3, 'rf': 'int', 'b': '010203'}, 'aabb'),
    ('prim:octets', {'k': 2, 'rf': 'path', 'b': '0102'}, 'aa'),
    ('prim:octets_drop', {'k': 2, 'rf': 'int', 'b': '0102'}, 'aa'),
    ('prim:words', {'k': 2, 'rf': 'int', 'b': '01020304'}, 'aabbcc'),
    ('prim:dfa_repeat_list', {'k': 2, 'rf': 'path', 'v': [1, 515]}, '0900'),
    ('prim:dfa_repeat_nested', {'k': 2, 'j': 2, 'rf': 'int', 'b': '01020304'}, '05'),
    ('prim:regex_bytes(a(bb)*)', {'n': 2}, '626278'),
    ('prim:regex_bytes(ab*c)', {'n': 2}, '6162'),
    ('prim:string_bytes(.*)', {'b': '616263'}, '6465'),
    ('TYPE:UDINT', {'b': '01020304'}, '0506'),
    ('TYPE:IPADDR', {'b': '0100000a'}, '05'),
    ('SSTRING', {'s': '616263'}, '6465'),
    ('STRING', {'s': '616263'}, '6465'),
    ('EPATH', {'segs': _PATH, 'sd': 0}, '2001'),
    ('route_path', {'segs': [{'t': 'port', 'port': 1, 'ext': False, 'link': 0}], 'sd': 0}, '0100'),
    ('status', {'code': 1, 'ext': [1, 2]}, '0300'),
    ('typed_data:INT', {'tag': 0x00C3, 'el': ['0100', '0200', '0300'], 'ttf': 'int'}, '0400'),
    ('typed_data:STRING', {'tag': 0x00D0, 'el': ['61', '6263'], 'ttf': 'path'}, '0100'),
    ('enip_machine', {'h': _H, 'pay': '010203', 'ld': 0}, '6500'),
    ('CPF', {'items': [{'k': 'null'}, {'k': 'conn_data', 'd': {'seq': 7, 'b': '0e0320012401'}}], 'ld': 0}, '0000'),
    ('unconnected_send:0x52', {'path': _PATH[:2], 'prio': 5, 'ticks': 157, 'msg': '4c0220012401', 'route': [{'t': 'port', 'port': 1, 'ext': False, 'link': 0}]}, '00'),
    ('CIP', {'what': 'register', 'cmd': 0x65, 'r': {'pv': 1, 'opt': 0}}, '0100'),
    ('svc:read_frag', {'path': _PATH, 'n': 20, 'off': 2}, '00'),
    ('svc:get_attribute_list', {'path': _PATH[:2], 'att': [1, 2]}, '0300'),
    ('svc:write_tag', {'path': _PATH[:1], 't': {'tag': 0x02A0, 'stag': 0x1234, 'raw': '0a0b0c0d'}, 'n': 1}, '0e'),
    ('svc:write_frag', {'path': _PATH[:1], 't': {'tag': 0x00C3, 'el': ['0100', '0200']}, 'n': 2, 'off': 4}, '0300'),
    ('svc:multiple', {'subs': [{'k': 'read_tag', 'path': _PATH[:2], 'n': 1}, {'k': 'get_attribute_single', 'path': _PATH[:2]}]}, '00'),
    ('svc:read_tag_reply', {'st': {'code': 0, 'ext': []}, 't': {'tag': 0x00C4, 'el': ['01000000', '02000000']}}, '0300'),
    ('svc:forward_open_reply', {'st': {'code': 0, 'ext': []}, 'cser': 1, 'ovnd': 2, 'oser': 3, 'otid': 4, 'toid': 5, 'otapi': 6,
                                'toapi': 7, 'app': {'b': '01020304', 'ad': 0}}, '0506'),
]


def sweep_cases():
    for name, p, tail in SWEEP_SEEDS:
        entry = cat.CATALOG[name]
        n = len(entry.encode(p).E)
        t = len(tail) // 2
        path = entry.runpath if entry.runpath is not None else 'a'
        combos = [(f, pl) for f in entry.forms for pl in (entry.places if f not in ('prefix', 'field') else ('own',))]
        # A: every limit value x every form/placement, whole input through a plain peekable
        for L in range(0, n + t + 3):
            for f, pl in combos:
                yield {'m': name, 'p': p, 'tail': tail, 'form': f, 'place': pl, 'limit': L, 'src': 'peek', 'cuts': [], 'path': path}
        # B: every single cut position x the chaining wrappers, limits around the boundary
        if entry.whole:
            continue
        f, pl = combos[0]
        total = n + t + (2 if f == 'prefix' else 0)
        for L in sorted({max(0, n // 2), max(0, n - 1), n, n + 1}):
            for src in ('chain', 'chain-pre', 'remember'):
                for c in range(0, total + 1):
                    yield {'m': name, 'p': p, 'tail': tail, 'form': f, 'place': pl, 'limit': L, 'src': src, 'cuts': [c], 'path': None}


def shard_sweep(job):
    idx, nsh = job
    s = Stats()
    for i, case in enumerate(sweep_cases()):
        if i % nsh == idx:
            common.run_pred(pred_case, case, s, 'case')
    return s


# cases per group in the quick tier (thorough: x30); heavier grammars get more, every group its own streams
PLAN = {'primitive': 600, 'regex': 300, 'scalar': 900, 'string': 450, 'epath': 600, 'status': 300, 'typed': 900,
        'encapsulation': 450, 'command': 600, 'cpf_item': 900, 'cpf': 750, 'cip': 450, 'service': 1800}
JOB = 300


def run(tier, seed):
    thorough = tier == 'thorough'
    stats = Stats()
    names = sorted(cat.CATALOG)
    groups = sorted({e.group for e in cat.CATALOG.values()})
    missing = [g for g in groups if g not in PLAN]
    if missing:
        raise common.HarnessError('catalogue groups without a budget: %r' % (missing,))
    # import the code under test once, before forking
    cat.mods()
    cat._svc_parser('logix')
    nsh = 16
    common.parallel(shard_sweep, [(i, nsh) for i in range(nsh)], stats=stats)
    stats.exhaustive['fixed-sentence sweep'] = (
        '%d fixed sentences (one or two per machine family): A = every limit 0..len(E)+len(T)+2 x every limit form x '
        'placement, whole input via peekable; B = limits {len(E)//2, len(E)-1, len(E), len(E)+1} x {chainable lazy, '
        'chainable pre-chained, rememberable} x every single cut position' % len(SWEEP_SEEDS))
    jobs = []
    idx = 0
    for g in groups:
        sel = [n for n in names if cat.CATALOG[n].group == g]
        total = PLAN[g] * (30 if thorough else 1)
        per = JOB * (5 if thorough else 1)
        while total > 0:
            jobs.append((seed, idx, min(per, total), sel))
            idx += 1
            total -= per
    # the heaviest shards first, so the pool drains evenly
    jobs.sort(key=lambda j: (-j[2], j[1]))
    common.parallel(shard, jobs, stats=stats)
    stats.notes.extend(NEVER_GENERATED)
    stats.extra['catalogue'] = {g: sorted(n for n in names if cat.CATALOG[n].group == g) for g in groups}
    stats.extra['machine_classes'] = len(names)
    return stats
