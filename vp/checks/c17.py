"""
C17 — timestamps and durations survive render/parse; ordering matches the rendering
(history/times.py: timestamp.render / datetime_from_string / datetime_from_number / number_from_datetime,
comparison operators, duration._format/_parse, parse_seconds, format_offset/parse_offset).

Oracles (none of them comes from cpppo):

* a transition table per zone, computed here by bisection on ``zoneinfo.ZoneInfo.utcoffset`` over a
  two-day grid (this tzdata has no two transitions closer than 3.9 days after 1868; every case re-checks
  the table against zoneinfo at its own instant and turns a mismatch into a harness error);
* the rendered text is parsed by the harness' own regular expression into a wall-clock time; the set of
  UTC instants that have this wall-clock time in the zone (its *pre-images*, computed from the table) says
  whether the rendering is right (one pre-image lies within the rounding bound of the instant) and what
  the parser must do (one pre-image: return it; several: ambiguous, reject; none: nonexistent, reject);
* wall-clock strings built by the harness inside gaps / folds / elsewhere, same expectation;
* the rendering with a numeric utcoffset (tzdetail=False) read back by parse_datetime: the offset must be the
  zone's offset at that instant and the text must always parse to the instant (nothing is ambiguous);
* comparison operators against the order of ``str()``, and their mutual consistency;
* ``duration(str(duration(td))).timedelta == td``; ``parse_seconds(str(d)) == td.total_seconds()``;
  ``parse_offset(format_offset(x))`` within half a millisecond of x.

Every failure gets a root-cause signature computed from the case *and* the observation (not from the
input alone), so the two anticipated defects have their own signatures and anything else keeps a
different one.  A signature listed as ``known`` in known_findings.json switches the corresponding class
off in the generators by construction (counted in ``excluded_by_construction``) and a fixed sentinel
case per class keeps reproducing it.
"""
from __future__ import annotations

import bisect
import datetime
import fractions
import multiprocessing
import os
import re
import warnings
import zoneinfo

from hypothesis import strategies as st

from .. import common
from ..common import Stats

PID = 'C17'
LEVEL = 'exploration'
RULE = ('cases = (instant, zone, precision, how the zone is passed, how the text is parsed) rendered with the full '
        'zone name (or, one in four/five, with the numeric utcoffset and read by parse_datetime) and parsed back; (zone, wall-clock string) built by the harness inside gaps, folds and elsewhere; '
        '(a, b) instant pairs for the comparison operators; timedelta for durations; float seconds for offsets.  '
        'Instants come from a mixture (uniform 1874..2128, millisecond grid +/- {0,1e-7,4.9e-4,5e-4,5.1e-4}, '
        'n+0.9995..0.9999999 before minute/day/year boundaries, and every utcoffset transition of every zone of '
        'zoneinfo.available_timezones() with offsets hugging the transition and the edges of its fold/gap).  '
        'non-trivial = instant within 2 h of a transition of its zone, or rounding to the precision changes the '
        'second, or wall-clock string inside/at the edge of a gap or fold, or pair less than 1.5 ms apart, or '
        'duration with a sub-second part next to a larger unit / at a unit boundary, or offset whose seconds round to 60')
ASSUMPTIONS = [
    'trusted base: CPython datetime/zoneinfo/fractions and the tzdata that zoneinfo (and, through '
    'pytz_deprecation_shim, cpppo) reads; the harness table is bisected from zoneinfo.utcoffset on a 2-day grid '
    '(sound while no two offset changes of one zone are closer than two days; verified for this tzdata from the '
    'TZif files: none closer than 3.9 days after 1868) and is re-checked against zoneinfo at every generated instant',
    'instants are floats in [-3e9, 5e9] (1874..2128, four-digit years); precision ms in {True, False, 0..6}',
    '"a zone given without daylight-saving designation" = the full zone name, rendered with tzdetail=True and '
    'either left in the text or passed as tzinfo= to datetime_from_string; abbreviations (support_abbreviations, '
    'classic pytz only) are not exercised',
    'precision 0 renders no fraction: both the whole second containing the instant and the nearest one are accepted; '
    'precision p >= 1: |parsed - instant| <= 0.5*10^-p + 1e-6 (1e-6 = float resolution at 5e9)',
    'a rejection is any exception raised by the parser',
    'durations are non-negative timedeltas up to ~300 years; offsets |x| < 1e6 s formatted with ms=True',
]
MIN_EVALUATIONS = {'quick': 300000, 'thorough': 3000000}

LO, HI = -3000000000, 5000000000
GRID = 2 * 86400
TABLE_LO = (LO // GRID - 4) * GRID
TABLE_HI = (HI // GRID + 4) * GRID
US = 10 ** 6
TOL = fractions.Fraction(1, US)
EPOCH = datetime.datetime(1970, 1, 1)
SEPARATOR_CHARS = ':-.'     # the characters the documented format 'YYYY-MM-DD HH:MM:SS.sss' uses as separators

SIG_F2 = 'render:pre-epoch-fraction-mirrored'
SIG_F3 = 'parse:zone-name-contains-hyphen'
EXCL_F2 = 'pre-epoch instant with a fractional part replaced by its whole second (known: %s)' % SIG_F2
EXCL_F3 = 'zone name containing a separator character left in the text; zone passed as tzinfo= instead (known: %s)' % SIG_F3

ZONES = sorted(zoneinfo.available_timezones())
SEP_ZONES = [z for z in ZONES if any(c in z for c in SEPARATOR_CHARS)]


def _impl():
    import cpppo.history.times as T
    try:
        import pytz_deprecation_shim
        warnings.filterwarnings('ignore', category=pytz_deprecation_shim.PytzUsageWarning)
    except Exception:
        pass
    warnings.filterwarnings('ignore', category=DeprecationWarning)
    return T


# ------------------------------------------------------------------------------------------------
# the harness' own transition table


def _off(zi, s):
    d = datetime.datetime.fromtimestamp(s, zi).utcoffset()
    return d.days * 86400 + d.seconds


def _bisect(zi, lo, olo, hi, ohi, ts, offs):
    if hi - lo == 1:
        ts.append(hi)
        offs.append(ohi)
        return
    mid = (lo + hi) // 2
    omid = _off(zi, mid)
    if omid != olo:
        _bisect(zi, lo, olo, mid, omid, ts, offs)
    if omid != ohi:
        _bisect(zi, mid, omid, hi, ohi, ts, offs)


def build_table(zone):
    """([T0, T1, ...], [o0, o1, ...]): offset o0 before T0, o(i+1) from Ti (first second of the new offset)."""
    zi = zoneinfo.ZoneInfo(zone)
    ts, offs = [], []
    ps, po = TABLE_LO, _off(zi, TABLE_LO)
    offs.append(po)
    for s in range(TABLE_LO + GRID, TABLE_HI + 1, GRID):
        o = _off(zi, s)
        if o != po:
            _bisect(zi, ps, po, s, o, ts, offs)
        ps, po = s, o
    return ts, offs


_TABLES = {}


def table(zone):
    t = _TABLES.get(zone)
    if t is None:
        t = _TABLES[zone] = build_table(zone)
    return t


def prime_tables():
    todo = [z for z in ZONES if z not in _TABLES]
    if not todo:
        return
    if common.NPROC <= 1 or os.environ.get('VP_SERIAL'):
        for z in todo:
            table(z)
        return
    with multiprocessing.get_context('fork').Pool(common.NPROC) as pool:
        for z, t in zip(todo, pool.map(build_table, todo, chunksize=4)):
            _TABLES[z] = t


def offset_at(zone, s):
    ts, offs = table(zone)
    return offs[bisect.bisect_right(ts, s)]


def preimages(zone, w_us):
    """All UTC instants (integer microseconds) whose wall-clock time in zone is w_us (microseconds of the
    naive wall-clock time since 1970-01-01 00:00:00)."""
    ts, offs = table(zone)
    ws = w_us // US
    out = []
    lo = bisect.bisect_right(ts, ws - 90000)
    hi = bisect.bisect_right(ts, ws + 90000)
    for i in range(lo, hi + 1):
        u = w_us - offs[i] * US
        if (i == 0 or ts[i - 1] * US <= u) and (i == len(ts) or u < ts[i] * US):
            out.append(u)
    return sorted(out)


def nearest_transition(zone, t):
    ts, _ = table(zone)
    if not ts:
        return None
    i = bisect.bisect_right(ts, t)
    best = None
    for j in (i - 1, i):
        if 0 <= j < len(ts):
            d = abs(ts[j] - t)
            if best is None or d < best:
                best = d
    return best


def selfcheck(zone, t):
    s = int(t // 1)
    if offset_at(zone, s) != _off(zoneinfo.ZoneInfo(zone), s):
        raise common.HarnessError('transition table of %s disagrees with zoneinfo at %d' % (zone, s))


# ------------------------------------------------------------------------------------------------
# shared pieces of the oracle

TEXT_RE = re.compile(r'^(\d{4})-(\d\d)-(\d\d) (\d\d):(\d\d):(\d\d)(?:\.(\d+))?(?: (\S+))?$')


NUMERIC_RE = re.compile(r'^(\d{4})-(\d\d)-(\d\d) (\d\d):(\d\d):(\d\d)(?:\.(\d+))?([+-])(\d\d)(\d\d)(\d\d)?$')


def digits(ms):
    return 3 if ms is True else (int(ms) if ms else 0)


def wall_to_us(y, mo, d, h, mi, s, frac=''):
    td = datetime.datetime(y, mo, d, h, mi, s) - EPOCH
    return (td.days * 86400 + td.seconds) * US + (int((frac + '000000')[:6]) if frac else 0)


def us_to_wall(w_us):
    dt = EPOCH + datetime.timedelta(seconds=w_us // US)
    return [dt.year, dt.month, dt.day, dt.hour, dt.minute, dt.second], w_us % US


def judge_render(t, p, pre):
    """None if one pre-image of the rendered wall-clock time is the instant t to precision p, else
    (signature, detail)."""
    ft = fractions.Fraction(t)
    half = fractions.Fraction(5, 10 ** (p + 1))
    for u in pre:
        diff = fractions.Fraction(u, US) - ft
        if p == 0:
            if -1 - TOL < diff <= half + TOL:
                return None
        elif abs(diff) <= half + TOL:
            return None
    if not pre:
        return ('render:wall-clock-nonexistent-in-zone', None)
    # root cause F2: the seconds are those of the instant, the fraction is that of |instant|
    if t < 0 and p >= 1:
        fl = ft.__floor__()
        mirror = 2 * fl + 1 - ft
        for u in pre:
            if abs(fractions.Fraction(u, US) - mirror) <= half + TOL:
                return (SIG_F2, {'rendered_instant': u / US, 'instant': t, 'floor+1-fraction': float(mirror)})
    return ('render:wall-clock-is-not-the-instant', {'rendered_instants': [u / US for u in pre], 'instant': t})


def do_parse(T, text_plain, zone, tz_as, how):
    """('ok', value) or ('exc', 'Type: message')."""
    try:
        if zone is None or how == 'embedded':
            text = text_plain if zone is None else text_plain + ' ' + zone
            return ('ok', float(T.timestamp(text).value))
        tzarg = zone if tz_as == 'name' else T.pytz.timezone(zone)
        return ('ok', float(T.timestamp(T.timestamp.datetime_from_string(text_plain, tzinfo=tzarg)).value))
    except Exception as exc:
        return ('exc', '%s: %s' % (type(exc).__name__, str(exc)[:200]))


def judge_parse(T, stats, clause, case, text_plain, zone, tz_as, how, pre):
    """Run the parser and compare with what the pre-images demand.  Returns the status class."""
    out = do_parse(T, text_plain, zone, tz_as, how)
    shown = text_plain if zone is None else (text_plain + ' ' + zone if how == 'embedded' else
                                             '%s  [tzinfo=%s as %s]' % (text_plain, zone, tz_as))
    if len(pre) == 1:
        want = pre[0]
        if out[0] == 'ok':
            if abs(fractions.Fraction(out[1]) - fractions.Fraction(want, US)) > TOL:
                stats.fail(clause, 'parse:unambiguous-wall-clock-maps-to-another-instant', case,
                           observed={'text': shown, 'parsed': out[1]}, expected={'instant': want / US})
        else:
            sig = 'parse:unambiguous-wall-clock-rejected'
            detail = {'text': shown, 'raised': out[1]}
            if zone is not None and how == 'embedded' and any(c in zone for c in SEPARATOR_CHARS):
                # root cause F3: the same wall-clock text parses once the zone name is kept out of the text
                alt = do_parse(T, text_plain, zone, 'name', 'argument')
                detail['same_text_with_zone_as_tzinfo_argument'] = alt
                if alt[0] == 'ok' and abs(fractions.Fraction(alt[1]) - fractions.Fraction(want, US)) <= TOL:
                    sig = SIG_F3
            stats.fail(clause, sig, case, observed=detail, expected={'instant': want / US})
        return 'unique'
    status = 'ambiguous' if pre else 'nonexistent'
    if out[0] == 'ok':
        stats.fail(clause, 'parse:%s-wall-clock-accepted' % status, case,
                   observed={'text': shown, 'parsed': out[1]},
                   expected={'rejected': True, 'instants_with_this_wall_clock': [u / US for u in pre]})
    return status


def zone_class(zone):
    if zone is None:
        return 'utc-plain'
    if any(c in zone for c in SEPARATOR_CHARS):
        return 'name-with-hyphen'
    if any(c.isdigit() or c == '+' for c in zone):
        return 'name-with-digit-or-plus'
    return 'name-plain'


def count_excluded(case, stats):
    for reason in case.get('excluded', ()):
        stats.exclude(reason)


# ------------------------------------------------------------------------------------------------
# predicates


def pred_roundtrip(case, stats):
    T = _impl()
    t = float(case['t'])
    zone = case['zone']
    ms = case['ms']
    tz_as = case.get('tz_as', 'name')
    how = case.get('parse', 'embedded')
    p = digits(ms)
    zkey = zone or 'UTC'
    count_excluded(case, stats)
    selfcheck(zkey, t)

    ft = fractions.Fraction(t)
    near = nearest_transition(zkey, t)
    carries = p >= 1 and round(ft, p).__floor__() != ft.__floor__()
    numeric = zone is not None and case.get('detail') == 'numeric'
    classes = ['rt:zone:' + zone_class(zone), 'rt:ms=%r' % (ms,), 'rt:tz-as-' + tz_as if zone else 'rt:tz-default',
               'rt:numeric-offset:parse_datetime' if numeric else 'rt:parse-' + (how if zone else 'embedded')]
    if near is not None and near <= 7200:
        classes.append('rt:within-2h-of-transition')
    if carries:
        classes.append('rt:rounding-carries-into-next-second')
    if t < 0:
        classes.append('rt:pre-epoch' + (':fractional' if t != t // 1 else ':whole-second'))

    if numeric:
        stats.case(case, nontrivial=bool(carries or (near is not None and near <= 7200)), classes=classes)
        roundtrip_numeric(T, case, stats, t, zone, ms, p, tz_as)
        return

    # render
    try:
        ts = T.timestamp(t)
        if zone is None:
            text = ts.render(ms=ms)
        else:
            text = ts.render(tzinfo=zone if tz_as == 'name' else T.pytz.timezone(zone), ms=ms, tzdetail=True)
    except Exception as exc:
        stats.case(case, nontrivial=bool(carries or (near is not None and near <= 7200)), classes=classes)
        stats.fail('roundtrip', 'render:raises:' + type(exc).__name__, case, observed=str(exc)[:300],
                   expected='a rendering')
        return
    m = TEXT_RE.match(text) if isinstance(text, str) else None
    if (m is None or len(m.group(7) or '') != p or m.group(8) != zone):
        stats.case(case, nontrivial=False, classes=classes)
        stats.fail('roundtrip', 'render:malformed-text', case, observed=text,
                   expected='YYYY-MM-DD HH:MM:SS%s%s' % ('.' + 'f' * p if p else '', ' ' + zone if zone else ''))
        return
    try:
        w_us = wall_to_us(*[int(g) for g in m.groups()[:6]], frac=m.group(7) or '')
    except ValueError:
        stats.case(case, nontrivial=False, classes=classes)
        stats.fail('roundtrip', 'render:malformed-text', case, observed=text, expected='a calendar date and time')
        return
    text_plain = text if zone is None else text[:-(len(zone) + 1)]
    pre = preimages(zkey, w_us)
    classes.append('rt:wall-' + ('unique' if len(pre) == 1 else 'ambiguous' if pre else 'nonexistent'))
    stats.case(case, nontrivial=bool(carries or (near is not None and near <= 7200)), classes=classes)

    bad = judge_render(t, p, pre)
    if bad is not None:
        stats.fail('roundtrip', bad[0], case, observed={'text': text, 'detail': bad[1]},
                   expected='the wall-clock time of instant %r in %s to %d digit(s)' % (t, zkey, p))
    judge_parse(T, stats, 'roundtrip', case, text_plain, zone, tz_as, how, pre)


def roundtrip_numeric(T, case, stats, t, zone, ms, p, tz_as):
    """render(tzdetail=False) appends the numeric utcoffset; parse_datetime reads it back.  A numeric offset
    designates the instant completely, so nothing may be rejected, transition hour or not."""
    try:
        text = T.timestamp(t).render(tzinfo=zone if tz_as == 'name' else T.pytz.timezone(zone), ms=ms, tzdetail=False)
    except Exception as exc:
        stats.fail('roundtrip', 'render:raises:' + type(exc).__name__, case, observed=str(exc)[:300], expected='a rendering')
        return
    m = NUMERIC_RE.match(text) if isinstance(text, str) else None
    if m is None or len(m.group(7) or '') != p:
        stats.fail('roundtrip', 'render:malformed-text', case, observed=text,
                   expected='YYYY-MM-DD HH:MM:SS%s+HHMM[SS]' % ('.' + 'f' * p if p else ''))
        return
    w_us = wall_to_us(*[int(g) for g in m.groups()[:6]], frac=m.group(7) or '')
    off = (1 if m.group(8) == '+' else -1) * (int(m.group(9)) * 3600 + int(m.group(10)) * 60 + int(m.group(11) or 0))
    u = w_us - off * US
    if offset_at(zone, u // US) != off:
        stats.fail('roundtrip', 'render:numeric-offset-is-not-the-zone-offset', case,
                   observed={'text': text, 'zone_offset_then': offset_at(zone, u // US)}, expected='the utcoffset of the zone')
        return
    bad = judge_render(t, p, [u])
    if bad is not None:
        stats.fail('roundtrip', bad[0], case, observed={'text': text, 'detail': bad[1]},
                   expected='the wall-clock time of instant %r in %s to %d digit(s)' % (t, zone, p))
    try:
        back = float(T.timestamp(T.parse_datetime(text)).value)
    except Exception as exc:
        stats.fail('roundtrip', 'parse:numeric-offset-text-rejected', case,
                   observed={'text': text, 'raised': '%s: %s' % (type(exc).__name__, str(exc)[:200])},
                   expected={'instant': u / US})
        return
    if abs(fractions.Fraction(back) - fractions.Fraction(u, US)) > TOL:
        stats.fail('roundtrip', 'parse:numeric-offset-text-maps-to-another-instant', case,
                   observed={'text': text, 'parsed': back}, expected={'instant': u / US})


def pred_wall(case, stats):
    T = _impl()
    zone = case['zone']
    y, mo, d, h, mi, s = case['wall']
    frac = case.get('frac', '')
    tz_as = case.get('tz_as', 'name')
    how = case.get('parse', 'embedded')
    count_excluded(case, stats)
    w_us = wall_to_us(y, mo, d, h, mi, s, frac)
    for probe in (w_us // US - 86400, w_us // US + 86400):
        selfcheck(zone, probe)
    pre = preimages(zone, w_us)
    status = 'unique' if len(pre) == 1 else 'ambiguous' if pre else 'nonexistent'
    edge = False
    if status == 'unique':
        for dlt in (-1000, 1000, -1000000, 1000000):
            if len(preimages(zone, w_us + dlt)) != 1:
                edge = True
    classes = ['wall:' + status + (':at-edge' if edge else ''), 'wall:zone:' + zone_class(zone),
               'wall:fraction-digits=%d' % len(frac), 'wall:parse-' + how]
    stats.case(case, nontrivial=status != 'unique' or edge, classes=classes)
    text_plain = '%04d-%02d-%02d %02d:%02d:%02d' % (y, mo, d, h, mi, s) + ('.' + frac if frac else '')
    judge_parse(T, stats, 'wall', case, text_plain, zone, tz_as, how, pre)


def pred_order(case, stats):
    T = _impl()
    a, b = float(case['a']), float(case['b'])
    count_excluded(case, stats)
    ta, tb = T.timestamp(a), T.timestamp(b)
    sa, sb = str(ta), str(tb)
    gap = abs(fractions.Fraction(a) - fractions.Fraction(b))
    classes = ['ord:' + ('same-instant' if a == b else 'under-0.5ms' if gap < fractions.Fraction(1, 2000) else
                         'under-1ms' if gap < fractions.Fraction(1, 1000) else
                         'under-1.5ms' if gap < fractions.Fraction(3, 2000) else 'apart'),
               'ord:renderings-' + ('equal' if sa == sb else 'differ')]
    if a < 0 or b < 0:
        classes.append('ord:pre-epoch')
    stats.case(case, nontrivial=gap < fractions.Fraction(3, 2000), classes=classes)

    # are the renderings themselves right?  (a wrong rendering is a rendering defect, not an ordering one)
    wrong = False
    w = []
    for t, s in ((a, sa), (b, sb)):
        m = TEXT_RE.match(s)
        if m is None or len(m.group(7) or '') != 3 or m.group(8) is not None:
            stats.fail('order', 'render:malformed-text', case, observed=s, expected='YYYY-MM-DD HH:MM:SS.fff')
            wrong = True
            continue
        w.append(wall_to_us(*[int(g) for g in m.groups()[:6]], frac=m.group(7)))
        bad = judge_render(t, 3, [w[-1]])
        if bad is not None:
            stats.fail('order', bad[0], case, observed={'text': s, 'detail': bad[1]},
                       expected='the UTC time of instant %r to the millisecond' % (t,))
            wrong = True
    lt, gt, le, ge, eq, ne = ta < tb, ta > tb, ta <= tb, ta >= tb, ta == tb, ta != tb
    if lt != (tb > ta) or gt != (tb < ta) or eq != (tb == ta):
        # a<b is evaluated as a+eps<b and b>a as b-eps>a: at exactly one epsilon apart the two float roundings may
        # differ.  The statement only relates each comparison to the renderings (both orientations are generated),
        # so this is counted, not failed.
        stats.count('ord:observed:a-op-b-and-b-op-a-not-mirror-images')
    obs = {'str(a)': sa, 'str(b)': sb, '<': lt, '>': gt, '<=': le, '>=': ge, '==': eq, '!=': ne}
    incons = []
    if lt and gt:
        incons.append('a<b and a>b')
    if le != (not gt):
        incons.append('<= is not the negation of >')
    if ge != (not lt):
        incons.append('>= is not the negation of <')
    if eq != (not ne):
        incons.append('== is not the negation of !=')
    if ne != (lt or gt):
        incons.append('!= is not (< or >)')
    if incons:
        stats.fail('order', 'order:operators-inconsistent', case, observed=dict(obs, inconsistent=incons),
                   expected='six mutually consistent operators')
    if wrong:
        return
    if lt and not sa < sb:
        stats.fail('order', 'order:less-than-contradicts-renderings', case, observed=obs, expected='a<b implies str(a)<str(b)')
    if gt and not sa > sb:
        stats.fail('order', 'order:greater-than-contradicts-renderings', case, observed=obs, expected='a>b implies str(a)>str(b)')
    if sa == sb and not (eq and le and ge and not lt and not gt and not ne):
        stats.fail('order', 'order:equal-renderings-compare-unequal', case, observed=obs,
                   expected='equal renderings compare equal')
    # Instants nearer than the rendering resolution may compare equal although their renderings differ (class
    # docstring: epsilon = 10^-3 = resolution of the rendering).  One epsilon plus two half-millisecond roundings is
    # 2 ms; an "equal" (or <=, >= against the order of the renderings) verdict for renderings further apart is a
    # contradiction.
    apart_ms = abs(w[0] - w[1]) // 1000
    if eq and sa != sb:
        stats.count('ord:observed:compare-equal-renderings-%s-ms-apart' % (apart_ms if apart_ms <= 2 else 'over-2'))
    if apart_ms > 2 and ((sa < sb and ge) or (sa > sb and le)):
        stats.fail('order', 'order:renderings-over-2ms-apart-compare-equal', case, observed=dict(obs, renderings_apart_ms=apart_ms),
                   expected='instants whose renderings are more than 2 ms apart compare in the order of the renderings')


def pred_duration(case, stats):
    T = _impl()
    us = int(case['us'])
    td = datetime.timedelta(microseconds=us)
    sub = us % US
    whole = us // US
    try:
        text = str(T.duration(td))
    except Exception as exc:
        stats.case(case, nontrivial=False, classes=['dur:format-raises'])
        stats.fail('duration', 'duration:format-raises:' + type(exc).__name__, case, observed=str(exc)[:300],
                   expected='a text')
        return
    form = ('zero' if us == 0 else 'fraction' if '.' in text else 'us' if text.endswith('us') else
            'ms' if text.endswith('ms') else 'whole-units')
    boundary = any(whole % unit == unit - 1 for unit in (60, 3600, 86400, 604800, 31557600)) and whole > 0
    classes = ['dur:form:' + form, 'dur:largest-unit:' + (
        'y' if whole >= 31557600 else 'w' if whole >= 604800 else 'd' if whole >= 86400 else 'h' if whole >= 3600 else
        'm' if whole >= 60 else 's' if whole >= 1 else 'sub-second')]
    if boundary:
        classes.append('dur:one-second-below-a-unit')
    stats.case(case, nontrivial=bool((sub and whole) or boundary), classes=classes)
    try:
        back = T.duration(text).timedelta
    except Exception as exc:
        stats.fail('duration', 'duration:own-text-rejected', case, observed={'text': text, 'raised': '%s: %s' % (type(exc).__name__, str(exc)[:200])},
                   expected=repr(td))
        return
    if back != td:
        stats.fail('duration', 'duration:round-trip-differs:' + form, case,
                   observed={'text': text, 'parsed_us': (back.days * 86400 + back.seconds) * US + back.microseconds},
                   expected={'us': us})
    try:
        secs = T.parse_seconds(text)
    except Exception as exc:
        stats.fail('duration', 'duration:parse_seconds-rejects', case, observed={'text': text, 'raised': '%s: %s' % (type(exc).__name__, str(exc)[:200])},
                   expected=td.total_seconds())
        return
    if secs != td.total_seconds():
        stats.fail('duration', 'duration:parse_seconds-differs', case, observed={'text': text, 'seconds': secs},
                   expected=td.total_seconds())


def pred_offset(case, stats):
    T = _impl()
    x = float(case['x'])
    secs = abs(fractions.Fraction(x)) % 60
    to60 = secs >= fractions.Fraction(599995, 10000)
    stats.case(case, nontrivial=bool(to60), classes=['off:' + ('negative' if x < 0 else 'non-negative'),
                                                      'off:' + ('seconds-round-to-60' if to60 else 'plain'),
                                                      'off:' + ('hours>=100' if abs(x) >= 360000 else 'hours<100')])
    try:
        text = T.format_offset(x, ms=True)
        back = float(T.parse_offset(text))
    except Exception as exc:
        stats.fail('offset', 'offset:raises:' + type(exc).__name__, case, observed=str(exc)[:300], expected=x)
        return
    if abs(fractions.Fraction(back) - fractions.Fraction(x)) > fractions.Fraction(1, 2000) + fractions.Fraction(1, 10 ** 9):
        stats.fail('offset', 'offset:round-trip-differs', case, observed={'text': text, 'parsed': back}, expected=x)


CLAUSES = {'roundtrip': pred_roundtrip, 'wall': pred_wall, 'order': pred_order, 'duration': pred_duration,
           'offset': pred_offset}

# ------------------------------------------------------------------------------------------------
# exclusion of known classes, by construction


def known_exclusions():
    known = common.known_sigs(PID)
    return frozenset(s for s in (SIG_F2, SIG_F3) if s in known)


def _whole(t):
    return float(t // 1)


def excl_roundtrip(case, excl):
    out = []
    if SIG_F2 in excl and case['t'] < 0 and case['t'] != _whole(case['t']):
        case['t'] = _whole(case['t'])
        out.append(EXCL_F2)
    excl_zone_in_text(case, excl, out)
    if out:
        case['excluded'] = out
    return case


def excl_zone_in_text(case, excl, out):
    if (SIG_F3 in excl and case['zone'] is not None and case.get('parse') == 'embedded'
            and case.get('detail', 'name') == 'name' and any(c in case['zone'] for c in SEPARATOR_CHARS)):
        case['parse'] = 'argument'
        out.append(EXCL_F3)


def excl_wall(case, excl):
    out = []
    excl_zone_in_text(case, excl, out)
    if out:
        case['excluded'] = out
    return case


def excl_order(case, excl):
    out = []
    if SIG_F2 in excl:
        for k in ('a', 'b'):
            if case[k] < 0 and case[k] != _whole(case[k]):
                case[k] = _whole(case[k])
                out.append(EXCL_F2)
    if out:
        case['excluded'] = out
    return case


SENTINELS = {
    SIG_F2: [('roundtrip', {'t': -0.25, 'zone': None, 'ms': True, 'tz_as': 'name', 'parse': 'embedded'})],
    SIG_F3: [('roundtrip', {'t': 86400.0, 'zone': 'W-SU', 'ms': True, 'tz_as': 'name', 'parse': 'embedded'})],
}

# ------------------------------------------------------------------------------------------------
# generators

MS_CHOICES = [True, True, True, False, 0, 1, 2, 3, 4, 5, 6]
GRID_DELTAS = [0.0, 1e-7, -1e-7, 4.9e-4, -4.9e-4, 5e-4, -5e-4, 5.1e-4, -5.1e-4]
CARRY_FRACTIONS = [0.9995, 0.99951, 0.9996, 0.9999, 0.99995, 0.999995, 0.9999995, 0.9999996, 0.9999999]
YEAR_STARTS = [int((datetime.datetime(y, 1, 1) - EPOCH).total_seconds()) for y in range(1875, 2129)]
NEAR_FRACTIONS = [0.0, 0.0004, 0.0005, 0.5, 0.9995, 0.9999996]
PAIR_DELTAS = [0.0, 1e-7, 4e-4, 4.9e-4, 5e-4, 5.1e-4, 9.9e-4, 9.99e-4, 0.001, 0.0010000001, 0.00100001, 0.00101,
               0.0014, 0.0015, 0.0016, 0.002, 0.0025, 0.003, 0.004, 0.0099, 0.01, 1.0]
N_HUG, N_PROBE = 25, 13


def clamp(t):
    return float(min(HI, max(LO, t)))


def hug_deltas(d):
    """Offsets (seconds) from a transition whose utcoffset changes by d: the transition itself and the edges of
    the fold/gap it makes, each with the sub-millisecond neighbours that round across it."""
    d = abs(d)
    out = []
    for base in (-d, 0, d):
        out.extend([base - 1, base - 0.0006, base - 0.0004, base, base + 0.0004, base + 0.0006, base + 1])
    out.extend([-d / 2, d / 2, -d - 3600, d + 3600])
    return out


def wall_probes(T0, o1, o2):
    """Wall-clock instants (integer microseconds) around the gap/fold [T0+min(o), T0+max(o)) of a transition."""
    lo, hi = (T0 + min(o1, o2)) * US, (T0 + max(o1, o2)) * US
    return [lo - US, lo - 1000, lo - 1, lo, lo + 1, lo + 1000, (lo + hi) // 2, hi - US, hi - 1000, hi - 1, hi, hi + 1000,
            hi + US]


_USABLE = {}


def usable_transitions(zone):
    u = _USABLE.get(zone)
    if u is None:
        ts, offs = table(zone)
        u = _USABLE[zone] = [(ts[i], offs[i], offs[i + 1]) for i in range(len(ts))
                             if LO + 200000 <= ts[i] <= HI - 200000]
    return u


def wall_case(zone, w_us, ndigits, tz_as, how):
    wall, sub = us_to_wall(w_us)
    frac = ('%06d' % sub)[:ndigits]
    return {'zone': zone, 'wall': wall, 'frac': frac, 'tz_as': tz_as, 'parse': how}


# Strategies are built once (building and validating a strategy inside a composite costs milliseconds per draw).
S_BOUNDARY_SECONDS = st.one_of(
    st.integers(LO, HI - 1),
    st.builds(lambda k: 60 * k - 1, st.integers(LO // 60 + 1, HI // 60)),
    st.builds(lambda k: 86400 * k - 1, st.integers(LO // 86400 + 1, HI // 86400)),
    st.builds(lambda s: s - 1, st.sampled_from(YEAR_STARTS)))
S_INSTANT = st.one_of(
    st.floats(LO, HI, allow_nan=False),
    st.builds(lambda k, d: clamp(k / 1000 + d), st.integers(LO * 1000, HI * 1000), st.sampled_from(GRID_DELTAS)),
    st.builds(lambda n, f: clamp(n + f), S_BOUNDARY_SECONDS,
              st.one_of(st.sampled_from(CARRY_FRACTIONS), st.floats(0.9995, 0.9999999))),
    st.builds(float, st.integers(LO, HI)))
S_ZONE = st.one_of(st.sampled_from(ZONES), st.sampled_from(ZONES), st.sampled_from(ZONES), st.sampled_from(SEP_ZONES))
S_INDEX = st.integers(0, 2 ** 20)
S_NEAR = st.one_of(st.tuples(st.just('hug'), st.integers(0, N_HUG - 1)),
                   st.tuples(st.just('free'), st.floats(-7300, 7300)),
                   st.tuples(st.just('free'), st.builds(lambda n, f: n + f, st.integers(-3601, 3601),
                                                       st.sampled_from(NEAR_FRACTIONS))))
S_MS = st.sampled_from(MS_CHOICES)
S_TZ_AS = st.sampled_from(['name', 'object'])
S_HOW = st.sampled_from(['embedded', 'embedded', 'argument'])
S_DETAIL = st.sampled_from(['name', 'name', 'name', 'numeric'])
S_DIGITS = st.sampled_from([0, 0, 1, 2, 3, 3, 3, 4, 5, 6, 6])
S_WALL_NEAR = st.one_of(st.tuples(st.just('probe'), st.integers(0, N_PROBE - 1)),
                        st.tuples(st.just('free'), st.integers(0, 2 ** 40)))
S_WALL_ANY = st.integers((LO + 200000) * US, (HI - 200000) * US)
S_PAIR = st.one_of(st.tuples(st.just('free'), S_INSTANT),
                   st.tuples(st.just('near'), st.floats(-0.003, 0.003)),
                   st.tuples(st.just('near'), st.builds(lambda d, s: d * s, st.sampled_from(PAIR_DELTAS),
                                                       st.sampled_from([1, -1]))),
                   st.tuples(st.just('near'), st.builds(lambda d, s: d * s, st.sampled_from(PAIR_DELTAS),
                                                       st.sampled_from([1, -1]))))


@st.composite
def roundtrip_cases(draw, excl=frozenset()):
    zone = None if draw(S_INDEX) % 5 == 0 else draw(S_ZONE)
    trs = usable_transitions(zone) if zone else []
    if trs and draw(S_INDEX) % 3:
        T0, o1, o2 = trs[draw(S_INDEX) % len(trs)]
        kind, v = draw(S_NEAR)
        t = clamp(T0 + (hug_deltas(o2 - o1)[v] if kind == 'hug' else v))
    else:
        t = draw(S_INSTANT)
    case = {'t': t, 'zone': zone, 'ms': draw(S_MS), 'tz_as': draw(S_TZ_AS) if zone else 'name',
            'parse': draw(S_HOW) if zone else 'embedded', 'detail': draw(S_DETAIL) if zone else 'name'}
    return excl_roundtrip(case, excl)


@st.composite
def wall_cases(draw, excl=frozenset()):
    zone = draw(S_ZONE)
    trs = usable_transitions(zone)
    if trs and draw(S_INDEX) % 4:
        T0, o1, o2 = trs[draw(S_INDEX) % len(trs)]
        kind, v = draw(S_WALL_NEAR)
        if kind == 'probe':
            w_us = wall_probes(T0, o1, o2)[v]
        else:
            lo, hi = (T0 + min(o1, o2) - 4000) * US, (T0 + max(o1, o2) + 4000) * US
            w_us = lo + v % (hi - lo)
    else:
        w_us = draw(S_WALL_ANY)
    case = wall_case(zone, w_us, draw(S_DIGITS), draw(S_TZ_AS), draw(S_HOW))
    return excl_wall(case, excl)


@st.composite
def order_cases(draw, excl=frozenset()):
    a = draw(S_INSTANT)
    kind, v = draw(S_PAIR)
    b = v if kind == 'free' else clamp(a + v)
    return excl_order({'a': a, 'b': b}, excl)


UNITS = [('y', 31557600, 300), ('w', 604800, 52), ('d', 86400, 6), ('h', 3600, 23), ('m', 60, 59), ('s', 1, 59)]
SUBSECONDS = [0, 1, 10, 100, 999, 1000, 1001, 10000, 100000, 500000, 999000, 999999]
S_UNIT_COUNTS = st.tuples(*[st.one_of(st.just(0), st.just(0), st.just(top), st.integers(0, top), st.integers(0, 3))
                            for _, _, top in UNITS])
S_SUBSECOND = st.one_of(st.just(0), st.just(0), st.integers(0, 999999), st.builds(lambda k: k * 1000, st.integers(0, 999)),
                        st.integers(0, 999), st.sampled_from(SUBSECONDS))
S_RAW_SECONDS = st.one_of(st.none(), st.none(), st.none(), st.none(), st.none(), st.none(), st.none(), st.none(),
                          st.integers(0, 300 * 31557600),
                          st.sampled_from([31557600, 31536000, 31557599, 604799, 86399, 3599, 59, 60, 61]))
S_DURATION = st.builds(
    lambda counts, sub, raw: {'us': (raw if raw is not None else sum(n * u[1] for n, u in zip(counts, UNITS))) * US + sub},
    S_UNIT_COUNTS, S_SUBSECOND, S_RAW_SECONDS)
S_OFFSET = st.builds(
    lambda m, s: {'x': m * s},
    st.one_of(st.floats(0, 999999, allow_nan=False),
              st.builds(lambda k, f: 60 * k + f, st.integers(0, 16000),
                        st.sampled_from([0.0, 59.9994, 59.9995, 59.9996, 59.99951, 59.9999, 0.0004, 0.0005, 30.5])),
              st.builds(float, st.integers(0, 999999))),
    st.sampled_from([1.0, -1.0]))


# ------------------------------------------------------------------------------------------------
# small deterministic enumerations (no seed): comparison pairs, durations, offsets

ORDER_BASES = ([float(x) for x in (0, 1, 59, 86399, 10 ** 9, 1414915323, 1399326141, 2 ** 31 - 1, 2 ** 31, 2 ** 32, HI - 1,
                                   -1, -2, -86400, -10 ** 9, LO + 1)]
               + [1.9995, 1414915323.1215, 1414915323.122, 1399326141.999836, 0.0005, 0.001, 1e9 + 0.0625, 4.9e9 + 0.5])


def enum_order(excl, stats):
    n = 0
    for base in ORDER_BASES:
        for da in GRID_DELTAS:
            for d in PAIR_DELTAS:
                for sign in (1, -1):
                    case = excl_order({'a': clamp(base + da), 'b': clamp(base + da + sign * d)}, excl)
                    common.run_pred(pred_order, case, stats, 'order')
                    n += 1
    return n


def enum_utc(excl, stats):
    n = 0
    for base in ORDER_BASES + [float(y - 1) for y in YEAR_STARTS[::16]]:
        for f in GRID_DELTAS + CARRY_FRACTIONS + [0.5, 0.25, 0.123456, 0.0625]:
            for ms in (True, False, 1, 2, 4, 5, 6):
                case = excl_roundtrip({'t': clamp(base + f), 'zone': None, 'ms': ms, 'tz_as': 'name', 'parse': 'embedded'}, excl)
                common.run_pred(pred_roundtrip, case, stats, 'roundtrip')
                n += 1
    return n


def enum_duration(stats):
    import itertools
    n = 0
    for counts in itertools.product(*[(0, 1, top) for _, _, top in UNITS]):
        whole = sum(c * u[1] for c, u in zip(counts, UNITS))
        for sub in SUBSECONDS:
            common.run_pred(pred_duration, {'us': whole * US + sub}, stats, 'duration')
            n += 1
    return n


def enum_offset(stats):
    n = 0
    for k in (0, 1, 59, 60, 61, 3599, 3600, 86399, 86400, 359999, 360000):
        for f in (0.0, 0.0004, 0.0005, 0.4995, 0.9994, 0.9995, 0.9996):
            for sign in (1.0, -1.0):
                common.run_pred(pred_offset, {'x': sign * (k + f)}, stats, 'offset')
                n += 1
    return n


# ------------------------------------------------------------------------------------------------
# enumeration of every transition of every zone


def enum_zone(zone, thorough, excl, stats):
    trs = usable_transitions(zone)
    # the zone once, away from any transition handling: fixed instants at every precision
    n = 0
    for t in (0.0, 86400.0, 1e9 + 0.123456, 1.7e9 + 0.9996, 4.2e9 + 0.5, -1e9, -2.5e9 + 0.75):
        for ms in (True, False, 1, 6):
            case = excl_roundtrip({'t': t, 'zone': zone, 'ms': ms, 'tz_as': ('name', 'object')[n % 2],
                                   'parse': ('embedded', 'argument')[(n // 2) % 2]}, excl)
            common.run_pred(pred_roundtrip, case, stats, 'roundtrip')
            n += 1
    for i, (T0, o1, o2) in enumerate(trs):
        deltas = hug_deltas(o2 - o1)
        probes = wall_probes(T0, o1, o2)
        if not thorough:
            deltas = [deltas[(i * 4 + k * 7) % len(deltas)] for k in range(4)]
            probes = [probes[(i * 3 + k * 5) % len(probes)] for k in range(3)]
        for k, dlt in enumerate(deltas):
            j = i + k
            case = excl_roundtrip({'t': clamp(T0 + dlt), 'zone': zone, 'ms': MS_CHOICES[j % len(MS_CHOICES)],
                                   'tz_as': ('name', 'object')[j % 2], 'parse': ('embedded', 'embedded', 'argument')[j % 3],
                                   'detail': 'numeric' if j % 5 == 4 else 'name'}, excl)
            common.run_pred(pred_roundtrip, case, stats, 'roundtrip')
        for k, w_us in enumerate(probes):
            j = i + k
            nd = 6 if w_us % 1000 else (0, 3, 6, 1, 2)[j % 5] if w_us % US == 0 else (3, 6, 4, 5)[j % 4]
            case = excl_wall(wall_case(zone, w_us, nd, ('name', 'object')[j % 2], ('embedded', 'argument', 'embedded')[j % 3]),
                             excl)
            common.run_pred(pred_wall, case, stats, 'wall')
    stats.count('enum:zones')
    stats.count('enum:transitions', len(trs))
    if not trs:
        stats.count('enum:zones-without-transition')


def shard_enum(job):
    thorough, excl, idx, nsh = job
    s = Stats()
    for i, zone in enumerate(ZONES):
        if i % nsh == idx:
            enum_zone(zone, thorough, excl, s)
    return s


def shard_small(excl):
    s = Stats()
    enum_order(excl, s)
    enum_utc(excl, s)
    enum_duration(s)
    enum_offset(s)
    return s


def shard_random(job):
    seed, shard, n, excl = job
    s = Stats()
    sd = common.shard_seed(seed, shard)
    common.hyp_run(s, roundtrip_cases(excl), pred_roundtrip, n, sd, 'roundtrip', PID)
    common.hyp_run(s, wall_cases(excl), pred_wall, n // 2, sd + 1, 'wall', PID)
    common.hyp_run(s, order_cases(excl), pred_order, n, sd + 2, 'order', PID)
    common.hyp_run(s, S_DURATION, pred_duration, n, sd + 3, 'duration', PID)
    common.hyp_run(s, S_OFFSET, pred_offset, n // 4, sd + 4, 'offset', PID)
    return s


def run(tier, seed):
    thorough = tier == 'thorough'
    stats = Stats()
    excl = known_exclusions()
    _impl()
    prime_tables()
    for sig in sorted(excl):
        for clause, case in SENTINELS[sig]:
            common.run_pred(CLAUSES[clause], dict(case), stats, clause)
    nsh = 64
    common.parallel(shard_enum, [(thorough, excl, i, nsh) for i in range(nsh)], stats=stats)
    stats.exhaustive['transitions'] = (
        'every utcoffset transition between %d and %d (UTC seconds) of every zone in zoneinfo.available_timezones() '
        '(%d zones): %s of the 25 hugging instants (render+parse; every 5th with the numeric offset) and %s of the 13 wall-clock probes around its '
        'gap/fold; plus 7 fixed instants x 4 precisions per zone'
        % (LO + 200000, HI - 200000, len(ZONES), 'all' if thorough else '4 (rotating)', 'all' if thorough else '3 (rotating)'))
    common.parallel(shard_small, [excl], stats=stats)
    stats.exhaustive['order-pairs'] = ('%d base instants x 9 grid deltas x %d pair distances x 2 signs'
                                       % (len(ORDER_BASES), len(PAIR_DELTAS)))
    stats.exhaustive['utc-renderings'] = ('%d base instants (incl. the last second of every 16th year) x 22 fractions x 7 precisions, '
                                         'rendered in UTC without zone suffix' % (len(ORDER_BASES) + len(YEAR_STARTS[::16])))
    stats.exhaustive['durations'] = 'every combination of {0, 1, max} per unit (y<=300 w d h m s) x 12 sub-second values'
    stats.exhaustive['offsets'] = '11 whole-second magnitudes x 7 fractions x 2 signs'
    n = 12000 if thorough else 1000
    shards = 32 if thorough else 16
    common.parallel(shard_random, [(seed, i, n, excl) for i in range(shards)], stats=stats)
    return stats
