"""
C20 -- tnetstring serialisation round-trips and the streaming parser agrees with it
(server/tnetstrings.py: dump/parse; server/tnet.py: tnet_machine/tnet_from; automata.py: chainable, dfa).

Clauses
-------
roundtrip  parse(dump(v)) == (v', b'') with v' equal to v *and of the same type at every node*; with a
           tail appended, parse returns the tail untouched.            Oracle: the generated value itself.
stream     dump(v1)+dump(v2)+..+tail cut into chunks and fed to tnet_machine exactly the way
           tnet.tnet_from does it (chain a chunk only when the machine yields a non-transition and the
           source is empty; the same engine is run again for the next message with a fresh dotdict).  For
           the types the machine implements (bytes ',' text '$' int '#' null '~'): terminal, payload == v
           (type exact), source.sent == end of the message, the next symbol is the first tail byte, nothing
           beyond the chunk holding the message's last byte was needed, the rest of the source is the
           tail, byte for byte.  For the tags it lists but does not implement (^ ! ] }) it must raise and
           must not consume past the message (or, if ever implemented, deliver the right value).  The same
           chunks are then also pushed through the real tnet.tnet_from generator (fake connection object,
           real network.recv/select) and the yielded messages / source.sent compared.
raw        raw frames SIZE ':' DATA TYPE (+tail) with a digits-only SIZE as documented in tnet.py, DATA that
           need not be what dump() would write.  (a) an independent reference parser written from the
           grammar decides the value: tnetstrings.parse and the machine must both deliver it and stop at
           the frame end; (b) where the reference rejects but tnetstrings.parse accepts a scalar of a
           machine-supported type (lenient int spellings), the machine must agree with parse
           (differential); (c) otherwise nothing is required except termination.  Also the target of the
           optional atheris run (thorough tier).
"""
from __future__ import annotations

import collections
import json
import math
import os
import zlib
import re
import shutil
import subprocess
import sys
import tempfile
import traceback

from hypothesis import strategies as st

from .. import common
from ..common import Stats, hx, unhx

PID = 'C20'
LEVEL = 'exploration'
RULE = ('roundtrip cases = (recursive value of int/float/bool/None/bytes/text/list/dict-with-ASCII-keys, tail bytes); '
        'stream cases = (1..3 values, tail, chunking of the concatenated serialisation) run through tnet_machine with the '
        'tnet_from feeding discipline and through tnet_from itself; raw cases = (SIZE:DATA TYPE frame + tail, chunking) '
        'judged by an independent reference parser.  Hypothesis-drawn, plus an exhaustive set of all two-way splits of a '
        'fixed corpus and a ladder of payload sizes across every digit-count boundary of the length prefix.  '
        'non-trivial = a payload/key containing ":" or a type-tag byte or starting with a digit, multi-byte text, '
        'nesting >= 3, a float/bool/None node inside a container (type exactness at risk), a chunk cut inside a size '
        'prefix, a second message parsed on the same machine, or a raw frame whose DATA is not what dump() writes')
ASSUMPTIONS = [
    'dictionary keys are ASCII str (documented restriction of dump); text is surrogate-free (UTF-8 encodable); '
    'tuples are not generated (documented to come back as lists)',
    'integers are bounded by |v| <= 10**400 (CPython refuses int<->str beyond 4300 digits; not a cpppo limit)',
    'nesting depth <= ~50 (3 Python frames per level in dump; kept far below the interpreter recursion limit)',
    'chunks are non-empty (a zero-length recv means EOF to tnet_from); chunks longer than 4096 bytes are delivered to '
    'tnet_from in 4096-byte reads, as network.recv would',
    'the streaming machine is required to handle only a SIZE of 1..9 ASCII digits (grammar in tnet.py); '
    'tnetstrings.parse accepting " 3:" or "+3:" is outside the compared domain',
    'NaN is compared by isnan, all other floats by ==; trusted base: CPython int()/float()/utf-8 codec, Hypothesis, '
    'and the 40-line reference encoder/parser in this module',
]
MIN_EVALUATIONS = {'quick': 20000, 'thorough': 600000}

SUPPORTED_TAGS = b',$#~'
LISTED_UNIMPLEMENTED_TAGS = b'^!]}'
DELIMS = frozenset(b':,#$~!^]}?')
INT_LIMIT = 10 ** 400
# development aid only: scales the *thorough* case counts (a scaled run falls below MIN_EVALUATIONS => exit 2)
SCALE = float(os.environ.get('VP_C20_SCALE', '1') or '1')


def _impl():
    import cpppo
    from cpppo.server import tnet, tnetstrings
    return cpppo, tnet, tnetstrings


# ------------------------------------------------------------------------------------------------
# case <-> value.  A value is carried as a small tagged JSON tree ("node") so that types survive JSON:
#   {"n":0} None   {"b":true} bool   {"i":"123"} int   {"f":"0x1.8p+1"} float (float.hex, or nan/inf)
#   {"y":"6162"} bytes (hex)   {"s":"text"} str   {"l":[node..]} list   {"d":[[key,node]..]} dict
#   {"yd":node} bytes that are the reference serialisation of another value (payload looks like a message)
#   {"y*":[hex,n]} bytes pattern * n   {"s*":[text,n]} text * n   {"l*":[node,n]} list of n copies
#   {"d*":[node,n]} dict {"k0":v,.."k<n-1>":v}                      (large values stay small as cases)


def dec(node):
    (tag, x), = node.items()
    if tag == 'n':
        return None
    if tag == 'b':
        return bool(x)
    if tag == 'i':
        return int(x)
    if tag == 'f':
        return float.fromhex(x)
    if tag == 'y':
        return unhx(x)
    if tag == 's':
        return x
    if tag == 'l':
        return [dec(c) for c in x]
    if tag == 'd':
        return {k: dec(c) for k, c in x}
    if tag == 'yd':
        return ref_dump(dec(x))
    if tag == 'y*':
        return unhx(x[0]) * x[1]
    if tag == 's*':
        return x[0] * x[1]
    if tag == 'l*':
        return [dec(x[0]) for _ in range(x[1])]
    if tag == 'd*':
        return {'k%d' % i: dec(x[0]) for i in range(x[1])}
    raise common.HarnessError('bad node tag %r' % (tag,))


def ref_dump(v):
    """Independent reference encoder (tnetstrings.org grammar + the '$' text tag cpppo adds)."""
    if v is None:
        return b'0:~'
    t = type(v)
    if t is bool:
        p, c = (b'true' if v else b'false'), b'!'
    elif t is int:
        p, c = str(v).encode('ascii'), b'#'
    elif t is float:
        p, c = repr(v).encode('ascii'), b'^'
    elif t is bytes:
        p, c = v, b','
    elif t is str:
        p, c = v.encode('utf-8'), b'$'
    elif t is list:
        p, c = b''.join(ref_dump(x) for x in v), b']'
    elif t is dict:
        p, c = b''.join(ref_dump(k.encode('ascii')) + ref_dump(x) for k, x in v.items()), b'}'
    else:
        raise common.HarnessError('ref_dump: %r' % (t,))
    return str(len(p)).encode('ascii') + b':' + p + c


_SIZE = re.compile(rb'([0-9]{1,9}):')
_INT = re.compile(rb'-?[0-9]{1,4000}')


def ref_parse(wire):
    """Reference reader of ONE frame with a scalar the streaming machine supports.
    -> ('ok', value, consumed) | ('unimplemented', tag, consumed) | ('reject', why)"""
    m = _SIZE.match(wire)
    if not m:
        return ('reject', 'size-not-1-9-digits')
    n = int(m.group(1))
    start = m.end()
    if len(wire) < start + n + 1:
        return ('reject', 'incomplete')
    payload, tag = wire[start:start + n], wire[start + n:start + n + 1]
    end = start + n + 1
    if tag == b',':
        return ('ok', payload, end)
    if tag == b'$':
        try:
            return ('ok', payload.decode('utf-8'), end)
        except UnicodeDecodeError:
            return ('reject', 'text-not-utf8')
    if tag == b'#':
        if _INT.fullmatch(payload):
            return ('ok', int(payload), end)
        return ('reject', 'int-not-canonical')
    if tag == b'~':
        return ('ok', None, end) if n == 0 else ('reject', 'null-with-payload')
    if tag in (b'^', b'!', b']', b'}'):
        return ('unimplemented', tag, end)
    return ('reject', 'unknown-tag')


def same(a, b):
    """None if a and b are equal with identical types at every node, else a root-cause word."""
    ta, tb = type(a), type(b)
    if ta is not tb:
        return 'type-changed:%s->%s' % (ta.__name__, tb.__name__)
    if ta is float:
        if math.isnan(a) or math.isnan(b):
            return None if (math.isnan(a) and math.isnan(b)) else 'value-differs:float-nan'
        return None if a == b else 'value-differs:float'
    if ta is list:
        if len(a) != len(b):
            return 'length-differs:list'
        for x, y in zip(a, b):
            d = same(x, y)
            if d:
                return d
        return None
    if ta is dict:
        if set(a) != set(b):
            if any(type(k) is not str for k in b):
                return 'key-type-changed'
            return 'keys-differ:dict'
        for k in a:
            d = same(a[k], b[k])
            if d:
                return d
        return None
    return None if a == b else 'value-differs:%s' % ta.__name__


def show(v, limit=160):
    r = repr(v)
    return r if len(r) <= limit else r[:limit] + '...(%d chars)' % len(r)


def exc_sig(exc):
    """Root-cause word for an exception: type @ innermost frame in the code under test."""
    tb = traceback.extract_tb(exc.__traceback__)
    where = '?'
    for fs in tb:
        fn = os.path.realpath(fs.filename)
        if fn.startswith(common.REPO + os.sep):
            where = '%s:%s' % (os.path.relpath(fn, common.REPO), fs.name)
    return 'exc:%s@%s' % (type(exc).__name__, where)


# ------------------------------------------------------------------------------------------------
# classification of a value tree (drives the evidence histogram and the non-triviality rule)


def _tricky_bytes(b):
    out = set()
    if any(c in DELIMS for c in b[:4096]):
        out.add('delims-in-bytes')
    if b[:1].isdigit():
        out.add('bytes-start-with-digit')
    if re.match(rb'[0-9]+:', b):
        out.add('bytes-look-like-size-prefix')
    return out


def features(node, depth=0, inside=False, acc=None):
    if acc is None:
        acc = {'depth': 0, 'f': set(), 'nodes': 0}
    acc['nodes'] += 1
    acc['depth'] = max(acc['depth'], depth)
    (tag, x), = node.items()
    f = acc['f']
    if tag == 'n':
        f.add('none')
        if inside:
            f.add('typed-scalar-inside-container')
    elif tag == 'b':
        f.add('bool')
        if inside:
            f.add('typed-scalar-inside-container')
    elif tag == 'i':
        v = int(x)
        f.add('int')
        if v < 0:
            f.add('int-negative')
        if abs(v) >= 2 ** 63:
            f.add('int-beyond-64bit')
    elif tag == 'f':
        v = float.fromhex(x)
        f.add('float')
        if math.isnan(v):
            f.add('float-nan')
        elif math.isinf(v):
            f.add('float-inf')
        elif v != 0 and abs(v) < 2.2250738585072014e-308:
            f.add('float-denormal')
        elif 'e' in repr(v):
            f.add('float-exponent-repr')
        if inside:
            f.add('typed-scalar-inside-container')
    elif tag in ('y', 'y*', 'yd'):
        f.add('bytes')
        if tag == 'yd':
            f.update(('bytes-are-a-tnetstring', 'delims-in-bytes', 'bytes-start-with-digit', 'bytes-look-like-size-prefix'))
        else:
            b = unhx(x) if tag == 'y' else unhx(x[0]) * min(x[1], 64)
            f.update(_tricky_bytes(b))
            if not b:
                f.add('bytes-empty')
            if tag == 'y*':
                f.add('large-scalar')
    elif tag in ('s', 's*'):
        s = x if tag == 's' else x[0] * min(x[1], 64)
        f.add('text')
        if any(ord(c) > 127 for c in s):
            f.add('text-multibyte')
        if any(ord(c) > 0xFFFF for c in s):
            f.add('text-astral')
        if any(ord(c) < 128 and ord(c) in DELIMS for c in s) or s[:1].isdigit():
            f.add('delims-in-text')
        if not s:
            f.add('text-empty')
        if tag == 's*':
            f.add('large-scalar')
    elif tag == 'l':
        f.add('list')
        if not x:
            f.add('list-empty')
        for c in x:
            features(c, depth + 1, True, acc)
    elif tag == 'd':
        f.add('dict')
        if not x:
            f.add('dict-empty')
        for k, c in x:
            if any(ord(ch) in DELIMS for ch in k) or k[:1].isdigit() or k == '':
                f.add('key-tricky')
            features(c, depth + 1, True, acc)
    elif tag in ('l*', 'd*'):
        f.add('list' if tag == 'l*' else 'dict')
        f.add('large-container')
        features(x[0], depth + 1, True, acc)
    return acc


NONTRIVIAL_FEATURES = {'delims-in-bytes', 'bytes-start-with-digit', 'bytes-look-like-size-prefix', 'text-multibyte',
                       'delims-in-text', 'key-tricky', 'typed-scalar-inside-container', 'bytes-are-a-tnetstring'}


def top_kind(node):
    (tag, _), = node.items()
    return {'n': 'none', 'b': 'bool', 'i': 'int', 'f': 'float', 'y': 'bytes', 'yd': 'bytes', 'y*': 'bytes', 's': 'text',
            's*': 'text', 'l': 'list', 'l*': 'list', 'd': 'dict', 'd*': 'dict'}[tag]


def depth_bucket(d):
    return 'depth:0' if d == 0 else 'depth:1-2' if d <= 2 else 'depth:3-6' if d <= 6 else 'depth:7+'


# ------------------------------------------------------------------------------------------------
# clause: roundtrip


def pred_roundtrip(case, stats):
    _, _, tnetstrings = _impl()
    node = case['v']
    tail = unhx(case.get('tail', ''))
    ft = features(node)
    classes = ['rt:top:' + top_kind(node), 'rt:' + depth_bucket(ft['depth'])] + ['rt:has:' + x for x in sorted(ft['f'])]
    classes.append('rt:tail:' + ('none' if not tail else 'message' if ref_parse(tail)[0] != 'reject' else 'bytes'))
    stats.case(case, nontrivial=bool(ft['f'] & NONTRIVIAL_FEATURES) or ft['depth'] >= 3, classes=classes)

    v = dec(node)
    wire = tnetstrings.dump(v)
    if type(wire) is not bytes:
        stats.fail('roundtrip', 'roundtrip:dump-not-bytes', case, observed=show(wire), expected='bytes')
        return
    if isinstance(v, (list, dict)):
        # one object referenced twice (a value, not a cycle): the serialisation is that of two equal values
        for shared in ([v, v], {'a': v, 'b': [v]}):
            try:
                w2 = tnetstrings.dump(shared)
            except Exception as e:
                stats.fail('roundtrip', 'roundtrip:shared-subvalue-' + exc_sig(e), case, observed=show(e), expected='dump of a value holding one object twice')
                return
            if w2 != ref_dump(shared):
                stats.fail('roundtrip', 'roundtrip:shared-subvalue-serialised-differently', case, observed=show(w2), expected=show(ref_dump(shared)))
                return
    res = tnetstrings.parse(wire)
    if not (isinstance(res, tuple) and len(res) == 2):
        stats.fail('roundtrip', 'roundtrip:parse-result-shape', case, observed=show(res), expected='(value, remain)')
        return
    d = same(v, res[0])
    if d:
        stats.fail('roundtrip', 'roundtrip:' + d, case, observed={'wire': show(wire), 'parsed': show(res[0])},
                   expected={'value': show(v)})
    if res[1] != b'' or type(res[1]) is not bytes:
        stats.fail('roundtrip', 'roundtrip:remain-not-empty', case, observed={'wire': show(wire), 'remain': show(res[1])},
                   expected="b'' (the whole string is consumed)")
    # the same round trip with a text encoding named by the caller (documented parameter of dump and parse): every text value and
    # every dictionary key, at any depth, travels in that encoding
    texts = []

    def walk(x):
        if isinstance(x, str):
            texts.append(x)
        elif isinstance(x, (list, tuple)):
            for y in x:
                walk(y)
        elif isinstance(x, dict):
            for k, y in x.items():
                walk(k)
                walk(y)
    walk(v)
    if texts:
        encs = ['utf-16-le', 'utf-32-be'] + (['latin-1'] if all(ord(ch) < 256 for t in texts for ch in t) else [])
        enc = encs[zlib.crc32(wire) % len(encs)]
        try:
            back = tnetstrings.parse(tnetstrings.dump(v, encoding=enc), encoding=enc)
        except (UnicodeError, ValueError, TypeError, LookupError) as e:
            # every text of this value is encodable in enc (chosen so): a codec error means some part travelled in another encoding
            stats.fail('roundtrip', 'roundtrip:encoding-parameter:exc:' + type(e).__name__, case, observed={'encoding': enc, 'exc': show(e)},
                       expected={'value': show(v)})
            back = None
        if back is not None:
            d = same(v, back[0])
            if d or back[1] != b'':
                stats.fail('roundtrip', 'roundtrip:encoding-parameter:' + (d or 'remain-not-empty'), case,
                           observed={'encoding': enc, 'parsed': show(back[0])}, expected={'value': show(v)})
        stats.count('rt:encoding:' + enc)
    if tail:
        res2 = tnetstrings.parse(wire + tail)
        d = same(v, res2[0])
        if d:
            stats.fail('roundtrip', 'roundtrip:with-tail:' + d, case,
                       observed={'wire': show(wire + tail), 'parsed': show(res2[0])}, expected={'value': show(v)})
        if res2[1] != tail:
            stats.fail('roundtrip', 'roundtrip:tail-disturbed', case,
                       observed={'wire': show(wire + tail), 'remain': show(res2[1])}, expected={'remain': show(tail)})


# ------------------------------------------------------------------------------------------------
# chunking


def make_chunks(wire, mode, cuts):
    """'whole' one chunk; 'bytes' one symbol per chunk; 'cuts' cut positions: k>0 -> k mod len, k<0 -> from the end."""
    n = len(wire)
    if n == 0:
        return [], []
    if mode == 'whole' or n == 1:
        pos = []
    elif mode == 'bytes':
        pos = list(range(1, n))
    else:
        pos = sorted({(c % n if c > 0 else (n - ((-c) % n)) % n) for c in cuts} - {0})
    bounds = pos + [n]
    chunks, last = [], 0
    for p in bounds:
        chunks.append(wire[last:p])
        last = p
    return chunks, bounds


class _NoTermination(Exception):
    pass


_READY_FD = {}


def _ready_fd():
    """A file descriptor that select() always reports readable (a pipe holding one byte that is never read)."""
    pid = os.getpid()
    if pid not in _READY_FD:
        r, w = os.pipe()
        os.write(w, b'x')
        _READY_FD.clear()
        _READY_FD[pid] = (r, w)
    return _READY_FD[pid][0]


class FakeConn(object):
    """What tnet_from needs of a socket: fileno() for network.recv's select, recv(maxlen); b'' == EOF."""

    def __init__(self, chunks):
        self.chunks = collections.deque(chunks)
        self.delivered = 0

    def fileno(self):
        return _ready_fd()

    def recv(self, maxlen):
        if not self.chunks:
            return b''
        c = self.chunks.popleft()
        if len(c) > maxlen:
            self.chunks.appendleft(c[maxlen:])
            c = c[:maxlen]
        self.delivered += len(c)
        return c


def machine_supports(v):
    return v is None or type(v) in (bytes, str, int)


def run_machine(wire, chunks, bounds, frames, case, stats, clause):
    """frames: [(expected_value | _Unknown, supported?, end_offset)].  Feeds `chunks` the way tnet_from does."""
    cpppo, tnet, _ = _impl()
    source = cpppo.chainable()
    pending = collections.deque(chunks)
    fed = 0
    done_upto = 0
    bound = 8 * len(wire) + 200

    def fail(sig, observed, expected):
        stats.fail(clause, '%s:%s' % (clause, sig), case, observed=observed, expected=expected)

    # the machine is run under a data path of the caller's choosing (as the repository's own test does with path='tnet')
    PATH = [None, None, 'box', 'a.b'][zlib.crc32(wire) % 4]
    KEY = (PATH + '.' if PATH else '') + 'tnet.type.input'
    with tnet.tnet_machine('tnet_c20') as engine:
        for k, (v, supported, end) in enumerate(frames):
            data = cpppo.dotdict()
            steps, exc, eof = 0, None, False
            try:
                for mch, sta in engine.run(source=source, data=data, path=PATH):
                    steps += 1
                    if steps > bound:
                        raise _NoTermination()
                    if sta is not None or source.peek() is not None:
                        continue
                    if not pending:
                        eof = True
                        break
                    c = pending.popleft()
                    fed += len(c)
                    source.chain(c)
            except _NoTermination:
                fail('machine-no-termination', {'message': k, 'steps': steps, 'sent': source.sent},
                     'the machine stops at the end of the message (step bound %d for %d bytes)' % (bound, len(wire)))
                return
            except Exception as e:
                exc = e
            sent = source.sent
            if not supported:
                # tag listed in TYPES but not implemented: must fail cleanly, or (if ever implemented) be right
                if exc is None and engine.terminal and KEY in data:
                    d = None if v is _Unknown else same(v, data[KEY])
                    if d:
                        fail('unimplemented-tag-delivers-wrong-value', {'message': k, 'got': show(data[KEY])},
                             {'value': show(v), 'or': 'an exception'})
                    elif sent != end:
                        fail('sent-not-at-message-end', {'message': k, 'sent': sent}, {'sent': end})
                    else:
                        done_upto = end
                        continue
                elif exc is None:
                    fail('unimplemented-tag-no-exception', {'message': k, 'terminal': bool(engine.terminal), 'eof': eof},
                         'an exception (tag listed in tnet_parser.TYPES but not implemented)')
                elif sent > end:
                    fail('unimplemented-tag-consumed-past-message', {'message': k, 'sent': sent, 'exc': show(exc)},
                         {'sent<=': end})
                return
            if exc is not None:
                fail('machine-' + exc_sig(exc), {'message': k, 'exc': show(exc), 'sent': sent},
                     {'value': show(v), 'sent': end})
                return
            if not engine.terminal or KEY not in data:
                fail('machine-not-terminal' if not engine.terminal else 'machine-terminal-without-payload', {'message': k, 'terminal': bool(engine.terminal), 'eof': eof, 'sent': sent,
                                              'fed': fed}, {'terminal': True, 'value': show(v), 'sent': end})
                return
            got = data[KEY]
            d = same(v, got)
            if d:
                fail('machine-' + d, {'message': k, 'got': show(got)}, {'value': show(v)})
            if sent != end:
                fail('sent-past-message-end' if sent > end else 'sent-short-of-message-end', {'message': k, 'sent': sent},
                     {'sent': end})
                return
            need = min(b for b in bounds if b >= end)
            if fed != need:
                fail('needed-input-beyond-message-end', {'message': k, 'fed_when_done': fed},
                     {'fed_when_done': need, 'why': 'the message was complete after the chunk ending at %d' % need})
            nxt = source.peek()
            want = wire[end] if fed > end else None
            if nxt != want:
                fail('next-symbol-wrong', {'message': k, 'peek': nxt}, {'peek': want})
            done_upto = end
        # whatever follows the last extracted message must still be there, byte for byte
        while pending:
            source.chain(pending.popleft())
        rest = bytes(bytearray(source))
        if rest != wire[done_upto:]:
            fail('tail-disturbed', {'rest': show(rest)}, {'rest': show(wire[done_upto:])})


def run_tnet_from(wire, chunks, frames, case, stats, clause):
    """The same chunks through the real receive loop tnet.tnet_from (fake socket, real network.recv)."""
    cpppo, tnet, _ = _impl()
    source = cpppo.chainable()
    conn = FakeConn(chunks)
    # `ignore` (symbols skipped between messages, as tnet.main configures b'\n'): the streams here carry no separators, so it must
    # change nothing -- in particular not inside a payload that contains such a symbol
    ign = b'\n' if zlib.crc32(wire) % 2 else None
    gen = tnet.tnet_from(conn, ('c20', 0), source=source, ignore=ign)

    def fail(sig, observed, expected):
        stats.fail(clause, '%s:%s' % (clause, sig), case, observed=observed, expected=expected)

    try:
        for k, (v, supported, end) in enumerate(frames):
            try:
                got = next(gen)
            except StopIteration:
                if supported:
                    fail('tnet_from-message-not-delivered', {'message': k, 'sent': source.sent}, {'value': show(v)})
                return
            except Exception as e:
                if supported:
                    fail('tnet_from-' + exc_sig(e), {'message': k, 'exc': show(e)}, {'value': show(v)})
                elif source.sent > end:
                    fail('tnet_from-unimplemented-tag-consumed-past-message', {'message': k, 'sent': source.sent},
                         {'sent<=': end})
                return
            d = same(v, got)
            if d:
                fail('tnet_from-' + d, {'message': k, 'got': show(got)}, {'value': show(v)})
                return
            if source.sent != end:
                fail('tnet_from-sent-not-at-message-end', {'message': k, 'sent': source.sent}, {'sent': end})
                return
    finally:
        gen.close()


# ------------------------------------------------------------------------------------------------
# clause: stream


def cut_classes(prefix, bounds, starts, colons, ends, n):
    cls = []
    inner = [b for b in bounds if b < n]
    if not inner:
        cls.append(prefix + 'chunking:whole')
    elif len(inner) == n - 1:
        cls.append(prefix + 'chunking:bytewise')
    else:
        cls.append(prefix + 'chunking:%s-cuts' % ('1' if len(inner) == 1 else '2-4' if len(inner) <= 4 else '5+'))
    in_prefix = any(s < b <= c for b in inner for s, c in zip(starts, colons))
    if in_prefix:
        cls.append(prefix + 'cut-inside-size-prefix')
    if any(b in ends for b in inner):
        cls.append(prefix + 'cut-at-message-end')
    return cls, in_prefix


def pred_stream(case, stats):
    _, _, tnetstrings = _impl()
    nodes = case['msgs']
    tail = unhx(case.get('tail', ''))
    values = [dec(n) for n in nodes]
    feats = [features(n) for n in nodes]
    # where the frames *should* be, from the reference encoder (classification only)
    ref_frames = [ref_dump(v) for v in values]
    total = sum(map(len, ref_frames)) + len(tail)
    starts, colons, ends, pos = [], [], [], 0
    for f in ref_frames:
        starts.append(pos)
        colons.append(pos + f.index(b':'))
        pos += len(f)
        ends.append(pos)
    _, bounds_c = make_chunks(b'\0' * total, case['mode'], case.get('cuts', []))
    ccls, in_prefix = cut_classes('st:', bounds_c, starts, colons, ends, total)
    fset = set().union(*[f['f'] for f in feats])
    classes = ['st:top:' + top_kind(n) for n in nodes[:1]] + ccls
    classes.append('st:messages:%d' % len(nodes))
    classes.append('st:tail:' + ('none' if not tail else 'message' if ref_parse(tail)[0] != 'reject' else 'bytes'))
    classes += ['st:has:' + x for x in sorted(fset & (NONTRIVIAL_FEATURES | {'large-scalar', 'int-beyond-64bit', 'text-astral',
                                                                           'bytes-empty', 'text-empty'}))]
    if not all(machine_supports(v) for v in values):
        classes.append('st:unimplemented-tag-message')
    size = max(len(f) for f in ref_frames)
    classes.append('st:frame-bytes:' + ('<=12' if size <= 12 else '<=102' if size <= 102 else '<=1003' if size <= 1003 else '>1003'))
    nontrivial = bool(fset & NONTRIVIAL_FEATURES) or in_prefix or len(nodes) > 1
    stats.case(case, nontrivial=nontrivial, classes=classes)

    frames_b = [tnetstrings.dump(v) for v in values]
    wire = b''.join(frames_b) + tail
    frames, pos = [], 0
    for v, f in zip(values, frames_b):
        pos += len(f)
        frames.append((v, machine_supports(v), pos))
    chunks, bounds = make_chunks(wire, case['mode'], case.get('cuts', []))
    run_machine(wire, chunks, bounds, frames, case, stats, 'stream')
    run_tnet_from(wire, chunks, frames, case, stats, 'stream')


# ------------------------------------------------------------------------------------------------
# clause: raw


def pred_raw(case, stats):
    _, _, tnetstrings = _impl()
    wire = unhx(case['wire'])
    ref = ref_parse(wire)
    try:
        pres = ('ok',) + tuple(tnetstrings.parse(wire))
    except Exception as e:      # rejecting is an allowed outcome for anything the reference rejects
        pres = ('exc', e)
    m = _SIZE.match(wire)
    canonical = ref[0] == 'ok' and ref_dump(ref[1]) == wire[:ref[2]]

    layer = None
    if ref[0] == 'ok':
        layer = 'a'
        expect, end = ref[1], ref[2]
    elif ref[0] == 'reject' and pres[0] == 'ok' and m is not None:
        end = len(wire) - len(pres[2])
        tag = wire[end - 1:end]
        if tag and tag in SUPPORTED_TAGS and machine_supports(pres[1]):
            layer = 'b'
            expect = pres[1]
    chunks, bounds = make_chunks(wire, case['mode'], case.get('cuts', []))
    colon = (m.end() - 1) if m else -1
    ccls, in_prefix = cut_classes('raw:', bounds, [0], [colon], [ref[2]] if ref[0] != 'reject' else [], len(wire)) if wire else ([], False)
    classes = ['raw:layer:' + (layer or 'c-no-requirement'), 'raw:ref:' + (ref[0] if ref[0] != 'reject' else 'reject:' + ref[1])]
    classes.append('raw:parse:' + ('accepts' if pres[0] == 'ok' else 'raises'))
    if ref[0] == 'ok':
        classes.append('raw:' + ('as-dump-writes-it' if canonical else 'not-as-dump-writes-it'))
        classes.append('raw:tag:' + wire[ref[2] - 1:ref[2]].decode('latin-1'))
        if m.group(1).startswith(b'0') and len(m.group(1)) > 1:
            classes.append('raw:size-zero-padded')
    classes += ccls
    stats.case(case, nontrivial=(layer is not None and (not canonical or in_prefix)), classes=classes)

    if layer == 'a':
        if pres[0] != 'ok':
            stats.fail('raw', 'raw:parse-rejects-valid-frame:' + exc_sig(pres[1]), case, observed=show(pres[1]),
                       expected={'value': show(expect), 'remain': show(wire[end:])})
        else:
            d = same(expect, pres[1])
            if d:
                stats.fail('raw', 'raw:parse-' + d, case, observed=show(pres[1]), expected=show(expect))
            if pres[2] != wire[end:]:
                stats.fail('raw', 'raw:parse-remain-wrong', case, observed=show(pres[2]), expected=show(wire[end:]))
    if layer is not None:
        run_machine(wire, chunks, bounds, [(expect, True, end)], case, stats, 'raw')
    else:
        # no requirement beyond termination: run it so that a hang or an over-consumption of a complete
        # unimplemented-tag frame is still seen
        if ref[0] == 'unimplemented':
            run_machine(wire, chunks, bounds, [(_Unknown, False, ref[2])], case, stats, 'raw')
        else:
            run_bounded(wire, chunks, case, stats)


class _UnknownType(object):
    def __repr__(self):
        return '<value of an unimplemented tag>'


_Unknown = _UnknownType()


def run_bounded(wire, chunks, case, stats):
    cpppo, tnet, _ = _impl()
    source = cpppo.chainable()
    pending = collections.deque(chunks)
    bound = 8 * len(wire) + 200
    steps = 0
    with tnet.tnet_machine('tnet_c20') as engine:
        data = cpppo.dotdict()
        try:
            for mch, sta in engine.run(source=source, data=data):
                steps += 1
                if steps > bound:
                    stats.fail('raw', 'raw:machine-no-termination', case, observed={'steps': steps},
                               expected='termination within %d steps' % bound)
                    return
                if sta is not None or source.peek() is not None:
                    continue
                if not pending:
                    break
                source.chain(pending.popleft())
        except Exception:
            pass                # rejecting a frame outside the grammar is an allowed outcome


# ------------------------------------------------------------------------------------------------
# clause: sessions -- consecutive tnet_from() sessions in one process, each with the receive buffer tnet_from makes for itself


def pred_sessions(case, stats):
    """case = {'sessions': [{'msgs': [...], 'tail': hex, 'take': k, 'mode', 'cuts'}, ...]}: every session delivers its own
    messages from the first byte of its own stream, whatever an earlier session left unread (its consumer took only `take`
    messages of a stream that held more, all received in the same chunk)."""
    cpppo, tnet, tnetstrings = _impl()
    residue = False
    classes = ['ss:sessions:%d' % len(case['sessions'])]
    failures = []
    for si, sess in enumerate(case['sessions']):
        values = [dec(n) for n in sess['msgs']]
        if not all(machine_supports(v) for v in values):
            raise common.HarnessError('sessions clause generates supported message types only')
        frames = [tnetstrings.dump(v) for v in values]
        ign = unhx(sess['ign']) if sess.get('ign') else None
        if ign:
            # symbols to ignore between messages: 0..3 of them after each message, the whole stream received at once (they are
            # skipped where they are already buffered when the next message is awaited)
            seps = [bytes(ign[j % len(ign)] for j in sp) for sp in sess['seps']]
            wire = b''.join(f + seps[k % len(seps)] for k, f in enumerate(frames))
            chunks = [wire]
            classes.append('ss:ignored-symbols-between-messages:%d' % max(len(seps[k % len(seps)]) for k in range(len(frames))))
        else:
            wire = b''.join(frames) + unhx(sess.get('tail', ''))
            chunks, _ = make_chunks(wire, sess['mode'], sess.get('cuts', []))
        conn = FakeConn(chunks)
        gen = tnet.tnet_from(conn, ('c20s', si), **({'ignore': ign} if ign else {}))
        take = min(sess['take'], len(values))
        try:
            for k in range(take):
                try:
                    got = next(gen)
                except StopIteration:
                    failures.append(('sessions:message-not-delivered', {'session': si, 'message': k, 'after-a-session-with-unread-data': residue}, show(values[k])))
                    break
                except Exception as e:
                    failures.append(('sessions:' + exc_sig(e), {'session': si, 'message': k, 'exc': show(e), 'after-a-session-with-unread-data': residue}, show(values[k])))
                    break
                d = same(values[k], got)
                if d:
                    failures.append(('sessions:' + d, {'session': si, 'message': k, 'got': show(got), 'after-a-session-with-unread-data': residue}, show(values[k])))
                    break
        finally:
            gen.close()
        if failures:
            break
        if conn.delivered > sum(len(f) for f in frames[:take]):
            residue = True          # bytes beyond the consumed messages had been received when the consumer stopped
    if residue:
        classes.append('ss:a-later-session-follows-one-with-unread-received-data')
    stats.case(case, nontrivial=residue and len(case['sessions']) >= 2, classes=classes)
    for sig, obs, exp in failures[:1]:
        stats.fail('sessions', sig, case, observed=obs, expected={'value': exp})


# ------------------------------------------------------------------------------------------------
# clause: paused -- tnet_from with a timeout / latency configured, the sender pausing longer than that inside and between messages


def pred_paused(case, stats):
    """case = {'msgs', 'mode', 'cuts', 'timeout': seconds|None, 'latency': seconds|None}: a real socket pair; a feeder thread sends
    the chunks with pauses longer than the configured timeout/latency, then closes.  Whatever None results (timeouts) the generator
    yields, the messages it yields are exactly the messages sent, in order."""
    import socket
    import threading
    import time
    cpppo, tnet, tnetstrings = _impl()
    values = [dec(n) for n in case['msgs']]
    wire = b''.join(tnetstrings.dump(v) for v in values)
    chunks, _ = make_chunks(wire, case['mode'], case.get('cuts', []))
    chunks = [c for c in chunks if c][:4] or [wire]
    if b''.join(chunks) != wire:
        chunks = chunks[:3] + [wire[len(b''.join(chunks[:3])):]]
    wait = 3.0 * max(case.get('timeout') or 0, case.get('latency') or 0, 0.02)
    a, b = socket.socketpair()
    stats.case(case, nontrivial=len(chunks) > 1, classes=['paused:chunks:%d' % len(chunks), 'paused:timeout:%r' % case.get('timeout'),
                                                          'paused:latency:%r' % case.get('latency')])

    def feed():
        try:
            for i, c in enumerate(chunks):
                if i:
                    time.sleep(wait)
                a.sendall(c)
            time.sleep(wait)
        finally:
            a.close()

    th = threading.Thread(target=feed, daemon=True)
    th.start()
    got, nones, err = [], 0, None
    gen = tnet.tnet_from(b, ('c20p', 0), timeout=case.get('timeout'), latency=case.get('latency'))
    try:
        t0 = time.time()
        for v in gen:
            if v is None:
                nones += 1
                if time.time() - t0 > 60:
                    raise common.HarnessError('paused clause: no end of stream within 60 s')
                continue
            got.append(v)
            if len(got) >= len(values):
                break
    except common.HarnessError:
        raise
    except Exception as e:
        err = e
    finally:
        gen.close()
        th.join(10)
        b.close()
    stats.count('paused:timeouts-yielded', nones)
    if err is not None:
        stats.fail('paused', 'paused:' + exc_sig(err), case, observed={'exc': show(err), 'messages_delivered': len(got)},
                   expected='every message delivered although the sender paused longer than the timeout / latency')
        return
    if len(got) != len(values):
        stats.fail('paused', 'paused:message-not-delivered', case, observed={'delivered': len(got)}, expected={'messages': len(values)})
        return
    for k, (v, g) in enumerate(zip(values, got)):
        d = same(v, g)
        if d:
            stats.fail('paused', 'paused:' + d, case, observed={'message': k, 'got': show(g)}, expected={'value': show(v)})
            return


def paused_cases():
    # (no null messages: tnet_from documents that a 0:~ message is yielded as None, which a timeout is too)
    supported = st.one_of(st_scalar_nodes(True), st_scalar_nodes(True), st_value_nodes(6).map(lambda n: {'yd': n})).filter(
        lambda n: dec(n) is not None)
    return st.builds(lambda m, c, t: {'msgs': m, 'mode': c[0], 'cuts': c[1], 'timeout': t[0], 'latency': t[1]},
                     st.lists(supported, min_size=1, max_size=3), st_chunking(),
                     st.sampled_from([(0.03, None), (None, 0.03), (0.05, 0.02), (None, None)]))


def sessions_cases():
    supported = st.one_of(st_scalar_nodes(True), st_scalar_nodes(True), st_value_nodes(6).map(lambda n: {'yd': n}))
    plain = st.builds(lambda m, t, k, c: {'msgs': m, 'tail': t, 'take': k, 'mode': c[0], 'cuts': c[1]},
                      st.lists(supported, min_size=1, max_size=4), st_tail(), st.integers(1, 4), st_chunking())
    separated = st.builds(lambda m, k, ign, seps: {'msgs': m, 'take': k, 'mode': 'whole', 'cuts': [], 'ign': hx(ign), 'seps': seps},
                          st.lists(supported, min_size=2, max_size=4), st.integers(2, 4), st.sampled_from([b'\n', b'\r\n', b' \t\n']),
                          st.lists(st.lists(st.integers(0, 5), min_size=0, max_size=3), min_size=1, max_size=4))
    one = st.one_of(plain, plain, separated)
    return st.builds(lambda l: {'sessions': l}, st.lists(one, min_size=2, max_size=4))


CLAUSES = {'roundtrip': pred_roundtrip, 'stream': pred_stream, 'raw': pred_raw, 'sessions': pred_sessions, 'paused': pred_paused}

# ------------------------------------------------------------------------------------------------
# generators

TRICKY = b'0123456789:,#$~!^]}[{-+. \n\x00'


def st_bytes():
    return st.one_of(
        st.binary(max_size=24),
        st.lists(st.sampled_from(list(TRICKY)), max_size=12).map(bytes),
        st.builds(lambda n, t: b'%d:' % n + t, st.integers(0, 120), st.binary(max_size=4)),
        st.sampled_from([b'', b'0:~', b'12:', b',', b'}', b']', b'#', b'4:true!', b'1:1#', b':', b'0', b'9' * 9,
                         b'3:abc,', b'3:abc', bytes(range(256)), b'\xff\xfe', b'\n']),
    )


def st_text():
    return st.one_of(
        st.text(max_size=12),
        st.text(alphabet='0123456789:,#$~]}\u03c0\u20ac\U0001F600\x00\xe9\u0301 ', max_size=10),
        st.sampled_from(['', 'π', 'The π character is called pi', '12:', '\x00', '\U0010ffff', 'é', '0:~',
                         '\ufeff', '\xff']),
    )


def st_key():
    return st.one_of(st.text(alphabet=st.characters(min_codepoint=0, max_codepoint=127), max_size=6),
                     st.sampled_from(['', ':', '0', '1:a,', 'key', '}', '0:~', ' ']))


def st_int():
    edge = [0, -1, 2 ** 63 - 1, 2 ** 63, -2 ** 63, -2 ** 63 - 1, 2 ** 64, 10 ** 18, 10 ** 19, -10 ** 19, 10 ** 30, 10 ** 100,
            -10 ** 100, INT_LIMIT, -INT_LIMIT, 999999999, 1000000000]
    return st.one_of(st.integers(-20, 20), st.integers(-2 ** 31, 2 ** 31), st.integers(-2 ** 64 - 5, 2 ** 64 + 5),
                     st.sampled_from(edge), st.integers(-10 ** 60, 10 ** 60))


def st_float():
    edge = [0.0, -0.0, 1e22, 1e23, 1e16, 1e-5, 5e-324, 2.2250738585072014e-308, 1.7976931348623157e308, float('inf'),
            float('-inf'), float('nan'), 0.1, 1 / 3, 123456789012345678.0, 1e-7, -1.5]
    return st.one_of(st.floats(allow_nan=True, allow_infinity=True, allow_subnormal=True), st.sampled_from(edge))


def n_int(i):
    return {'i': str(i)}


def n_float(f):
    return {'f': float.hex(f)}


def n_bytes(b):
    return {'y': hx(b)}


def st_scalar_nodes(supported_only=False, flat=False):
    alts = [st.just({'n': 0}), st_int().map(n_int), st_bytes().map(n_bytes), st_text().map(lambda s: {'s': s})]
    if not supported_only:
        alts += [st.booleans().map(lambda b: {'b': b}), st_float().map(n_float)]
    if not flat:
        # bytes that are themselves the serialisation of a (small) value
        alts.append(st.lists(st_scalar_nodes(flat=True), max_size=3).map(lambda l: {'yd': {'l': l} if len(l) != 1 else l[0]}))
    return st.one_of(*alts)


def _containers(children):
    lists = st.lists(children, max_size=5).map(lambda l: {'l': l})
    dicts = st.dictionaries(st_key(), children, max_size=5).map(lambda d: {'d': [[k, v] for k, v in d.items()]})
    return st.one_of(lists, dicts)


def st_value_nodes(max_leaves=25):
    return st.recursive(st_scalar_nodes(), _containers, max_leaves=max_leaves)


def _wrap(node, shape):
    for s in shape:
        node = {'l': [node]} if s == 'l' else {'d': [['k', node]]} if s == 'd' else {'l': [node, {'n': 0}]}
    return node


def st_deep_nodes():
    return st.builds(_wrap, st_value_nodes(6), st.lists(st.sampled_from('ldp'), min_size=3, max_size=40))


LADDER = [0, 1, 8, 9, 10, 11, 98, 99, 100, 101, 998, 999, 1000, 1001, 9998, 9999, 10000, 10001]


def st_big_nodes(max_bytes, max_items):
    sizes = [n for n in LADDER + [99999, 100000, 999999, 1000000] if n <= max_bytes]
    nbytes = st.one_of(st.sampled_from(sizes), st.integers(0, max_bytes))
    nitems = st.one_of(st.sampled_from([n for n in LADDER if n <= max_items]), st.integers(0, max_items))
    small = st_scalar_nodes()
    return st.one_of(
        st.builds(lambda p, n: {'y*': [hx(p), max(0, n // len(p))]}, st.sampled_from([b'x', b'1', b':', b',', b'12:', b'\x00\xff']), nbytes),
        st.builds(lambda p, n: {'s*': [p, max(0, n // len(p.encode('utf-8')))]}, st.sampled_from(['a', 'π', '7', ',', '\U0001F600']), nbytes),
        st.builds(lambda c, n: {'l*': [c, n]}, small, nitems),
        st.builds(lambda c, n: {'d*': [c, n]}, small, nitems),
    )


def st_tail():
    return st.one_of(
        st.just(b''), st.just(b''),
        st.binary(min_size=1, max_size=8),
        st.lists(st.sampled_from(list(TRICKY)), min_size=1, max_size=6).map(bytes),
        st_value_nodes(4).map(lambda n: ref_dump(dec(n))),
        st.sampled_from([b'0:~', b'1:a,', b',', b'#', b'5', b'55:', b':', b'\n', b'~', b'0', b'0:']),
    ).map(hx)


def st_chunking():
    cut = st.one_of(st.integers(1, 8), st.integers(-4, -1), st.integers(1, 1 << 16))
    return st.one_of(
        st.just(('whole', [])), st.just(('bytes', [])),
        st.lists(cut, min_size=1, max_size=1).map(lambda c: ('cuts', c)),
        st.lists(cut, min_size=1, max_size=8).map(lambda c: ('cuts', c)),
    )


def roundtrip_cases(max_bytes, max_items):
    v0 = st_value_nodes()
    v1 = _containers(st_value_nodes(12))
    v2 = _containers(_containers(st_value_nodes(8)))
    v3 = _containers(_containers(_containers(st_value_nodes(5))))
    value = st.one_of(st_scalar_nodes(), v0, v1, v1, v2, v2, v3, st_deep_nodes(), st_big_nodes(max_bytes, max_items))
    return st.builds(lambda v, t: {'v': v, 'tail': t}, value, st_tail())


def stream_cases(max_bytes):
    supported = st.one_of(st_scalar_nodes(True), st_scalar_nodes(True), st_scalar_nodes(True),
                          st_value_nodes(8).map(lambda n: {'yd': n}))
    big = st.one_of(
        st.builds(lambda p, n: {'y*': [hx(p), n // len(p)]}, st.sampled_from([b'x', b'1', b':', b',', b'12:']),
                  st.one_of(st.sampled_from([n for n in LADDER if n <= max_bytes]), st.integers(0, max_bytes))),
        st.builds(lambda p, n: {'s*': [p, n // len(p.encode('utf-8'))]}, st.sampled_from(['a', 'π', '7']),
                  st.one_of(st.sampled_from([n for n in LADDER if n <= max_bytes]), st.integers(0, max_bytes))))
    unsupported = st.one_of(st.booleans().map(lambda b: {'b': b}), st_float().map(n_float),
                            st.lists(st_value_nodes(4), max_size=4).map(lambda l: {'l': l}),
                            st.dictionaries(st_key(), st_value_nodes(4), max_size=3).map(
                                lambda d: {'d': [[k, v] for k, v in d.items()]}))
    msg = st.one_of(*([supported] * 20 + [unsupported] * 3 + [big]))
    msgs = st.one_of(st.lists(msg, min_size=1, max_size=1), st.lists(msg, min_size=1, max_size=3))
    return st.builds(lambda m, t, c: {'msgs': m, 'tail': t, 'mode': c[0], 'cuts': c[1]}, msgs, st_tail(), st_chunking())


def raw_cases():
    ints = st.one_of(st_int().map(lambda i: str(i).encode()),
                     st.sampled_from([b' 12', b'12 ', b'+5', b'-0', b'007', b'1_0', b'', b'a', b'-', b'--1', b'1.0', b'0x10',
                                      b'\xd9\xa1', b'1e3', b'\t3\n', b'-007']),
                     st.lists(st.sampled_from(list(b'0123456789-+_ ')), max_size=6).map(bytes))
    texts = st.one_of(st_text().map(lambda s: s.encode('utf-8')), st.binary(max_size=6),
                      st.sampled_from([b'\xff', b'\xc3', b'\xed\xa0\x80', b'\xf4\x90\x80\x80', b'\xc0\x80']))
    payload_tag = st.one_of(
        st.tuples(st_bytes(), st.just(b',')), st.tuples(st_bytes(), st.just(b',')),
        st.tuples(texts, st.just(b'$')), st.tuples(texts, st.just(b'$')),
        st.tuples(ints, st.just(b'#')), st.tuples(ints, st.just(b'#')),
        st.tuples(st.sampled_from([b'', b'', b'', b'x', b'0:~']), st.just(b'~')),
        st.tuples(st_bytes(), st.sampled_from([b'!', b'^', b']', b'}', b'?', b';', b'\x00', b'0', b':'])),
    )

    def frame(pt, size_kind, pad, tail, chunking):
        payload, tag = pt
        n = len(payload)
        if size_kind == 'short':
            n = max(0, n - 1)
        elif size_kind == 'long':
            n = n + 1
        size = str(n).encode()
        if pad:
            size = size.rjust(min(9, len(size) + pad), b'0')
        return {'wire': hx(size + b':' + payload + tag + unhx(tail)), 'mode': chunking[0], 'cuts': chunking[1]}

    return st.builds(frame, payload_tag, st.sampled_from(['exact'] * 12 + ['short', 'long']),
                     st.sampled_from([0, 0, 0, 0, 1, 2, 8]), st_tail(), st_chunking())


# ------------------------------------------------------------------------------------------------
# deterministic sub-spaces

CORPUS = [
    {'n': 0}, {'y': ''}, {'s': ''}, {'i': '0'}, {'i': '-5'}, {'i': '12'}, {'i': '9999999'}, {'i': str(10 ** 30)},
    {'y': hx(b'abc')}, {'y': hx(b'12:')}, {'y': hx(b'3:abc,')}, {'y': hx(b',')}, {'y': hx(b'0:~')}, {'y': hx(b':')},
    {'y': hx(b'123456789')}, {'y': hx(b'1234567890')}, {'y': hx(b'\x00\xff')}, {'y*': [hx(b'x'), 99]}, {'y*': [hx(b'7'), 100]},
    {'s': 'abcdefghijklmnopqrstuvwxyz'}, {'s': 'The π character is called pi'}, {'s': 'π'}, {'s': '\U0001F600'},
    {'s': '12:'}, {'s': 'a'}, {'s*': ['π', 5]}, {'yd': {'l': [{'i': '1'}, {'s': 'x'}]}}, {'yd': {'d': [['a', {'n': 0}]]}},
    {'b': True}, {'f': float.hex(2.5)}, {'l': [{'i': '1'}]}, {'d': [['a', {'y': hx(b'b')}]]},
]
TAILS = [b'', b'X', b'1:a,', b'0:~', b',', b'7']


def exhaustive_split_cases():
    """All two-way splits of dump(v)+tail for the corpus, plus whole and bytewise; and every pair of corpus values
    (supported ones) back to back on one machine, whole and bytewise."""
    for node in CORPUS:
        n = len(ref_dump(dec(node)))
        for tail in TAILS:
            yield {'msgs': [node], 'tail': hx(tail), 'mode': 'whole', 'cuts': []}
            yield {'msgs': [node], 'tail': hx(tail), 'mode': 'bytes', 'cuts': []}
            for c in range(1, n + len(tail)):
                yield {'msgs': [node], 'tail': hx(tail), 'mode': 'cuts', 'cuts': [c]}
    sup = [n for n in CORPUS if machine_supports(dec(n))]
    for a in sup:
        for b in sup:
            for mode in ('whole', 'bytes'):
                yield {'msgs': [a, b], 'tail': '', 'mode': mode, 'cuts': []}


def ladder_cases(max_bytes):
    """Payload sizes across every digit-count boundary of the length prefix."""
    sizes = [n for n in LADDER + [99998, 99999, 100000, 100001, 999999, 1000000] if n <= max_bytes]
    for n in sizes:
        for node in ({'y*': [hx(b'x'), n]}, {'y*': [hx(b'1'), n]}, {'s*': ['a', n]}, {'s*': ['π', n // 2]},
                     {'i': '1' * n} if 0 < n <= 400 else None):
            if node is None:
                continue
            yield ('roundtrip', {'v': node, 'tail': hx(b'0:~')})
            yield ('roundtrip', {'v': {'l': [node, node]}, 'tail': ''})
            yield ('stream', {'msgs': [node], 'tail': hx(b'1:a,'), 'mode': 'whole', 'cuts': []})
            yield ('stream', {'msgs': [node, {'i': '7'}], 'tail': '', 'mode': 'cuts', 'cuts': [1, 2, 3, 4, 5, 6, 7, 8, -1, -2]})
            if n <= 1001:
                yield ('stream', {'msgs': [node], 'tail': hx(b'9'), 'mode': 'bytes', 'cuts': []})
    # containers with many members (parse_list/parse_dict re-slice the remainder per member: quadratic, so bounded)
    for n in [k for k in LADDER if k <= 10001] + ([30000] if max_bytes > 100000 else []):
        for child in ({'i': '7'}, {'n': 0}, {'b': False}, {'f': float.hex(0.5)}, {'s': '\u03c0'}, {'l': []}):
            yield ('roundtrip', {'v': {'l*': [child, n]}, 'tail': hx(b'1:a,')})
            if n <= 10001:
                yield ('roundtrip', {'v': {'d*': [child, n]}, 'tail': ''})


def shard_exhaustive(job):
    idx, nsh = job
    s = Stats()
    for i, case in enumerate(exhaustive_split_cases()):
        if i % nsh == idx:
            common.run_pred(pred_stream, case, s, 'stream')
    return s


def shard_ladder(job):
    idx, nsh, max_bytes = job
    s = Stats()
    for i, (clause, case) in enumerate(ladder_cases(max_bytes)):
        if i % nsh == idx:
            common.run_pred(CLAUSES[clause], case, s, clause)
    return s


def shard_random(job):
    seed, shard, n_rt, n_st, n_raw, max_bytes, max_items, stream_bytes = job
    s = Stats()
    sd = common.shard_seed(seed, shard)
    common.hyp_run(s, roundtrip_cases(max_bytes, max_items), pred_roundtrip, n_rt, sd, 'roundtrip', PID)
    common.hyp_run(s, stream_cases(stream_bytes), pred_stream, n_st, sd + 1, 'stream', PID)
    common.hyp_run(s, raw_cases(), pred_raw, n_raw, sd + 2, 'raw', PID)
    common.hyp_run(s, sessions_cases(), pred_sessions, max(10, n_st // 4), sd + 3, 'sessions', PID)
    common.hyp_run(s, paused_cases(), pred_paused, 4 if n_st < 1000 else 12, sd + 4, 'paused', PID)
    return s


# ------------------------------------------------------------------------------------------------
# optional: coverage-guided differential on raw bytes (atheris), thorough tier only


def atheris_available():
    try:
        import atheris  # noqa: F401
        return True
    except Exception:
        return False


def atheris_child(argv):
    """python -m vp.checks.c20 --atheris <result.json> <runs> <seed> <corpus-dir>: runs libFuzzer in this process.
    Every input is judged by pred_raw (whole and bytewise); failing cases are written to result.json."""
    import atheris
    out, runs, seed, corpus = argv[0], int(argv[1]), int(argv[2]), argv[3]
    import logging
    logging.disable(logging.CRITICAL)
    with atheris.instrument_imports(include=['cpppo']):
        import cpppo  # noqa: F401
        from cpppo.server import tnet, tnetstrings  # noqa: F401
    state = {'execs': 0, 'in_domain': 0, 'out_of_domain': 0, 'fails': [], 'classes': collections.Counter()}

    def flush():
        with open(out + '.tmp', 'w') as f:
            json.dump({'execs': state['execs'], 'in_domain': state['in_domain'], 'out_of_domain': state['out_of_domain'], 'fails': state['fails'][:20],
                       'classes': dict(state['classes'])}, f)
        os.replace(out + '.tmp', out)

    def judge(wire):
        state['in_domain'] += 1
        for mode in ('whole', 'bytes'):
            case = {'wire': hx(wire), 'mode': mode, 'cuts': []}
            scratch = Stats()
            common.run_pred(pred_raw, case, scratch, 'raw')
            for c, k in scratch.classes.items():
                if c.startswith('raw:layer') or c.startswith('raw:ref'):
                    state['classes']['atheris:' + c] += k
            if scratch.fails and len(state['fails']) < 20:
                state['fails'].append(case)

    def target(data):
        state['execs'] += 1
        if len(data) <= 64:
            # 1. the input as it is, if it starts like a frame
            if _SIZE.match(data):
                judge(data)
            else:
                state['out_of_domain'] += 1
            # 2. the input read as <tail length> DATA TAG TAIL, framed with the right SIZE (so that the mutations
            #    libFuzzer makes land in DATA/TAG/TAIL instead of breaking the length)
            if len(data) >= 2:
                t = data[0] % 5
                body = data[1:]
                if len(body) >= 1 + t:
                    n = len(body) - 1 - t
                    tag = b',$#~,$#~^!]}?;\x00:'[body[n] % 16:][:1]
                    judge(str(n).encode('ascii') + b':' + body[:n] + tag + body[n + 1:])
        if state['execs'] % 2000 == 0 or state['execs'] >= runs:
            flush()

    flush()
    atheris.Setup([sys.argv[0], '-runs=%d' % runs, '-seed=%d' % seed, '-max_len=48', '-verbosity=0', '-print_final_stats=0',
                   '-artifact_prefix=%s/' % corpus, corpus], target)
    atheris.Fuzz()


def shard_atheris(job):
    seed, shard, runs = job
    s = Stats()
    work = tempfile.mkdtemp(prefix='vp-c20-atheris-', dir=os.environ.get('TMPDIR') or None)
    try:
        corpus = os.path.join(work, 'corpus')
        os.mkdir(corpus)
        seeds = [b'3:abc,', b'0:~', b'2:12#', b'2:\xcf\x80$', b'2:-5#7', b'03:1_0#', b'4:true!', b'0:]', b'1:a,1:b,']
        for i, b in enumerate(seeds):
            with open(os.path.join(corpus, 'seed%02d' % i), 'wb') as f:
                f.write(b)
        out = os.path.join(work, 'result.json')
        cmd = [sys.executable, '-m', 'vp.checks.c20', '--atheris', out, str(runs),
               str(common.shard_seed(seed, shard) & 0x7FFFFFFF or 1), corpus]
        p = subprocess.run(cmd, stdout=subprocess.DEVNULL, stderr=subprocess.PIPE, cwd=work)
        if not os.path.exists(out):
            raise common.HarnessError('atheris child produced no result (rc=%s): %s' % (p.returncode, p.stderr[-600:]))
        with open(out) as f:
            doc = json.load(f)
        if doc['execs'] < runs and not doc['fails']:
            raise common.HarnessError('atheris child stopped after %d of %d runs (rc=%s): %s'
                                      % (doc['execs'], runs, p.returncode, p.stderr[-600:]))
        s.extra['atheris_execs'] = doc['execs']
        s.extra['atheris_in_domain_inputs'] = doc['in_domain']
        s.exclude('atheris input taken as-is but not starting with a SIZE of 1-9 digits and ":" (still judged in its re-framed reading)',
                  doc.get('out_of_domain', 0))
        for c, k in doc['classes'].items():
            s.count(c, k)
        # in-domain inputs were each evaluated twice (whole, bytewise) by the very same predicate
        s.evaluations += 2 * doc['in_domain']
        for case in doc['fails']:
            common.run_pred(pred_raw, case, s, 'raw')
    finally:
        shutil.rmtree(work, ignore_errors=True)
    return s


# ------------------------------------------------------------------------------------------------


def run(tier, seed):
    thorough = tier == 'thorough'
    stats = Stats()
    nsh = 16
    common.parallel(shard_exhaustive, [(i, nsh) for i in range(nsh)], stats=stats)
    stats.exhaustive['stream-two-way-splits'] = (
        'every single cut position (plus whole, plus one byte per chunk) of dump(v)+tail for %d corpus values x %d tails; '
        'every ordered pair of the machine-supported corpus values back to back on one machine, whole and bytewise'
        % (len(CORPUS), len(TAILS)))
    ladder_max = 1000000 if thorough else 10001
    common.parallel(shard_ladder, [(i, nsh, ladder_max) for i in range(nsh)], stats=stats)
    stats.exhaustive['size-ladder'] = ('payload sizes %r (<= %d) for bytes / digit bytes / ASCII text / 2-byte text / int, '
                                       'round trip (alone, twice in a list) and streaming (whole, cuts in the prefix, bytewise '
                                       '<= 1001); lists/dicts of n equal members for the same n <= 10001 (lists also 30000 in thorough)' % ([n for n in LADDER + [99998, 99999, 100000, 100001, 999999, 1000000]
                                                      if n <= ladder_max], ladder_max))
    if thorough:
        shards, n_rt, n_st, n_raw = 48, 12000, 5000, 3000
        max_bytes, max_items, stream_bytes = 1000000, 5000, 20000
        if SCALE != 1.0:
            n_rt, n_st, n_raw = [max(20, int(x * SCALE)) for x in (n_rt, n_st, n_raw)]
            stats.notes.append('VP_C20_SCALE=%r: thorough case counts scaled (development aid)' % SCALE)
    else:
        shards, n_rt, n_st, n_raw = 16, 800, 450, 300
        max_bytes, max_items, stream_bytes = 10001, 1500, 3000
    common.parallel(shard_random, [(seed, i, n_rt, n_st, n_raw, max_bytes, max_items, stream_bytes) for i in range(shards)],
                    stats=stats)
    if thorough:
        if atheris_available():
            common.parallel(shard_atheris, [(seed, i, max(500, int(25000 * SCALE))) for i in range(8)], procs=8, stats=stats)
            stats.notes.append('atheris: 8 x 25000 coverage-guided executions of the raw clause (whole + bytewise)')
        else:
            stats.notes.append('atheris not importable: coverage-guided raw-bytes differential skipped '
                               '(run /verif/setup.sh to install it into /verif/.deps)')
            stats.exclude('atheris raw-bytes differential (module not importable)')
    return stats


if __name__ == '__main__':
    if len(sys.argv) > 1 and sys.argv[1] == '--atheris':
        atheris_child(sys.argv[2:])
