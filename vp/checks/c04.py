"""
C04 -- fragmented transfers reassemble exactly and every fragment makes progress
(server/enip/logix.py: Logix.reply_elements / Logix.request, Logix.MAX_BYTES and the per-request max_size).

Two predicates, both driven exactly as the statement describes and judged by an oracle written from the
statement (typed-array slice arithmetic; nothing is taken from cpppo):

  read   load a tag with known values, then repeatedly issue Read Tag Fragmented (elements = n, byte
         offset advanced by the amount of data received) until a reply does not say 0x06.  Every reply must
         be status 0x06 except the last which is 0x00; every fragment is a whole number (>= 1) of elements
         and <= ceil(budget/size)*size bytes; at most n fragments; the concatenation is the model slice.
  write  a tiling of [0, n) into element-aligned pieces is written with Write Tag Fragmented
         (elements = n, offset = piece start in bytes); afterwards the tag equals the old values with
         exactly [s, s+n) replaced, and the neighbouring guard tags are unchanged.

The reply budget is varied through Logix.MAX_BYTES ("the user may alter this limit") for requests that
travel in an Unconnected Send or a Multiple Service Packet, and through the per-request max_size for
requests handed straight to the Logix object (parser -> request, the way logix_test does).

Bounded exhaustive enumeration (scaled-down budgets, so every alignment of range end vs. budget boundary
occurs) plus Hypothesis-drawn large cases (tag length up to 5000 and 32770 / 40000 / 65535 with start indices around 32768, the real 488-byte budget, full-range
values).
"""
from __future__ import annotations

import itertools
import os
import pickle
import select
import struct

from hypothesis import strategies as st

from .. import common, model as M, refcodec as rc, sim, tagcheck
from ..common import Stats

PID = 'C04'
LEVEL = 'exploration'
RULE = ('read case = (element type, tag length L, start element s [explicit or implied 0], count n with s+n <= L, reply '
        'budget, how the request travels: Unconnected Send / Multiple Service Packet with the budget in Logix.MAX_BYTES, or '
        'straight to the Logix object with the budget in max_size, tag contents); write case = (type, L, s, n, tiling of '
        '[0,n) into pieces, order of the pieces, wrapper, old and new contents).  Enumerated exhaustively for small L and '
        'budgets 1..3*size+1, Hypothesis-drawn for L up to 5000 (and L = 32770 / 40000 / 65535 with start indices around 32768) around the real 488-byte budget.  non-trivial = a read '
        'that needed >= 2 fragments (classes tell apart "last fragment shorter" and "n*size an exact multiple of the '
        'fragment size"), or a write of >= 2 pieces')
ASSUMPTIONS = [
    'in-bounds transfers only (s + n <= L, offsets element-aligned and inside the range): out-of-bounds requests are C05',
    'fixed-size element types only (BOOL, SINT..ULINT, REAL, LREAL); strings and UDTs are outside the property by its own text',
    'a Read Tag Fragmented request is always carried in an Unconnected Send or a Multiple Service Packet (a bare 0x52 is '
    'documented as indistinguishable from an Unconnected Send), or parsed by the Logix object\'s own parser',
    'tag contents are loaded and inspected in-process (sim.Device.restore / snapshot); requests are encoded and replies '
    'decoded by the independent reference codec (vp/refcodec.py)',
    'budget "default" means Logix.MAX_BYTES is left alone; the oracle then uses the documented value 488 (logix.py:145)',
    'the outer status of a Multiple Service Packet reply is not judged (the statement speaks about the fragment replies)',
    'NaN is not generated as a tag value (comparison is by bit pattern; NaN payload propagation is not part of the property)',
    'a write piece carries <= 480 bytes of data (what callers put in one frame)',
]
MIN_EVALUATIONS = {'quick': 15000, 'thorough': 150000}

DEFAULT_BUDGET = 488
SIZE_TYPES_QUICK = ['BOOL', 'SINT', 'INT', 'DINT', 'LREAL']
SIZE_TYPES_THOROUGH = ['BOOL', 'SINT', 'INT', 'DINT', 'REAL', 'LINT', 'LREAL']
FIXED = list(M.FIXED_TYPES)
RD_RPY, WR_RPY = 0x52 | 0x80, 0x53 | 0x80


# ------------------------------------------------------------------------------------------------
# tag contents: a small JSON-able recipe expanded deterministically (all parameters are drawn by
# Hypothesis or fixed by the enumeration) so that cases with 5000 elements stay small

def fill_values(t, fill, length, first=0):
    """Values of elements first .. first+length-1 of a tag of type t for recipe fill =
    {'anchors': [...], 'stride': int, 'salt': int}.  Integers: anchors[i % k] -/+ (i*stride + salt) % 65521, away from the nearer end of
    the type's range, wrapped into it (neighbours differ, all bytes vary).  BOOL: anchors[i % k] flipped on odd blocks / by salt.
    Floats: full-range anchors on even indices, the exact index-identifying value i*stride+salt on odd ones."""
    if 'const' in fill:              # every element the same value (e.g. +0.0 everywhere, then -0.0 written over it)
        return [fill['const']] * length
    anchors, stride, salt = fill['anchors'], fill['stride'], fill.get('salt', 0)
    k = len(anchors)
    out = []
    for i in range(first, first + length):
        a = anchors[i % k]
        if t == 'BOOL':
            out.append(bool(a) != bool(((i // k) * stride + salt) & 1))
        elif t in M.FLOAT_TYPES:
            v = float(a) if i % 2 == 0 else float(i * stride + salt)
            out.append(M.f32(v) if t == 'REAL' else v)
        else:
            # the index-dependent offset moves the anchor away from the nearer end of the type's range, so that anchors at
            # the extremes (ULINT >= 2**63, LINT near -2**63 ...) stay extreme for every index instead of wrapping to small values
            lo, hi = rc.INT_RANGES[t]
            off = (i * stride + salt) % 65521
            v = int(a) - off if int(a) > (lo + hi) // 2 else int(a) + off
            out.append((v - lo) % (hi - lo + 1) + lo)
    return out


def canon_list(t, values):
    return [rc.canon_value(t, v) for v in values]


ENUM_STRIDE = {1: 37, 2: 0x0123, 4: 0x01234567, 8: 0x0123456789ABCDEF}


def enum_fill(t, salt=0):
    if t == 'BOOL':
        return {'anchors': [True, False, False, True, True, True, False], 'stride': 1, 'salt': salt}
    if t in M.FLOAT_TYPES:
        return {'anchors': [0.5, -1.25e10, 3.0e-5], 'stride': 3, 'salt': 1 + salt}
    return {'anchors': [1], 'stride': ENUM_STRIDE[rc.tsize(t)], 'salt': salt}


GUARD_FILL = {'anchors': [1, 0, 1], 'stride': 5, 'salt': 3}


# ------------------------------------------------------------------------------------------------
# the device under test (one live simulator per process; re-used while the configuration is the same)

_CUR = {'key': None, 'dev': None, 'sess': None, 'port': 10001}


def _close():
    if _CUR['dev'] is not None:
        _CUR['dev'].close()
    _CUR.update(key=None, dev=None, sess=None)


def device(t, length, max_bytes):
    key = (t, length, max_bytes)
    if _CUR['key'] != key:
        _close()
        specs = [{'name': 'G0', 'type': t, 'length': 2, 'address': None},
                 {'name': 'T', 'type': t, 'length': length, 'address': None},
                 {'name': 'G1', 'type': t, 'length': 3, 'address': None}]
        _CUR['dev'] = sim.Device(specs, max_bytes=max_bytes)
        _CUR['key'] = key
        _CUR['sess'] = None
    return _CUR['dev']


def session():
    s = _CUR['sess']
    if s is None or not s.alive:
        _CUR['port'] += 1
        if _CUR['port'] > 60000:
            _CUR['port'] = 10002
        s = _CUR['sess'] = sim.Session(_CUR['dev'], ('127.0.0.1', _CUR['port']))
    return s


def load(dev, t, length, fill):
    """Put known contents into T and the guards; return the expected canonical snapshot."""
    vals = fill_values(t, fill, length)
    g0, g1 = fill_values(t, GUARD_FILL, 2), fill_values(t, GUARD_FILL, 3, first=2)
    dev.restore({'G0': g0, 'T': vals, 'G1': g1})
    want = {'G0': canon_list(t, g0), 'T': canon_list(t, vals), 'G1': canon_list(t, g1)}
    if dev.snapshot() != want:
        raise common.HarnessError('could not load the tag contents in-process')
    return vals, want


def exchange(dev, message, drive, max_size=None):
    """One Message Router request -> ('ok', decoded reply) | (signature-suffix, detail)."""
    try:
        if drive == 'direct':
            cpppo = dev.cpppo
            obj = dev.device.lookup(2, 1)
            source = cpppo.rememberable(bytes(message))
            data = cpppo.dotdict()
            with obj.parser as machine:
                for _ in machine.run(source=source, data=data):
                    pass
            if source.peek() is not None:
                return 'request-not-consumed', {'left_at': source.sent}
            if max_size is not None:
                data.read_frag.max_size = max_size
            if not obj.request(data):
                return 'session-failed', {'outcome': 'request() returned false'}
            return 'ok', rc.dec_mr_reply(bytes(data.input))
        if drive == 'msp':
            out = session().send(rc.req_multiple([message]), wrap=False)
        else:
            out = session().send(message, wrap=True)
        if out['kind'] != 'reply' or out['enip_status'] != 0 or out['reply'] is None:
            return 'session-failed', {'outcome': out['kind'], 'enip_status': out['enip_status'], 'error': out.get('error')}
        rpy = out['reply']
        if drive == 'msp':
            if rpy['service'] != 0x8A:
                return 'reply-service-mismatch', {'reply': M._r(rpy), 'want': 0x8A}
            members = rc.dec_multiple_body(rpy['data'])
            if len(members) != 1:
                return 'reply-undecodable', {'error': 'bundle of 1 request answered with %d replies' % len(members)}
            rpy = rc.dec_mr_reply(members[0])
        return 'ok', rpy
    except (rc.RefDecodeError, struct.error) as exc:
        return 'reply-undecodable', {'error': str(exc)[:200]}


def path_of(case):
    return [{'symbolic': 'T'}] + ([] if case['elem'] is None else [{'element': case['elem']}])


def check_shape(case, kind):
    L, n, s = case['length'], case['count'], case['elem'] or 0
    if case.get('kind') != kind or case['type'] not in FIXED or not (0 <= s < L and 1 <= n <= L - s) or L > 65535:
        raise common.HarnessError('malformed %s case: %r' % (kind, {k: case[k] for k in ('type', 'length', 'elem', 'count')}))
    return rc.tsize(case['type']), L, s, n


# ------------------------------------------------------------------------------------------------
# read

def pred_read(case, stats):
    t = case['type']
    size, L, s, n = check_shape(case, 'read')
    drive, budget = case['drive'], case['budget']
    eff = DEFAULT_BUDGET if budget == 'default' else int(budget)
    if eff < 1 or drive not in ('us', 'msp', 'direct'):
        raise common.HarnessError('malformed read case')
    per = -(-eff // size)                   # elements per fragment at most: budget rounded up to a whole element
    cap = per * size
    total = n * size
    direct = drive == 'direct'
    dev = device(t, L, None if (direct or budget == 'default') else eff)
    vals, _ = load(dev, t, L, case['fill'])
    want = canon_list(t, vals[s:s + n])
    path = path_of(case)
    max_size = eff if (direct and budget != 'default') else None

    frags = []                              # payload bytes of each fragment
    statuses = []
    got = b''
    bad = []                                # (signature, detail)
    while True:
        if len(frags) >= n:
            bad.append(('read:too-many-fragments', {'fragments': len(frags)}))
            break
        off = len(got)
        res, rpy = exchange(dev, rc.req_read_frag(path, n, off), drive, max_size)
        if res != 'ok':
            bad.append(('read:' + res, dict(rpy, offset=off)))
            break
        statuses.append(rpy['status'])
        if rpy['service'] != RD_RPY:
            bad.append(('read:reply-service-mismatch', {'reply': M._r(rpy), 'offset': off}))
            break
        if rpy['status'] not in (0x00, 0x06):
            bad.append(('read:refused-at-%s' % ('offset-0' if off == 0 else 'continuation'),
                        {'reply': M._r(rpy), 'offset': off, 'received_bytes': len(got), 'of': total}))
            break
        d = bytes(rpy['data'])
        if len(d) < 2 or struct.unpack_from('<H', d, 0)[0] != rc.tcode(t):
            bad.append(('read:reply-type-code', {'reply': M._r(rpy), 'want_type': rc.tcode(t)}))
            break
        payload = d[2:]
        if not payload:
            bad.append(('read:empty-fragment', {'offset': off, 'status': rpy['status']}))
            break
        if len(payload) % size:
            bad.append(('read:fragment-not-whole-elements', {'offset': off, 'bytes': len(payload), 'element_size': size}))
            break
        if len(payload) > cap:
            bad.append(('read:fragment-exceeds-budget', {'offset': off, 'bytes': len(payload), 'budget': eff, 'allowed': cap}))
        frags.append(len(payload))
        got += payload
        if rpy['status'] == 0x00:
            if len(got) < total:
                bad.append(('read:final-status-before-all-data', {'received_bytes': len(got), 'of': total, 'fragments': frags[-8:]}))
            elif len(got) > total:
                bad.append(('read:more-data-than-requested', {'received_bytes': len(got), 'of': total, 'fragments': frags[-8:]}))
            break
        if len(got) >= total:
            bad.append(('read:partial-status-although-all-data-sent', {'received_bytes': len(got), 'of': total,
                                                                       'fragments': frags[-8:]}))
            break
    if not bad or all(sig == 'read:fragment-exceeds-budget' for sig, _ in bad):
        have = canon_list(t, rc.dec_values(t, got))
        if have != want:
            first = next((i for i, (a, b) in enumerate(zip(have, want)) if a != b), min(len(have), len(want)))
            bounds = set(itertools.accumulate(f // size for f in frags))
            where = 'from-first-element' if first == 0 else 'at-fragment-boundary' if first in bounds else 'inside-fragment'
            bad.append(('read:data-mismatch-' + where, {'first_wrong_element': first, 'got': have[first:first + 6],
                                                        'want': want[first:first + 6], 'fragments': frags[:8]}))

    classes = ['read', 'size:%d' % size, 'drive:' + drive]
    multi = len(frags) >= 2
    if multi:
        classes.append('read:multi-fragment')
        if frags[-1] < frags[0]:
            classes.append('read:multi:last-fragment-shorter')
        if total % cap == 0:
            classes.append('read:multi:range-ends-on-fragment-boundary')
        if total % eff == 0:
            classes.append('read:multi:bytes-exact-multiple-of-budget')
    else:
        classes.append('read:single-fragment')
        if total == cap:
            classes.append('read:single-fragment:exactly-full')
    if eff % size:
        classes.append('read:budget-not-multiple-of-size')
    if eff < size:
        classes.append('read:budget-below-one-element')
    classes.append('read:range-%s' % ('whole-tag' if n == L else 'to-tag-end' if s + n == L else 'from-0-interior'
                                      if s == 0 else 'interior'))
    if case['elem'] is None:
        classes.append('read:element-implied')
    if budget == 'default':
        classes.append('read:budget-default-488')
    if L > 700:
        classes.append('read:length>700')
    if s >= 32768:
        classes.append('read:start>=32768')
    if len(frags) >= 10:
        classes.append('read:fragments>=10')
    stats.case(case, nontrivial=multi, classes=classes)
    for sig, detail in bad:
        stats.fail('read', sig, case, observed=dict(detail, statuses=statuses[-6:]),
                   expected='status 0x06 then a final 0x00; each fragment 1..%d whole %s elements; %d bytes in all, equal to '
                            'elements [%d,%d) of the tag' % (per, t, total, s, s + n))


# ------------------------------------------------------------------------------------------------
# write

def pred_write(case, stats):
    t = case['type']
    size, L, s, n = check_shape(case, 'write')
    pieces, order, drive = case['pieces'], case.get('order'), case['drive']
    if sum(pieces) != n or min(pieces) < 1 or drive not in ('us', 'msp'):
        raise common.HarnessError('malformed write case')
    starts = [0] + list(itertools.accumulate(pieces))[:-1]
    seq = list(range(len(pieces)))
    if order:
        # order: keys drawn by Hypothesis; a stable sort by key gives the permutation (any list shrinks well)
        seq = sorted(seq, key=lambda i: (order[i % len(order)], i))
    dev = device(t, L, None)
    old, want = load(dev, t, L, case['old'])
    new = fill_values(t, case['new'], n, first=s)
    path = path_of(case)
    bad = []
    for k, i in enumerate(seq):
        a, ln = starts[i], pieces[i]
        res, rpy = exchange(dev, rc.req_write_frag(path, t, new[a:a + ln], n, a * size), drive)
        if res != 'ok':
            bad.append(('write:' + res, dict(rpy, piece=[a, ln])))
            break
        if rpy['service'] != WR_RPY:
            bad.append(('write:reply-service-mismatch', {'reply': M._r(rpy)}))
            break
        if rpy['status'] != 0:
            pos = 'first' if a == 0 else 'last' if a + ln == n else 'middle'
            bad.append(('write:%s-piece-refused' % pos, {'reply': M._r(rpy), 'piece_elements': [a, a + ln], 'offset': a * size,
                                                         'nth_request': k}))
            break
    if not bad:
        want = dict(want)
        want['T'] = canon_list(t, old[:s]) + canon_list(t, new) + canon_list(t, old[s + n:])
        after = dev.snapshot()
        if after['G0'] != want['G0'] or after['G1'] != want['G1']:
            bad.append(('write:other-tag-changed', {'G0': after['G0'], 'G1': after['G1']}))
        if len(after['T']) != L:
            bad.append(('write:tag-length-changed', {'length': len(after['T']), 'was': L}))
        else:
            outside = [i for i in itertools.chain(range(0, s), range(s + n, L)) if after['T'][i] != want['T'][i]]
            inside = [i for i in range(s, s + n) if after['T'][i] != want['T'][i]]
            if outside:
                bad.append(('write:element-outside-range-changed', {'elements': outside[:8], 'range': [s, s + n]}))
            if inside:
                stale = all(after['T'][i] == rc.canon_value(t, old[i]) for i in inside)
                bad.append(('write:range-content-wrong' + (':elements-not-written' if stale else ''),
                            {'elements': inside[:8], 'got': [after['T'][i] for i in inside[:6]],
                             'want': [want['T'][i] for i in inside[:6]], 'range': [s, s + n]}))

    classes = ['write', 'size:%d' % size, 'drive:' + drive,
               'write:pieces=1' if len(pieces) == 1 else 'write:pieces>=2']
    if len(pieces) >= 2:
        if max(pieces) == 1:
            classes.append('write:all-pieces-one-element')
        if len(set(pieces)) > 1:
            classes.append('write:unequal-pieces')
        if seq != sorted(seq):
            classes.append('write:pieces-out-of-order')
    if len(pieces) >= 10:
        classes.append('write:pieces>=10')
    classes.append('write:range-%s' % ('whole-tag' if n == L else 'to-tag-end' if s + n == L else 'from-0-interior'
                                       if s == 0 else 'interior'))
    if case['elem'] is None:
        classes.append('write:element-implied')
    if L > 700:
        classes.append('write:length>700')
    if s >= 32768:
        classes.append('write:start>=32768')
    stats.case(case, nontrivial=len(pieces) >= 2, classes=classes)
    for sig, detail in bad:
        stats.fail('write', sig, case, observed=detail,
                   expected='every piece acknowledged with status 0x00; afterwards elements [%d,%d) hold the written values '
                            'and every other element of every tag is unchanged' % (s, s + n))


# ------------------------------------------------------------------------------------------------
# client side: the same transfers driven through cpppo's own client (server/enip/client.py: parse_operations
# "TAG[a-b]+offset", connector.read/write( elements, offset ), collect) over TCP against enip.main.main().
# The simulator thread and the in-process Device cannot share a process (module-global tag tables), so the
# TCP laboratory lives in a child process of whoever evaluates a client case.

CLIENT_TAGS = {'BOOL': 40, 'SINT': 700, 'USINT': 60, 'INT': 400, 'UINT': 30, 'DINT': 200, 'UDINT': 20, 'LINT': 150,
               'ULINT': 12, 'REAL': 130, 'LREAL': 64}
CLIENT_TIMEOUT = 60.0       # only ever turns a run into "inconclusive"


def value_text(t, v):
    if t == 'BOOL':
        return 'true' if v else 'false'
    return repr(float(v)) if t in M.FLOAT_TYPES else str(int(v))


class _Tcp(object):
    """Inside the laboratory process: one simulator, one connector."""
    srv = None
    conn = None
    default_max_bytes = None

    @classmethod
    def server(cls):
        if cls.srv is None:
            specs = [{'name': 'C_' + t, 'type': t, 'length': n, 'address': None} for t, n in CLIENT_TAGS.items()]
            cls.srv = sim.TcpServer(specs)
            from cpppo.server.enip import logix
            cls.default_max_bytes = logix.Logix.MAX_BYTES
        return cls.srv

    @classmethod
    def connector(cls):
        if cls.conn is None:
            from cpppo.server.enip import client
            srv = cls.server()
            try:
                cls.conn = client.connector(host=srv.address[0], port=srv.address[1], timeout=CLIENT_TIMEOUT)
            except Exception as exc:        # connecting / registering is not this property's subject
                raise common.HarnessError('client could not connect to the TCP simulator: %r' % (exc,))
        return cls.conn

    @classmethod
    def drop(cls):
        if cls.conn is not None:
            try:
                cls.conn.close()
            except Exception:
                pass
        cls.conn = None


def client_run(ops_text, multiple):
    """Issue the textual operations the way client.main() does -> [(status, ext, value, reply)], one per operation."""
    from cpppo.server.enip import client
    conn = _Tcp.connector()
    done = False
    try:
        ops = list(client.parse_operations(ops_text))
        out = []
        with conn:      # the connector's parser is locked while in use
            for idx, dsc, req, rpy, sts, val in conn.synchronous(operations=ops, timeout=CLIENT_TIMEOUT,
                                                                 multiple=500 if multiple else 0):
                ext = []
                if isinstance(sts, tuple):
                    sts, ext = sts[0], list(sts[1])
                out.append((sts, ext, val, rpy))
        done = True
        return out
    finally:
        if not done:
            _Tcp.drop()


def lab_client_case(case, stats):
    """Runs inside the laboratory process."""
    t = case['type']
    size, L, s, n = check_shape(case, 'client')
    if CLIENT_TAGS.get(t) != L or case['op'] not in ('read', 'write'):
        raise common.HarnessError('malformed client case')
    srv = _Tcp.server()
    from cpppo.server.enip import logix
    budget = case['budget']
    eff = DEFAULT_BUDGET if budget == 'default' else int(budget)
    logix.Logix.MAX_BYTES = _Tcp.default_max_bytes if budget == 'default' else eff
    name = 'C_' + t
    old = fill_values(t, case['fill'], L)
    want = {}
    for tt, ln in CLIENT_TAGS.items():
        vals = old if tt == t else fill_values(tt, GUARD_FILL, ln)
        srv.set_values('C_' + tt, vals)
        want['C_' + tt] = canon_list(tt, vals)
    if srv.snapshot() != want:
        raise common.HarnessError('could not load the tag contents of the TCP simulator')
    multiple = bool(case.get('multiple'))
    rng = '%s[%d-%d]' % (name, s, s + n - 1) if case['elem'] is not None else (name if n == 1 else None)
    if rng is None:
        raise common.HarnessError('client case without element index needs count 1')
    classes = ['client', 'client:' + case['op'], 'size:%d' % size, 'client:' + ('multiple-service-packet' if multiple else 'single')]
    bad = []
    pre = 'client-%s:' % case['op']
    if case['op'] == 'read':
        per = -(-eff // size)
        wantv = canon_list(t, old[s:s + n])
        got, frags, statuses = [], [], []
        while True:
            if len(frags) >= n:
                bad.append((pre + 'too-many-fragments', {'fragments': len(frags)}))
                break
            off = len(got) * size
            res = client_run(['%s+%d' % (rng, off)], multiple)
            if len(res) != 1:
                raise common.HarnessError('no reply to a client request within %.0f s' % CLIENT_TIMEOUT)
            sts, ext, val, rpy = res[0]
            statuses.append(sts)
            if sts not in (0x00, 0x06):
                bad.append((pre + 'refused-at-%s' % ('offset-0' if off == 0 else 'continuation'),
                            {'status': sts, 'ext': ext, 'offset': off, 'received_elements': len(got), 'of': n}))
                break
            if rpy.get('read_frag.type') != rc.tcode(t):
                bad.append((pre + 'reply-type-code', {'type': rpy.get('read_frag.type'), 'want_type': rc.tcode(t)}))
                break
            if not val:
                bad.append((pre + 'empty-fragment', {'offset': off, 'status': sts}))
                break
            if len(val) > per:
                bad.append((pre + 'fragment-exceeds-budget', {'offset': off, 'elements': len(val), 'budget': eff, 'allowed': per}))
            frags.append(len(val))
            got.extend(val)
            if sts == 0x00:
                if len(got) != n:
                    bad.append((pre + ('final-status-before-all-data' if len(got) < n else 'more-data-than-requested'),
                                {'received_elements': len(got), 'of': n, 'fragments': frags[-8:]}))
                break
            if len(got) >= n:
                bad.append((pre + 'partial-status-although-all-data-sent', {'received_elements': len(got), 'of': n}))
                break
        if not bad or all(sig.endswith('fragment-exceeds-budget') for sig, _ in bad):
            try:
                have = canon_list(t, got)
            except Exception as exc:
                have = ['unrepresentable: %r' % (exc,)]
            if have != wantv:
                first = next((i for i, (a, b) in enumerate(zip(have, wantv)) if a != b), min(len(have), len(wantv)))
                bad.append((pre + 'data-mismatch', {'first_wrong_element': first, 'got': have[first:first + 6],
                                                    'want': wantv[first:first + 6], 'fragments': frags[:8]}))
        nontrivial = len(frags) >= 2
        classes.append('client:read:' + ('multi-fragment' if nontrivial else 'single-fragment'))
        if budget == 'default':
            classes.append('client:read:budget-default-488')
        for sig, detail in bad:
            detail['statuses'] = statuses[-6:]
    else:
        pieces, order = case['pieces'], case.get('order')
        if sum(pieces) != n or min(pieces) < 1:
            raise common.HarnessError('malformed client write case')
        starts = [0] + list(itertools.accumulate(pieces))[:-1]
        seq = list(range(len(pieces)))
        if order:
            seq = sorted(seq, key=lambda i: (order[i % len(order)], i))
        new = fill_values(t, case['new'], n, first=s)
        texts = ['%s+%d=(%s)%s' % (rng, starts[i] * size, t, ','.join(value_text(t, v) for v in new[starts[i]:starts[i] + pieces[i]]))
                 for i in seq]
        res = client_run(texts, multiple)
        if len(res) != len(texts):
            raise common.HarnessError('%d replies to %d client requests within %.0f s' % (len(res), len(texts), CLIENT_TIMEOUT))
        for k, (sts, ext, val, rpy) in enumerate(res):
            if sts != 0:
                bad.append((pre + 'piece-refused', {'status': sts, 'ext': ext, 'piece_elements': [starts[seq[k]], pieces[seq[k]]]}))
                break
        if not bad:
            want[name] = canon_list(t, old[:s]) + canon_list(t, new) + canon_list(t, old[s + n:])
            after = srv.snapshot()
            others = [k for k in want if k != name and after[k] != want[k]]
            if others:
                bad.append((pre + 'other-tag-changed', {'tags': others}))
            if after[name] != want[name]:
                wrong = [i for i in range(min(L, len(after[name]))) if after[name][i] != want[name][i]]
                inside = [i for i in wrong if s <= i < s + n]
                sig = 'range-content-wrong' if inside and len(inside) == len(wrong) else 'element-outside-range-changed'
                bad.append((pre + sig, {'elements': wrong[:8], 'got': [after[name][i] for i in wrong[:6]],
                                        'want': [want[name][i] for i in wrong[:6]], 'range': [s, s + n]}))
        nontrivial = len(pieces) >= 2
        classes.append('client:write:pieces' + ('>=2' if nontrivial else '=1'))
        if seq != sorted(seq):
            classes.append('client:write:pieces-out-of-order')
    stats.case(case, nontrivial=nontrivial, classes=classes)
    for sig, detail in bad:
        stats.fail('client', sig, case, observed=detail,
                   expected='the transfer driven through cpppo\'s client behaves as the statement says: 0x06 until a final 0x00, '
                            'fragments of 1..budget-rounded-up elements, data equal to the model; written pieces land exactly '
                            'in the range')


class _Lab(object):
    """Parent side of the laboratory process (forked on first use, ends when this process ends)."""
    inst = None

    def __init__(self):
        r1, w1 = os.pipe()
        r2, w2 = os.pipe()
        pid = os.fork()
        if pid == 0:
            code = 0
            try:
                os.close(w1)
                os.close(r2)
                _lab_child(r1, w2)
            except BaseException:
                code = 1
            finally:
                os._exit(code)
        os.close(r1)
        os.close(w2)
        self.pid, self.w, self.r, self.owner = pid, w1, r2, os.getpid()

    def _read(self, n):
        buf = b''
        while len(buf) < n:
            ready, _, _ = select.select([self.r], [], [], 20 * CLIENT_TIMEOUT)
            if not ready:
                raise common.HarnessError('client laboratory process did not answer')
            chunk = os.read(self.r, n - len(buf))
            if not chunk:
                raise common.HarnessError('client laboratory process died')
            buf += chunk
        return buf

    def call(self, case):
        body = pickle.dumps(case)
        os.write(self.w, struct.pack('<I', len(body)) + body)
        n = struct.unpack('<I', self._read(4))[0]
        return pickle.loads(self._read(n))


def _lab_child(r, w):
    def read(n):
        buf = b''
        while len(buf) < n:
            chunk = os.read(r, n - len(buf))
            if not chunk:
                os._exit(0)
            buf += chunk
        return buf

    _close()
    while True:
        n = struct.unpack('<I', read(4))[0]
        case = pickle.loads(read(n))
        scratch = Stats()
        try:
            common.run_pred(lab_client_case, case, scratch, 'client')
            answer = ('ok', scratch)
        except common.HarnessError as exc:
            answer = ('harness', str(exc))
        except BaseException as exc:
            answer = ('harness', 'unexpected %s in the client laboratory: %s' % (type(exc).__name__, str(exc)[:300]))
        body = pickle.dumps(answer)
        os.write(w, struct.pack('<I', len(body)) + body)


def pred_client(case, stats):
    if _Lab.inst is not None and _Lab.inst.owner != os.getpid():
        # inherited through fork from a process that has its own laboratory: not ours to talk to
        os.close(_Lab.inst.w)
        os.close(_Lab.inst.r)
        _Lab.inst = None
    if _Lab.inst is None:
        _Lab.inst = _Lab()
    kind, val = _Lab.inst.call(case)
    if kind != 'ok':
        raise common.HarnessError(val)
    stats.merge(val)


CLAUSES = {'read': pred_read, 'write': pred_write, 'client': pred_client}


# ------------------------------------------------------------------------------------------------
# exhaustive enumeration

def starts_of(L):
    """(elem field, start index): start 0 both implied (no element segment) and explicit."""
    return [(None, 0)] + [(e, e) for e in range(L)]


def read_groups(types, maxL, maxL_msp):
    """One group per simulator configuration (type, L, budget): the cases inside share one Device."""
    for t in types:
        size = rc.tsize(t)
        for L in range(1, maxL + 1):
            for budget in range(1, 3 * size + 2):
                yield ('read', t, L, budget, maxL_msp)


def read_group_cases(group):
    _, t, L, budget, maxL_msp = group
    fill = enum_fill(t)
    drives = ['us'] + (['msp'] if L <= maxL_msp else [])
    for drive in drives + ['direct']:       # 'direct' last: it needs MAX_BYTES untouched, hence another Device
        for elem, s in starts_of(L):
            for n in range(1, L - s + 1):
                yield {'kind': 'read', 'type': t, 'length': L, 'elem': elem, 'count': n, 'budget': budget, 'drive': drive,
                       'fill': fill}


def compositions(n):
    """All ordered tilings of n elements into pieces >= 1."""
    for cuts in itertools.product((0, 1), repeat=n - 1):
        pieces, run = [], 1
        for c in cuts:
            if c:
                pieces.append(run)
                run = 1
            else:
                run += 1
        pieces.append(run)
        yield pieces


def write_groups(types, maxL, maxL_msp):
    for t in types:
        for L in range(1, maxL + 1):
            yield ('write', t, L, None, maxL_msp)


def write_group_cases(group):
    _, t, L, _, maxL_msp = group
    old, new = enum_fill(t), enum_fill(t, salt=1)
    if t in M.FLOAT_TYPES:
        new = dict(new, anchors=[-7.75, 2.5e-7, 1.0e12])
    for drive in ['us'] + (['msp'] if L <= maxL_msp else []):
        for elem, s in starts_of(L):
            for n in range(1, L - s + 1):
                for pieces in compositions(n):
                    yield {'kind': 'write', 'type': t, 'length': L, 'elem': elem, 'count': n, 'pieces': pieces, 'order': None,
                           'drive': drive, 'old': old, 'new': new}


def shard_groups(groups):
    s = Stats()
    try:
        for g in groups:
            if g[0] == 'read':
                for case in read_group_cases(g):
                    common.run_pred(pred_read, case, s, 'read')
            else:
                for case in write_group_cases(g):
                    common.run_pred(pred_write, case, s, 'write')
    finally:
        _close()
    return s


# ------------------------------------------------------------------------------------------------
# Hypothesis: large cases

def fill_strategy(t):
    return st.fixed_dictionaries({
        'anchors': st.lists(tagcheck.value_of(t), min_size=1, max_size=8),
        'stride': st.integers(1, 1000),
        'salt': st.integers(0, 1000),
    })


def length_strategy():
    # tags beyond 32768 elements (the harness bound is 65535): start indices in the upper half of the 16-bit element segment
    return st.one_of(st.integers(1, 40), st.integers(41, 700), st.integers(701, 5000), st.sampled_from([5000, 4999, 1000]),
                     st.sampled_from([32770, 40000, 65535]))


@st.composite
def range_strategy(draw, L, unit, nmax_cap):
    """(elem, s, n): in bounds; biased to ranges ending at the tag end and to counts next to a multiple of unit
    (= elements per fragment / per piece), never more than nmax_cap elements (cost bound)."""
    starts = [st.just(0), st.integers(0, L - 1), st.integers(max(0, L - 3), L - 1)]
    if L > 32768:
        starts += [st.integers(32766, min(L - 1, 32770))] * 2
    s = draw(st.one_of(*starts))
    nmax = min(L - s, nmax_cap)
    near = st.builds(lambda k, d: min(nmax, max(1, k * unit + d)), st.integers(1, max(1, nmax // unit)), st.integers(-1, 1))
    n = draw(st.one_of(st.just(nmax), st.integers(1, nmax), near, near))
    elem = None if (s == 0 and draw(st.booleans())) else s
    return elem, s, n


@st.composite
def read_cases(draw, maxfrag):
    t = draw(st.sampled_from(FIXED))
    size = rc.tsize(t)
    L = draw(length_strategy())
    budget = draw(st.one_of(st.just('default'), st.just('default'), st.just(488), st.integers(1, 64), st.integers(65, 1000),
                            st.builds(lambda k, d: max(1, k * size + d), st.integers(1, 120), st.integers(-1, 1))))
    eff = DEFAULT_BUDGET if budget == 'default' else budget
    per = -(-eff // size)
    elem, s, n = draw(range_strategy(L, per, maxfrag * per))
    drive = draw(st.sampled_from(['us', 'us', 'msp', 'direct']))
    return {'kind': 'read', 'type': t, 'length': L, 'elem': elem, 'count': n, 'budget': budget, 'drive': drive,
            'fill': draw(fill_strategy(t))}


@st.composite
def write_cases(draw, max_bytes):
    t = draw(st.sampled_from(FIXED))
    size = rc.tsize(t)
    L = draw(length_strategy())
    pmax = max(1, 480 // size)                          # elements in one piece at most
    unit = draw(st.sampled_from([1, 2, 3, 7, pmax, pmax, max(1, pmax // 2)]))
    unit = min(unit, pmax)
    # cost bound: at most max_bytes of data and about 60 pieces (<= 120 in the worst case) per transfer
    elem, s, n = draw(range_strategy(L, unit, max(1, min(max_bytes // size, 60 * unit))))
    style = draw(st.sampled_from(['equal', 'equal', 'random', 'random', 'ones', 'whole']))
    pieces, left = [], n
    if style == 'whole' and n <= pmax:
        pieces = [n]
    elif style == 'ones' and n <= 40:
        pieces = [1] * n
    else:
        while left:
            if len(pieces) >= 60:
                ln = pmax
            else:
                ln = unit if style == 'equal' else draw(st.integers(1, pmax if len(pieces) % 3 else max(1, unit)))
            ln = min(ln, left, pmax)
            pieces.append(ln)
            left -= ln
    order = None
    if len(pieces) > 1 and draw(st.integers(0, 2)) == 0:
        order = draw(st.lists(st.integers(0, 7), min_size=1, max_size=min(len(pieces), 12)))
    old, new = draw(fill_strategy(t)), draw(fill_strategy(t))
    if draw(st.integers(0, 7)) == 0:
        # values that compare equal but are different bit patterns / differ in one place only: a fragment that "changes nothing"
        # by == must still be stored (floats: -0.0 over +0.0 and back; integers: the same recipe with one anchor changed)
        if t in M.FLOAT_TYPES:
            old, new = draw(st.sampled_from([({'const': 0.0}, {'const': -0.0}), ({'const': -0.0}, {'const': 0.0})]))
        else:
            new = dict(old, anchors=list(old['anchors']))
            new['anchors'][0] = draw(tagcheck.value_of(t))
    return {'kind': 'write', 'type': t, 'length': L, 'elem': elem, 'count': n, 'pieces': pieces, 'order': order,
            'drive': draw(st.sampled_from(['us', 'us', 'msp'])), 'old': old, 'new': new}


@st.composite
def client_cases(draw, maxfrag):
    t = draw(st.sampled_from(sorted(CLIENT_TAGS)))
    size, L = rc.tsize(t), CLIENT_TAGS[t]
    case = {'kind': 'client', 'op': draw(st.sampled_from(['read', 'read', 'write'])), 'type': t, 'length': L,
            'multiple': draw(st.integers(0, 2)) == 0, 'fill': draw(fill_strategy(t))}
    if case['op'] == 'read':
        budget = draw(st.one_of(st.just('default'), st.integers(1, 40), st.integers(1, 12), st.integers(41, 500)))
        eff = DEFAULT_BUDGET if budget == 'default' else budget
        unit = -(-eff // size)
        cap = maxfrag * unit
    else:
        budget = 'default'
        pmax = max(1, 400 // size)
        unit = min(pmax, draw(st.sampled_from([1, 2, 5, pmax])))
        cap = 12 * pmax
    elem, s, n = draw(range_strategy(L, unit, cap))
    case.update(elem=s, count=n, budget=budget)       # the textual form TAG[a-b] always names the first element
    if case['op'] == 'write':
        pieces, left = [], n
        while left:
            ln = min(left, pmax, unit if draw(st.booleans()) else draw(st.integers(1, pmax)))
            pieces.append(ln)
            left -= ln
        order = None
        if len(pieces) > 1 and draw(st.integers(0, 2)) == 0:
            order = draw(st.lists(st.integers(0, 7), min_size=1, max_size=min(len(pieces), 12)))
        case.update(pieces=pieces, order=order, new=draw(fill_strategy(t)))
    return case


STRATEGIES = {'read': lambda skey: read_cases(skey), 'write': lambda skey: write_cases(skey),
              'client': lambda skey: client_cases(skey)}


def shard_client(job):
    seed, shard, n, maxfrag = job
    s = Stats()
    common.hyp_run(s, client_cases(maxfrag), pred_client, n, common.shard_seed(seed, 900 + shard), 'client', PID, skey=maxfrag)
    return s


def shard_random(job):
    seed, shard, n_read, n_write, maxfrag, max_bytes = job
    s = Stats()
    try:
        common.hyp_run(s, read_cases(maxfrag), pred_read, n_read, common.shard_seed(seed, shard), 'read', PID, skey=maxfrag)
        common.hyp_run(s, write_cases(max_bytes), pred_write, n_write, common.shard_seed(seed, shard) + 500, 'write', PID,
                       skey=max_bytes)
    finally:
        _close()
    return s


def shard(job):
    return {'client': shard_client, 'random': shard_random, 'groups': shard_groups}[job[0]](job[1])


# ------------------------------------------------------------------------------------------------

def run(tier, seed):
    thorough = tier == 'thorough'
    stats = Stats()
    types = SIZE_TYPES_THOROUGH if thorough else SIZE_TYPES_QUICK
    rL, rL_msp = (12, 12) if thorough else (8, 4)
    wL, wL_msp = (9, 6) if thorough else (6, 3)
    groups = list(read_groups(types, rL, rL_msp)) + list(write_groups(types, wL, wL_msp))
    # biggest groups first, dealt round-robin into many small jobs: the pool balances the load
    groups.sort(key=lambda g: (-g[2], g[0], g[1], g[3] or 0))
    njobs = 96 if thorough else 48
    jobs = [('groups', groups[i::njobs]) for i in range(njobs) if groups[i::njobs]]
    stats.exhaustive['read'] = (
        'types %s x tag length 1..%d x start {implied 0, explicit 0..L-1} x count 1..L-start x budget 1..3*size+1 x '
        '{Unconnected Send + MAX_BYTES, Logix object + max_size, and for L <= %d Multiple Service Packet + MAX_BYTES}'
        % ('/'.join(types), rL, rL_msp))
    stats.exhaustive['write'] = (
        'types %s x tag length 1..%d x start {implied 0, explicit 0..L-1} x count n = 1..L-start x all 2^(n-1) in-order '
        'tilings of n elements x {Unconnected Send, and for L <= %d Multiple Service Packet}' % ('/'.join(types), wL, wL_msp))
    # Hypothesis-drawn large cases (job = seed, shard, reads, writes, max fragments per read, max bytes per write) and
    # the client-driven transfers; the long jobs are queued first
    if thorough:
        rnd = [('random', (seed, i, 200, 80, 200, 20000)) for i in range(64)]
        cli = [('client', (seed, i, 150, 40)) for i in range(6)]
    else:
        rnd = [('random', (seed, i, 32, 14, 90, 6000)) for i in range(16)]
        cli = [('client', (seed, i, 60, 25)) for i in range(2)]
    common.parallel(shard, cli + rnd + jobs, stats=stats)
    return stats
