"""
C14 -- independent Logix client implementations interoperate with the simulator.

(1) pylogix (an independent EtherNet/IP client): generated call histories -- connect (Register + Forward Open,
    small and large connection sizes), Read / Read of arrays larger than one reply (pylogix continues with Read Tag
    Fragmented), Write (incl. fragmented writes), multi-tag Read (Multiple Service Packet, incl. failing members),
    out-of-range and unknown tags, Close -- against a real TCP simulator; returned Values/Statuses and the
    simulator's Attribute values are compared with the typed-array model.
(2) the reference codec (vp/refcodec.py, no code shared with cpppo): raw Register, SendRRData(Unconnected Send) and
    Forward Open + SendUnitData requests for every Logix service interleaved into the same histories; replies must
    decode under the strict reference decoder and carry the model's values.
"""
from __future__ import annotations

import struct
import time

from hypothesis import strategies as st

from .. import common, model as M, refcodec as rc, sim, tagcheck
from ..common import Stats

PID = 'C14'
LEVEL = 'exploration'
RULE = ('case = connection size (default/500/4000) + history of 1..N client calls: pylogix Read/Write (scalar, ranges, arrays '
        'larger than one reply, multi-tag reads with failing members, out-of-range, unknown tag) interleaved with raw requests '
        'encoded by the reference codec (unconnected and connected/Forward-Open sessions), then Close; oracle = typed-array '
        'model for values and statuses, strict reference decoder for raw replies, server-side Attribute values, forward-open '
        'table emptied after Close; non-trivial = history with a value written through one client form and read back through '
        'the other, or a fragmented (multi-reply) read, or a multi-read containing a failing member')
ASSUMPTIONS = [
    'pylogix 1.1.6 is the independent implementation; its port is set through PLC(port=...)',
    'types both sides support: BOOL SINT INT DINT LINT USINT UINT UDINT ULINT(LWORD) REAL LREAL; strings/UDTs are not '
    'exercised through pylogix (its STRING is a Logix UDT, not the CIP SSTRING/STRING the simulator stores)',
    'documented error classes: out-of-range => CIP status 0xFF (pylogix "Unknown error 255"); unknown tag on a connected '
    'session => "Path destination unknown"',
    'one TCP simulator per forked worker; tag values are reset in-process at the start of every case',
    'socket timeouts (5 s) are inconclusive (harness error), never violations',
]
MIN_EVALUATIONS = {'quick': 100, 'thorough': 2000}

SPECS = [
    {'name': 'A', 'type': 'INT', 'length': 10, 'address': None},
    {'name': 'B', 'type': 'REAL', 'length': 1, 'address': None},
    {'name': 'Big', 'type': 'DINT', 'length': 700, 'address': None},
    {'name': 'Boo', 'type': 'BOOL', 'length': 4, 'address': None},
    {'name': 'U64', 'type': 'ULINT', 'length': 3, 'address': None},
    {'name': 'S8', 'type': 'SINT', 'length': 5, 'address': None},
    {'name': 'L64', 'type': 'LINT', 'length': 2, 'address': None},
    {'name': 'U8', 'type': 'USINT', 'length': 6, 'address': [0x93, 1, 2]},
    {'name': 'U16', 'type': 'UINT', 'length': 4, 'address': None},
    {'name': 'U32', 'type': 'UDINT', 'length': 3, 'address': None},
    {'name': 'D', 'type': 'LREAL', 'length': 3, 'address': None},
    {'name': 'Scalar', 'type': 'DINT', 'length': 1, 'address': None},
    {'name': 'Huge', 'type': 'DINT', 'length': 17000, 'address': None},       # more than 64 KiB: fragment offsets beyond 16 bits
    # dotted names sharing leading components (pylogix sends one symbolic segment per component)
    {'name': 'Motor.Speed', 'type': 'DINT', 'length': 1, 'address': None},
    {'name': 'Motor.Amps', 'type': 'REAL', 'length': 4, 'address': None},
    {'name': 'Motor.Cfg.Max', 'type': 'INT', 'length': 2, 'address': None},
] + [   # one scalar tag of every type both sides support (scalars go through the simulator's own default/assignment path)
    {'name': 'S_' + t, 'type': t, 'length': 1, 'address': None}
    for t in ('BOOL', 'SINT', 'INT', 'LINT', 'USINT', 'UINT', 'UDINT', 'ULINT', 'REAL', 'LREAL')
]
BYNAME = {s['name']: s for s in SPECS}
HUGE_VALUES = [100000 + i for i in range(17000)]


@st.composite
def op(draw):
    kind = draw(st.sampled_from(['read', 'read', 'write', 'write', 'multi', 'bigread', 'bigwrite', 'oob', 'unknown', 'unknown',
                                 'raw_read', 'raw_write', 'conn_read', 'conn_write', 'conn_read', 'abrupt', 'raw_oob', 'conn_oob',
                                 'conn_unknown', 'hugeread']))
    if kind == 'hugeread':
        # Read Tag Fragmented of the whole 17000-element tag at a byte offset around / beyond 65536
        return {'kind': kind, 'elem_offset': draw(st.sampled_from([16383, 16384, 16385, 16500, 16990])), 'connected': draw(st.booleans())}
    if kind == 'conn_unknown':
        return {'kind': kind, 'tag': draw(st.sampled_from(['Nope', 'A_', 'Bigg']))}
    if kind == 'abrupt':
        return {'kind': kind}
    if kind in ('raw_oob', 'conn_oob'):
        s = draw(st.sampled_from([x for x in SPECS if x['name'] not in ('Big', 'Huge')]))
        L = s['length']
        e = draw(st.sampled_from([L, L + 1, 1000] + ([L - 1] if L > 1 else [])))
        n = 2 if e == L - 1 else draw(st.sampled_from([1, 2]))
        return {'kind': kind, 'tag': s['name'], 'elem': e, 'count': n, 'write': draw(st.booleans()), 'frag': draw(st.booleans()),
                'values': draw(st.lists(tagcheck.value_of(s['type']), min_size=n, max_size=n))}
    if kind in ('bigread', 'bigwrite'):
        n = draw(st.sampled_from([121, 122, 123, 124, 200, 244, 366, 488, 490, 610, 700]))     # incl. whole multiples of one reply (122 DINTs)
        start = draw(st.integers(0, 700 - n))
        o = {'kind': kind, 'tag': 'Big', 'elem': start, 'count': n}
        if kind == 'bigwrite':
            base = draw(st.integers(-2 ** 31, 2 ** 31 - 1 - n))
            o['values'] = [base + i for i in range(n)]
        return o
    if kind == 'unknown':
        return {'kind': kind, 'tag': draw(st.sampled_from(['Nope', 'A_', 'Bigg', 'Motor.Nope', 'Motor.Cfg.Min', 'Motor']))}
    s = draw(st.sampled_from([x for x in SPECS if x['name'] not in ('Big', 'Huge')]))
    L = s['length']
    if kind == 'multi':
        members = []
        for _ in range(draw(st.integers(2, 6))):
            m = draw(st.sampled_from([x for x in SPECS if x['name'] != 'Huge']))
            e = draw(st.integers(0, m['length'] - 1))
            if draw(st.integers(0, 5)) == 0:
                e = m['length'] + draw(st.integers(0, 3))       # failing member
            members.append({'tag': m['name'], 'elem': e})
        return {'kind': kind, 'members': members}
    if kind == 'oob':
        e = draw(st.sampled_from([L - 1, L, L + 1, 1000]))
        n = draw(st.sampled_from([1, 2, L, L + 1]))
        if e + n <= L:
            n = L - e + 1
        return {'kind': kind, 'tag': s['name'], 'elem': e, 'count': n}
    e = draw(st.integers(0, L - 1))
    n = draw(st.integers(1, L - e))
    o = {'kind': kind, 'tag': s['name'], 'elem': e, 'count': n}
    if kind.endswith('write'):
        o['values'] = draw(st.lists(tagcheck.value_of(s['type']), min_size=n, max_size=n))
    if kind.startswith('raw') or kind.startswith('conn'):
        o['frag'] = draw(st.booleans())
    return o


@st.composite
def cases(draw, k):
    return {'connection_size': draw(st.sampled_from([None, 500, 4000])),
            'seq0': draw(st.sampled_from([0, 0, 0x7FFD, 0x7FFE, 0x7FFF, 0xFFFD, 0xFFFE, 0x8000])),
            'portless': draw(st.booleans()), 'micro800': draw(st.integers(0, 3)) == 0, 'hops': draw(st.sampled_from([1, 1, 2])),
            'pylogix_route': draw(st.integers(0, 3)) == 0,
            'ops': draw(st.lists(op(), min_size=1, max_size=k))}


# -- raw connected session (Forward Open + SendUnitData), reference codec only


class Connected(object):
    def __init__(self, server, large=False, seq0=0, portless=False, hops=1):
        self.s = sim.TcpSession(server)
        self.seq = seq0 & 0xFFFF          # the 16-bit sequence count starts anywhere and wraps
        fo = {'priority': 0x0A, 'timeout_ticks': 0x0E, 'O_T_connection_ID': 0x20000002, 'T_O_connection_ID': 0x20000001,
              'connection_serial': 0x1234, 'O_vendor': 0x1337, 'O_serial': 42, 'connection_timeout_multiplier': 3,
              'O_T_RPI': 0x00201234, 'O_T_NCP': (0x42000000 | 4000) if large else (0x4200 | 500), 'T_O_RPI': 0x00204001,
              'T_O_NCP': (0x42000000 | 4000) if large else (0x4200 | 500), 'transport_class_triggers': 0xA3,
              'connection_path': ([] if portless else [{'port': 1, 'link': 0}] + ([{'port': 2, 'link': '10.1.2.3'}] if hops > 1 else []))
                                 + [{'class': 2}, {'instance': 1}]}
        # (portless: the connection path of a device without a backplane, e.g. pylogix Micro800 mode: 20 02 24 01)
        self.fo = fo
        out = self.s.send(rc.enc_forward_open(fo, large=large), wrap=False)
        if out['reply'] is None:
            raise rc.RefDecodeError('Forward Open got no CIP reply: %r' % (out.get('enip_status'),))
        rc._need(out['reply']['service'] == ((0x5B if large else 0x54) | 0x80),
                 'Forward Open reply service 0x%02X is not the request service with the reply bit' % out['reply']['service'])
        self.reply = rc.dec_forward_open_reply(out['reply'])
        # the simulator documents that it grants the requested packet intervals (API = RPI) and echoes the connection triple
        rc._need(self.reply['O_T_API'] == fo['O_T_RPI'] and self.reply['T_O_API'] == fo['T_O_RPI'],
                 'Forward Open reply intervals O->T %#x T->O %#x differ from the requested %#x / %#x' % (
                     self.reply['O_T_API'], self.reply['T_O_API'], fo['O_T_RPI'], fo['T_O_RPI']))
        rc._need((self.reply['connection_serial'], self.reply['O_vendor'], self.reply['O_serial']) == (fo['connection_serial'], fo['O_vendor'], fo['O_serial']),
                 'Forward Open reply does not echo the connection serial / vendor / originator serial')
        self.conn_id = self.reply['O_T_connection_ID']

    def send(self, message):
        self.seq = (self.seq + 1) & 0xFFFF
        ctx = self.s.context()
        frame = rc.encap(rc.CMD['send_unit_data'], self.s.handle, rc.send_unit_data(self.conn_id, self.seq, message), ctx)
        try:
            self.s.sock.sendall(frame)
        except (BrokenPipeError, ConnectionResetError):
            return None         # the simulator has ended this session (after an earlier failure)
        frames, left, eof = sim.recv_frames(self.s.sock, 1, 5.0)
        if not frames:
            if eof:
                return None
            raise common.HarnessError('timeout on connected raw request')
        e = rc.dec_encap(frames[0])
        rc._need(e['command'] == rc.CMD['send_unit_data'] and e['status'] == 0 and e['context'] == ctx and e['session'] == self.s.handle,
                 'SendUnitData reply header: %r' % (e,))
        sd = rc.dec_send_data(e['payload'])
        items = sd['items']
        rc._need(len(items) == 2 and items[0][0] == 0x00A1 and len(items[0][1]) == 4 and items[1][0] == 0x00B1,
                 'SendUnitData reply CPF shape: %r' % ([(t, len(d)) for t, d in items],))
        rc._need(len(items[1][1]) >= 2 and struct.unpack_from('<H', items[1][1], 0)[0] == self.seq, 'sequence count not echoed')
        return rc.dec_mr_reply(items[1][1][2:])

    def close(self):
        try:
            out = self.s.send(rc.enc_forward_close({'priority': 0x0A, 'timeout_ticks': 0x0E, 'connection_serial': 0x1234,
                                                    'O_vendor': 0x1337, 'O_serial': 42,
                                                    'connection_path': self.fo['connection_path']}), wrap=False)
            if out['reply'] is not None:
                rc.dec_forward_close_reply(out['reply'])
            return out
        finally:
            self.s.close()


_SERVER = [None]


_INITIAL = {}


def reset_tags(server):
    """Restore the values the simulator itself gave its tags at start-up (not values of the harness' choosing: the
    Python type of a scalar tag's initial value decides how the simulator stores later writes)."""
    import os
    if _INITIAL.get('pid') != os.getpid():
        _INITIAL.clear()
        _INITIAL['pid'] = os.getpid()
        _INITIAL['values'] = {s['name']: list(server.values(s['name'])) for s in SPECS}
    for name, vals in _INITIAL['values'].items():
        server.set_values(name, list(vals))


def value_eq(t, got, want):
    if got is None:
        return False
    if not isinstance(got, (list, tuple)):
        got = [got]
    if len(got) != len(want):
        return False
    return M.same_values(t, list(got), list(want))


def pred(case, stats):
    from pylogix import PLC
    from cpppo.server.enip import device
    server = sim.per_process('c14', lambda: sim.TcpServer(SPECS))
    reset_tags(server)
    mdl = M.Model(SPECS)
    server.set_values('Huge', HUGE_VALUES)
    mdl.tags['Huge']['values'][:] = HUGE_VALUES
    classes = set()
    nontrivial = False
    last_writer = {}        # tag -> 'pylogix' | 'raw'

    def fail(sig, observed, expected):
        stats.fail('history', sig, case, observed=observed, expected=expected)

    plc = PLC('127.0.0.1', port=server.address[1], timeout=5.0)
    if case['connection_size']:
        plc.ConnectionSize = case['connection_size']
    if case.get('micro800'):
        plc.Micro800 = True         # pylogix then opens its connection with a port-less connection path
    elif case.get('pylogix_route'):
        plc.Route = [(1, 0), (2, '10.1.2.3')]       # a two-hop connection path (an unconfigured simulator accepts any route)
    raw = None
    conn = None
    try:
        for step, o in enumerate(case['ops']):
            k = o['kind']
            classes.add(k)
            if k in ('read', 'bigread'):
                s = BYNAME[o['tag']]
                want = mdl.tags[o['tag']]['values'][o['elem']:o['elem'] + o['count']]
                r = plc.Read('%s[%d]' % (o['tag'], o['elem']) if s['length'] > 1 else o['tag'], o['count'])
                if r.Status != 'Success' or not value_eq(s['type'], r.Value, want):
                    fail('pylogix-read', {'step': step, 'op': o, 'status': r.Status, 'value': M._v(r.Value if isinstance(r.Value, list) else [r.Value])},
                         {'status': 'Success', 'value': M._v(want)})
                if last_writer.get(o['tag']) == 'raw':
                    nontrivial = True
                    classes.add('raw-write-read-by-pylogix')
                if k == 'bigread':
                    nontrivial = True
            elif k in ('write', 'bigwrite'):
                s = BYNAME[o['tag']]
                vals = o['values']
                r = plc.Write('%s[%d]' % (o['tag'], o['elem']) if s['length'] > 1 else o['tag'], vals if len(vals) > 1 else vals[0])
                if r.Status != 'Success':
                    fail('pylogix-write', {'step': step, 'op': o, 'status': r.Status}, {'status': 'Success'})
                else:
                    for i, v in enumerate(vals):
                        mdl.tags[o['tag']]['values'][o['elem'] + i] = M.convert(s['type'], s['type'], v)[0]
                    last_writer[o['tag']] = 'pylogix'
            elif k == 'multi':
                names = ['%s[%d]' % (m['tag'], m['elem']) if BYNAME[m['tag']]['length'] > 1 else m['tag'] for m in o['members']]
                rs = plc.Read(names)
                if not isinstance(rs, list) or len(rs) != len(names):
                    fail('pylogix-multi-read-shape', {'step': step, 'op': o, 'result': repr(rs)[:300]}, 'one Response per tag')
                else:
                    anyfail = False
                    for m, r in zip(o['members'], rs):
                        s = BYNAME[m['tag']]
                        if m['elem'] >= s['length'] or (s['length'] == 1 and m['elem'] > 0):
                            anyfail = True
                            if s['length'] == 1:
                                continue        # name carries no index for scalars; nothing to fail
                            if r.Status == 'Success':
                                fail('pylogix-multi-read-out-of-range-accepted', {'step': step, 'member': m, 'value': repr(r.Value)},
                                     'an error status for the out-of-range member')
                        else:
                            want = [mdl.tags[m['tag']]['values'][m['elem']]]
                            if r.Status != 'Success' or not value_eq(s['type'], r.Value, want):
                                fail('pylogix-multi-read-member', {'step': step, 'member': m, 'status': r.Status, 'value': repr(r.Value)},
                                     {'status': 'Success', 'value': M._v(want)})
                    if anyfail:
                        nontrivial = True
                        classes.add('multi-with-failing-member')
            elif k == 'oob':
                r = plc.Read('%s[%d]' % (o['tag'], o['elem']), o['count'])
                if r.Status == 'Success' or r.Value is not None:
                    fail('pylogix-out-of-range-read-accepted', {'step': step, 'op': o, 'status': r.Status, 'value': repr(r.Value)[:100]},
                         'error status (CIP 0xFF), no value')
                elif '255' not in r.Status:
                    fail('pylogix-out-of-range-status', {'step': step, 'op': o, 'status': r.Status}, 'CIP status 0xFF (255)')
            elif k == 'hugeread':
                off = 4 * o['elem_offset']
                msg = rc.req_read_frag([{'symbolic': 'Huge'}], 17000, off)
                try:
                    if o['connected']:
                        if conn is None:
                            conn = Connected(server, large=bool(case['connection_size'] and case['connection_size'] > 511), seq0=case.get('seq0', 0), portless=bool(case.get('portless')), hops=case.get('hops', 1))
                        rpy = conn.send(msg)
                    else:
                        if raw is None:
                            raw = sim.TcpSession(server)
                        out = raw.send(msg, wrap=True)
                        if out['kind'] == 'timeout':
                            raise common.HarnessError('timeout on raw request')
                        rpy = out['reply']
                    if rpy is None:
                        fail('raw-request-without-cip-reply', {'step': step, 'op': o}, 'a fragment of the tag')
                        raw = None if not o['connected'] else raw
                        conn = None if o['connected'] else conn
                        continue
                    if rpy['service'] != 0xD2 or rpy['status'] not in (0, 6):
                        fail('raw-reply-status', {'step': step, 'op': o, 'reply': M._r(rpy)}, {'service': 0xD2, 'status': '0x00 or 0x06'})
                        continue
                    t, vals = rc.dec_read_reply(rpy, 'DINT')
                except rc.RefDecodeError as exc:
                    fail('raw-reply-rejected-by-reference-decoder', {'step': step, 'op': o, 'error': str(exc)}, 'typed data')
                    continue
                want = mdl.tags['Huge']['values'][o['elem_offset']:o['elem_offset'] + len(vals)]
                if not vals or vals != want:
                    fail('raw-read-data', {'step': step, 'op': o, 'got': vals[:4], 'elements': len(vals)}, {'want': want[:4], 'from_element': o['elem_offset']})
                nontrivial = True
                classes.add('fragment-offset-beyond-64KiB' if off >= 65536 else 'fragment-offset-below-64KiB')
            elif k == 'conn_unknown':
                # unknown tag on the reference codec's connected session: a CIP error reply, and the session goes on
                try:
                    if conn is None:
                        conn = Connected(server, large=bool(case['connection_size'] and case['connection_size'] > 511), seq0=case.get('seq0', 0), portless=bool(case.get('portless')), hops=case.get('hops', 1))
                    rpy = conn.send(rc.req_read_tag([{'symbolic': o['tag']}], 1))
                except rc.RefDecodeError as exc:
                    fail('raw-reply-rejected-by-reference-decoder', {'step': step, 'op': o, 'error': str(exc)}, 'a CIP error reply on the connected session')
                    conn = None
                    continue
                if rpy is None:
                    fail('raw-request-without-cip-reply', {'step': step, 'op': o, 'portless_connection_path': bool(case.get('portless'))},
                         'a CIP error reply (the connected session stays up)')
                    conn = None
                    continue
                if rpy['status'] == 0:
                    fail('raw-unknown-tag-accepted', {'step': step, 'op': o, 'reply': M._r(rpy)}, 'a non-zero CIP status')
                classes.add('conn-unknown-tag' + (':portless' if case.get('portless') else ''))
            elif k == 'abrupt':
                # another connected session of the same host that ends without Forward Close / Unregister (a crashed client)
                try:
                    other = Connected(server, large=False, seq0=case.get('seq0', 0), portless=bool(case.get('portless')), hops=case.get('hops', 1))
                    other.send(rc.req_read_tag([{'symbolic': 'A'}], 1))
                    other.s.sock.close()
                except rc.RefDecodeError as exc:
                    fail('raw-reply-rejected-by-reference-decoder', {'step': step, 'op': o, 'error': str(exc)}, 'Forward Open and a read on a second session')
                time.sleep(0.05)
            elif k in ('raw_oob', 'conn_oob'):
                s = BYNAME[o['tag']]
                path = [{'symbolic': o['tag']}, {'element': o['elem']}]
                if o['write']:
                    msg = (rc.req_write_frag(path, s['type'], o['values'], o['count'], 0) if o['frag'] else rc.req_write_tag(path, s['type'], o['values']))
                else:
                    msg = rc.req_read_frag(path, o['count'], 0) if o['frag'] else rc.req_read_tag(path, o['count'])
                try:
                    if k == 'raw_oob':
                        if raw is None:
                            raw = sim.TcpSession(server)
                        out = raw.send(msg, wrap=True)
                        if out['kind'] == 'timeout':
                            raise common.HarnessError('timeout on raw request')
                        rpy = out['reply']
                    else:
                        if conn is None:
                            conn = Connected(server, large=bool(case['connection_size'] and case['connection_size'] > 511), seq0=case.get('seq0', 0), portless=bool(case.get('portless')), hops=case.get('hops', 1))
                        rpy = conn.send(msg)
                except rc.RefDecodeError as exc:
                    fail('raw-reply-rejected-by-reference-decoder', {'step': step, 'op': o, 'error': str(exc)}, 'a reply the strict reference decoder accepts')
                    continue
                if rpy is None:
                    fail('raw-request-without-cip-reply', {'step': step, 'op': o}, 'a CIP reply with status 0xFF / 0x2105')
                    raw = None if k == 'raw_oob' else raw
                    continue
                if rpy['service'] != (msg[0] | 0x80) or rpy['status'] != 0xFF or list(rpy['ext']) != [0x2105]:
                    fail('raw-out-of-range-status', {'step': step, 'op': o, 'reply': M._r(rpy)},
                         {'service': msg[0] | 0x80, 'status': 0xFF, 'extended': [0x2105]})
                classes.add('raw-out-of-range-' + ('write' if o['write'] else 'read'))
            elif k == 'unknown':
                r = plc.Read(o['tag'])
                if r.Status == 'Success' or r.Value is not None:
                    fail('pylogix-unknown-tag-accepted', {'step': step, 'op': o, 'status': r.Status}, 'an error status, no value')
            else:
                # raw requests through the reference codec: unconnected (raw_*) or connected (conn_*)
                s = BYNAME[o['tag']]
                path = [{'symbolic': o['tag']}, {'element': o['elem']}]
                if k.endswith('read'):
                    msg = rc.req_read_frag(path, o['count'], 0) if o.get('frag') else rc.req_read_tag(path, o['count'])
                else:
                    msg = (rc.req_write_frag(path, s['type'], o['values'], o['count'], 0) if o.get('frag')
                           else rc.req_write_tag(path, s['type'], o['values']))
                try:
                    if k.startswith('raw'):
                        if raw is None:
                            raw = sim.TcpSession(server)
                        out = raw.send(msg, wrap=True)
                        if out['kind'] == 'timeout':
                            raise common.HarnessError('timeout on raw request')
                        rpy = out['reply']
                    else:
                        if conn is None:
                            conn = Connected(server, large=bool(case['connection_size'] and case['connection_size'] > 511), seq0=case.get('seq0', 0), portless=bool(case.get('portless')), hops=case.get('hops', 1))
                        rpy = conn.send(msg)
                except rc.RefDecodeError as exc:
                    fail('raw-reply-rejected-by-reference-decoder', {'step': step, 'op': o, 'error': str(exc)},
                         'a reply the strict reference decoder accepts')
                    continue
                if rpy is None:
                    fail('raw-request-without-cip-reply', {'step': step, 'op': o}, 'a CIP reply')
                    raw = None if k.startswith('raw') else raw
                    continue
                want_service = msg[0] | 0x80
                if rpy['service'] != want_service or rpy['status'] != 0:
                    fail('raw-reply-status', {'step': step, 'op': o, 'reply': M._r(rpy)}, {'service': want_service, 'status': 0})
                    continue
                if k.endswith('read'):
                    want = mdl.tags[o['tag']]['values'][o['elem']:o['elem'] + o['count']]
                    try:
                        t, vals = rc.dec_read_reply(rpy, s['type'])
                    except rc.RefDecodeError as exc:
                        fail('raw-reply-rejected-by-reference-decoder', {'step': step, 'op': o, 'error': str(exc)}, 'typed data of the tag type')
                        continue
                    if not M.same_values(s['type'], vals, want):
                        fail('raw-read-data', {'step': step, 'op': o, 'got': M._v(vals)}, {'want': M._v(want)})
                    if last_writer.get(o['tag']) == 'pylogix':
                        nontrivial = True
                        classes.add('pylogix-write-read-by-raw')
                else:
                    for i, v in enumerate(o['values']):
                        mdl.tags[o['tag']]['values'][o['elem'] + i] = M.convert(s['type'], s['type'], v)[0]
                    last_writer[o['tag']] = 'raw'
            # invariant: server-side Attribute values == model
            snap = server.snapshot()
            msnap = mdl.snapshot()
            if snap != msnap:
                diff = [n for n in snap if snap[n] != msnap[n]]
                fail('server-state-differs-from-model', {'step': step, 'op': o, 'tags': diff}, 'Attribute values equal the array model')
                break
        # Close: Forward Close + Unregister; the forward-open entry of this peer disappears
        peer = None
        try:
            peer = plc.conn.Socket.getsockname() if plc.conn.Socket else None
        except Exception:
            peer = None
        plc.Close()
        if peer is not None:
            t0 = time.time()
            while time.time() - t0 < 5.0:
                left = [kk for kk in list(device.Connection_Manager.forwards) if kk[:2] == tuple(peer[:2])]
                if not left:
                    break
                time.sleep(0.01)
            else:
                fail('forward-open-entry-survives-close', {'peer': list(peer), 'entries': [list(map(str, kk)) for kk in left]},
                     'the Connection Manager forgets the connection after Forward Close / session end')
        stats.case(case, nontrivial=nontrivial, classes=sorted(classes) + ['connsize:%s' % case['connection_size']])
    except common.HarnessError:
        raise
    except Exception as exc:
        import socket as _socket
        import traceback as _tb
        frames = _tb.extract_tb(exc.__traceback__)
        if isinstance(exc, (_socket.timeout, TimeoutError)) or not any('/pylogix/' in f.filename for f in frames):
            raise
        # the independent client itself blew up on what the simulator sent (e.g. a bare 24-byte encapsulation error where
        # a connected CIP reply belongs): that is a failure to interoperate, not a harness problem
        stats.case(case, nontrivial=nontrivial, classes=sorted(classes) + ['pylogix-raised'])
        where = [f for f in frames if '/pylogix/' in f.filename][-1]
        fail('pylogix-client-raised:%s@%s' % (type(exc).__name__, where.name), {'error': str(exc)[:200], 'ops': [x['kind'] for x in case['ops']]},
             'every documented operation returns a Response (Success or an error status)')
    finally:
        try:
            plc.Close()
        except Exception:
            pass
        if raw is not None:
            raw.close()
        if conn is not None:
            try:
                conn.close()
            except Exception:
                pass


CLAUSES = {'history': pred}
STRATEGIES = {'history': lambda k: cases(k)}


def shard(job):
    seed, i, n, k = job
    s = Stats()
    common.hyp_run(s, cases(k), pred, n, common.shard_seed(seed, i), 'history', PID, skey=k)
    return s


def run(tier, seed):
    if tier == 'thorough':
        jobs = [(seed, i, 150, 50) for i in range(32)]
    else:
        jobs = [(seed, i, 50, 20) for i in range(16)]
    return common.parallel(shard, jobs)
