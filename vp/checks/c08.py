"""
C08 -- malformed or hostile input cannot hang, crash or corrupt the simulator.

Byte streams (random bytes; structure-aware mutations of valid frames; valid / mutated / random frames mixed at
any point of a session) are fed to one in-process connection exactly the way enip_srv_tcp feeds them (one
enip_machine over a rememberable source, then logix.process per complete frame, connection closed on the first
exception or non-zero encapsulation status).  Oracle:
  (i)   no hang: engine steps <= A + B*len(input) (deterministic), plus a 20 s watchdog for loops that never yield
        (re-executed once; only a second timeout is reported);
  (ii)  any exception may end the connection -- but the session bookkeeping must survive it;
  (iii) no corruption: after the stream, tags == the typed-array model after applying exactly those processed frames
        that the strict reference decoder accepts as complete, well-formed write requests (and whose reply reported
        success); every other frame must leave all tags unchanged;
  (iv)  others unaffected: a witness session registered beforehand writes and reads back correctly afterwards, and a
        new session can register.  A TCP variant repeats (iv) against a real server thread.
"""
from __future__ import annotations

import contextlib
import os
import signal
import time
import struct

from hypothesis import strategies as st

from .. import common, model as M, refcodec as rc, sim, tagcheck
from ..common import Stats

PID = 'C08'
LEVEL = 'exploration'
RULE = ('case = byte stream for one connection built from segments: valid frames (Register, Read/Write Tag [Fragmented], '
        'Get/Set Attribute Single, bundles, List*), structure-aware mutants of them (bit flip, byte insert/delete, truncation, '
        'length/count/offset/size/type fields set to 0, 1, true-1, true+1, 0xFF.., random at every nesting level) and random '
        'bytes (incl. all-zero / all-0xFF), in any order; non-trivial = a mutated frame that still passes the encapsulation '
        'layer (reaches the CIP/CPF/service parsers) -- counted per deepest layer reached')
ASSUMPTIONS = [
    'the in-process feeder repeats enip_srv_tcp\'s loop with all bytes available followed by end-of-stream; engine steps are '
    'counted per (machine,state) event the framing engine yields; the bound is A=2000, B=40 steps per input byte (valid frames '
    'measure <= 2 steps per byte)',
    '"complete, well-formed write request" = the strict reference decoder accepts the frame as SendRRData [+ Unconnected Send] '
    'carrying Write Tag / Write Tag Fragmented / Set Attribute Single (or a bundle of requests) with consistent lengths, counts, '
    'offsets and sizes at every nesting level; the *values* of reserved and pad bytes, interface handle, timeouts, priority and '
    'sender context are free (ignoring them is ordinary parser tolerance, not a malformed request)',
    'well-formed writes whose effect the statement leaves open (zero counts, unaligned offsets, cross-size fragments) are '
    'excluded from the state comparison for that case and counted',
    'watchdog: SIGALRM after 20 s per case in the worker; a first timeout is retried once in the same worker and only a '
    'second timeout is reported',
]
MIN_EVALUATIONS = {'quick': 1500, 'thorough': 50000}

SPECS = [
    {'name': 'I16', 'type': 'INT', 'length': 12, 'address': None},
    {'name': 'Scalar', 'type': 'DINT', 'length': 1, 'address': None},
    {'name': 'F32', 'type': 'REAL', 'length': 4, 'address': [0x93, 1, 3]},
    {'name': 'Str', 'type': 'SSTRING', 'length': 2, 'address': None},
    {'name': 'Flags', 'type': 'BOOL', 'length': 5, 'address': [0x104, 2, 1]},
    {'name': 'U8', 'type': 'USINT', 'length': 6, 'address': None},
]
STEP_A, STEP_B = 2000, 40
WATCHDOG_S = 20


class Hang(BaseException):        # (not an Exception: the code under test must not be able to swallow the watchdog)
    pass


class StepBound(Exception):
    pass


# ------------------------------------------------------------------------------------------------
# the feeder: enip_srv_tcp's loop, in-process


def feed(dev, addr, stream, bound, on_frame=None):
    """-> dict(frames=[(frame_bytes, outcome, reply_bytes|None)], closed=reason, steps=int)"""
    cpppo = dev.cpppo
    source = cpppo.rememberable(bytes(stream))
    out = {'frames': [], 'closed': 'eof', 'steps': 0}
    steps = 0
    while source.peek() is not None:
        data = cpppo.dotdict()
        source.forget()
        begin = source.sent
        try:
            with dev.machine as machine:
                with contextlib.closing(machine.run(path='request', source=source, data=data)) as engine:
                    for mch, sta in engine:
                        steps += 1
                        if steps > bound:
                            raise StepBound('%d engine steps for %d input bytes' % (steps, len(stream)))
        except StepBound:
            out['steps'] = steps
            raise
        except Exception as exc:
            out['closed'] = 'framing:%s' % type(exc).__name__
            try:
                dev.logix.process(addr, data=cpppo.dotdict(), **dev.kwds)
            except Exception:
                pass
            break
        frame = bytes(bytearray(source.memory)) if hasattr(source, 'memory') else None
        consumed = source.sent - begin
        try:
            proceed = dev.logix.process(addr, data=data, **dev.kwds)
            if not proceed:
                out['frames'].append((consumed, 'closed', None))
                out['closed'] = 'session-ended'
                if on_frame:
                    on_frame(begin, consumed, 'closed', None)
                break
            assert 'response.enip' in data
            if 'input' not in data.response.enip or not data.response.enip.input:
                assert data.response.enip.status
            rpy = dev.parser.enip_encode(data.response.enip)
            out['frames'].append((consumed, 'reply', rpy))
            if on_frame:
                on_frame(begin, consumed, 'reply', rpy)
            if data.response.enip.status:
                out['closed'] = 'enip-status-%d' % data.response.enip.status
                break
        except Exception as exc:
            out['frames'].append((consumed, 'error:%s' % type(exc).__name__, None))
            out['closed'] = 'process:%s' % type(exc).__name__
            if on_frame:
                on_frame(begin, consumed, 'error:%s' % type(exc).__name__, None)
            try:
                dev.logix.process(addr, data=cpppo.dotdict(), **dev.kwds)
            except Exception:
                pass
            break
    out['steps'] = steps
    return out


# ------------------------------------------------------------------------------------------------
# the reference view of a frame: is it a complete, well-formed write request?  which op does it spell?


def ref_ops(frame, mdl):
    """-> ('ops', [op|None...], bundled: bool) if the strict decoder accepts the frame as SendRRData carrying Message
    Router request(s); each op is a model op dict for a tag service / attribute service on a known tag, or None for any
    other well-formed request.  -> None if the frame is not such a request."""
    try:
        with rc.structural_only():
            return _ref_ops(frame, mdl)
    except (rc.RefDecodeError, struct.error, IndexError, UnicodeDecodeError) as exc:
        return ('rejected', reason_category(str(exc)))


def _ref_ops(frame, mdl):
    if True:
        e = rc.dec_encap(frame)
        # status / options / context of a request header are free fields; the simulator serves SendRRData and SendUnitData
        # through one parser, so an unconnected item pair under command 0x70 (or a connected pair under 0x6F) is the same
        # request -- the command code is not a length/count/offset field
        if e['command'] not in (rc.CMD['send_rr_data'], rc.CMD['send_unit_data']):
            return ('rejected', 'not-send-data')
        sd = rc.dec_send_data(e['payload'])
        items = sd['items']
        if len(items) == 2 and items[0] == (0, b'') and items[1][0] == 0x00B2:
            msg = items[1][1]
        elif len(items) == 2 and items[0][0] == 0x00A1 and len(items[0][1]) == 4 and items[1][0] == 0x00B1 and len(items[1][1]) >= 2:
            msg = items[1][1][2:]           # connected data: sequence count, then the request
        else:
            return ('rejected', 'cpf-shape')
        if msg[:1] == b'\x52':
            us = rc.dec_unconnected_send(msg)
            msg = us['message']
        req = rc.dec_mr_request(msg)
        if req['service'] == 0x0A:
            # the bundle's own framing (count, offset table) must be consistent; then every member is its own request:
            # a member that is not a well-formed request is judged like a malformed single request (it may change nothing)
            members = rc.dec_multiple_body(req['data'])
            ops = []
            for m in members:
                try:
                    ops.append(spell(rc.dec_mr_request(m), mdl))
                except (rc.RefDecodeError, struct.error, IndexError, UnicodeDecodeError) as exc:
                    ops.append({'svc': None, 'malformed': True, 'why': reason_category(str(exc))})
            return ('ops', ops, True)
        return ('ops', [spell(req, mdl)], False)


def reason_category(text):
    """Root-cause category = the first structural rule the reference decoder found violated."""
    table = (
        # the EPATH size byte disagrees with the segments that follow it (too large, or cutting a segment)
        ('EPATH body truncated', 'epath-size-exceeds-content'), ('EPATH size missing', 'epath-size-exceeds-content'),
        ('EPATH pad missing', 'epath-size-exceeds-content'), ('unsupported segment type', 'epath-size-exceeds-content'),
        ('reserved logical format', 'epath-size-exceeds-content'), ('symbolic segment', 'epath-size-exceeds-content'),
        ('logical segment', 'epath-size-exceeds-content'), ('link address truncated', 'epath-size-exceeds-content'),
        ('link truncated', 'epath-size-exceeds-content'), ('extended port truncated', 'epath-size-exceeds-content'),
        ('port segment', 'epath-size-exceeds-content'), ('port 0 is reserved', 'epath-size-exceeds-content'),
        ('trailing bytes after Unconnected Send route path', 'unconnected-send-trailing-bytes'),
        ('Unconnected Send message truncated', 'unconnected-send-length'), ('Unconnected Send header truncated', 'unconnected-send-length'),
        ('CPF item data truncated', 'cpf-item-length'), ('CPF item header truncated', 'cpf-item-length'), ('trailing bytes after CPF', 'cpf-item-length'),
        ('CPF count missing', 'cpf-item-length'), ('multiple:', 'bundle-offset-table'), ('request shorter', 'short-request'),
        ('send data header', 'send-data-header'), ('reply bit set in request', 'reply-bit-in-request'),
    )
    for key, cat in table:
        if key in text:
            return cat
    return 'other:' + text[:40]


def lenient_write_success(rpy):
    """Does this reply frame report a successful write service (decoded leniently)?"""
    try:
        e = rc.dec_encap(rpy)
        if e['status'] != 0 or e['command'] != rc.CMD['send_rr_data']:
            return False
        _, m = rc.dec_rr_reply(rpy)
        mr = rc.dec_mr_reply(m)
        return mr['status'] == 0 and mr['service'] in (0xCD, 0xD3, 0x90, 0x8A)
    except Exception:
        return False


def spell(req, mdl):
    """Message Router request -> model op (or None if it is not a tag/attribute service on a resolvable path)."""
    svc = {0x4C: 'read_tag', 0x52: 'read_frag', 0x4D: 'write_tag', 0x53: 'write_frag', 0x0E: 'get_attr', 0x10: 'set_attr'}.get(req['service'])
    if svc is None:
        return None
    segs = req['path']
    op = {'svc': svc, 'case': 0}
    elem = None
    if segs and 'element' in segs[-1] and len(segs[-1]) == 1:
        elem = segs[-1]['element']
        segs = segs[:-1]
    if segs and all('symbolic' in s for s in segs):
        name = '.'.join(s['symbolic'] for s in segs)
        op.update(form='sym', tag=name)
        if mdl.lower.get(name.lower()) is None:
            return {'svc': svc, 'unknown': True}
    elif len(segs) == 3 and 'class' in segs[0] and 'instance' in segs[1] and 'attribute' in segs[2]:
        addr = (segs[0]['class'], segs[1]['instance'], segs[2]['attribute'])
        names = [n for n, t in mdl.tags.items() if t['address'] == addr]
        if not names:
            return {'svc': svc, 'unknown': True}
        op.update(form='num', tag=names[0])
    elif len(segs) >= 2 and 'class' in segs[0] and 'instance' in segs[1]:
        # class/instance without an attribute segment: the simulator documents a default attribute 1 for tag services and
        # ignores what follows; the statement says nothing about such paths -> not judged (model re-synchronised)
        return {'svc': svc, 'path_unspecified': True}
    elif segs and 'symbolic' in segs[0]:
        # symbolic segments followed by other well-formed segments (connection point, member, a second element...): the
        # simulator documents (device.resolve) that segments after the resolved tag are ignored; the statement says nothing
        # about such paths, and the request is structurally complete and well formed -> not judged (model re-synchronised)
        return {'svc': svc, 'path_unspecified': True}
    else:
        return {'svc': svc, 'unknown': True}
    op['elem'] = elem
    d = req['data']
    try:
        if svc == 'read_tag':
            rc._need(len(d) == 2, 'read_tag payload')
            op['count'] = struct.unpack('<H', d)[0]
        elif svc == 'read_frag':
            rc._need(len(d) == 6, 'read_frag payload')
            op['count'], op['offset'] = struct.unpack('<HI', d)
        elif svc in ('write_tag', 'write_frag'):
            hdr = 4 if svc == 'write_tag' else 8
            rc._need(len(d) >= hdr, 'write header')
            code, op['count'] = struct.unpack_from('<HH', d, 0)
            if svc == 'write_frag':
                op['offset'] = struct.unpack_from('<I', d, 4)[0]
            rc._need(code in rc.CODE2NAME, 'unknown data type')
            op['type'] = rc.CODE2NAME[code]
            op['values'] = rc.dec_values(op['type'], d[hdr:])
        elif svc == 'set_attr':
            op['raw'] = bytes(d).hex()
        elif svc == 'get_attr':
            rc._need(len(d) == 0, 'get_attr payload')
    except rc.RefDecodeError as exc:
        text = str(exc)
        why = ('string-body-truncated' if 'body truncated' in text else 'string-length-truncated' if 'length truncated' in text
               else 'partial-element' if 'whole number' in text else 'short-header' if 'header' in text or 'payload' in text
               else 'unknown-data-type' if 'unknown data type' in text else 'other')
        return {'svc': svc, 'malformed': True, 'why': why}
    return op


def is_write(op):
    return op is not None and op.get('svc') in ('write_tag', 'write_frag', 'set_attr')


# ------------------------------------------------------------------------------------------------
# generators


@st.composite
def inconsistent_write(draw):
    """A write whose element count / offset fields disagree with the data it carries (more or fewer values)."""
    op = draw(tagcheck.op_strategy(SPECS, 'valid').filter(lambda o: o['svc'] in ('write_tag', 'write_frag') and len(o.get('values', [])) >= 2))
    op = dict(op)
    how = draw(st.sampled_from(['count-less', 'count-less', 'count-more', 'offset-shift']))
    if how == 'count-less':
        op['count'] = max(1, op['count'] - draw(st.integers(1, 2)))
    elif how == 'count-more':
        op['count'] = op['count'] + draw(st.integers(1, 2))
    elif op['svc'] == 'write_frag':
        op['offset'] = op.get('offset', 0) + rc.tsize(op['type']) if op['type'] in M.FIXED_TYPES else op.get('offset', 0)
    return op


def valid_frames_strategy():
    """One valid frame description: ('register',) | ('op', op) | ('bundle', [ops]) | ('list', cmd) | ('unregister',)"""
    op = tagcheck.op_strategy(SPECS, 'valid')
    return st.one_of(
        st.tuples(st.just('op'), inconsistent_write()),
        st.tuples(st.just('op'), op), st.tuples(st.just('op'), op), st.tuples(st.just('op'), tagcheck.op_strategy(SPECS, 'edge')),
        st.tuples(st.just('bundle'), st.lists(op, min_size=1, max_size=4)),
        st.tuples(st.just('list'), st.sampled_from([0x0004, 0x0063, 0x0064, 0x0001])),
        st.tuples(st.just('register')), st.tuples(st.just('unregister')))


MUTATIONS = ['none', 'none', 'bitflip', 'insert', 'delete', 'truncate', 'setbyte', 'setword', 'field', 'field', 'dup']
SPECIAL = [0x00, 0x01, 0x7F, 0x80, 0xFE, 0xFF]


@st.composite
def segment(draw):
    kind = draw(st.sampled_from(['frame', 'frame', 'frame', 'random']))
    if kind == 'random':
        raw = draw(st.one_of(st.binary(min_size=0, max_size=80), st.binary(min_size=24, max_size=600),
                             st.integers(1, 300).map(lambda n: b'\x00' * n), st.integers(1, 300).map(lambda n: b'\xff' * n)))
        return {'kind': 'random', 'bytes': raw.hex()}
    v = draw(valid_frames_strategy())
    m = draw(st.sampled_from(MUTATIONS))
    seg = {'kind': 'frame', 'frame': v, 'mutation': m, 'pos': draw(st.integers(0, 10 ** 6)), 'arg': draw(st.integers(0, 10 ** 6)),
           'field': draw(st.sampled_from(['length', 'command', 'session', 'status', 'options', 'cpf_count', 'item0_type', 'item0_len', 'item1_type',
                                          'item1_len', 'service', 'path_size', 'body'])),
           'value': draw(st.sampled_from(['zero', 'one', 'minus1', 'plus1', 'ff', 'random']))}
    if v[0] == 'bundle' and draw(st.integers(0, 2)) == 0:
        seg['member_mutation'] = [draw(st.integers(0, 7)), draw(st.sampled_from(['append-stray', 'drop-tail'])), draw(st.integers(0, 2))]
        if draw(st.booleans()):
            seg['mutation'] = 'none'
    return seg


@st.composite
def cases(draw, k):
    return {'segments': draw(st.lists(segment(), min_size=1, max_size=k)), 'register_first': draw(st.booleans())}


FIELDS = {   # name: (offset, size) in a SendRRData frame
    'length': (2, 2), 'command': (0, 2), 'session': (4, 4), 'status': (8, 4), 'options': (20, 4), 'cpf_count': (30, 2),
    'item0_type': (32, 2), 'item0_len': (34, 2), 'item1_type': (36, 2), 'item1_len': (38, 2), 'service': (40, 1), 'path_size': (41, 1),
}


def mutate(frame, seg):
    b = bytearray(frame)
    m = seg['mutation']
    if m == 'none' or not b:
        return bytes(b)
    pos = seg['pos'] % len(b)
    arg = seg['arg']
    if m == 'bitflip':
        b[pos] ^= 1 << (arg % 8)
    elif m == 'insert':
        b[pos:pos] = bytes([SPECIAL[arg % len(SPECIAL)]]) * (1 + arg % 3)
    elif m == 'delete':
        del b[pos:pos + 1 + arg % 4]
    elif m == 'truncate':
        del b[pos:]
    elif m == 'setbyte':
        b[pos] = SPECIAL[arg % len(SPECIAL)]
    elif m == 'setword':
        b[pos:pos + 2] = struct.pack('<H', [0, 1, 0xFFFF, 0x7FFF, 0x8000, arg & 0xFFFF][arg % 6])[:len(b) - pos]
    elif m == 'dup':
        b[pos:pos] = b[pos:pos + 1 + arg % 8]
    elif m == 'field':
        name = seg['field']
        if name == 'body':
            off, size = 42 + (seg['pos'] % max(1, len(b) - 42)) if len(b) > 42 else 0, 1 + arg % 2
        else:
            off, size = FIELDS[name]
        if off + size <= len(b):
            true = int.from_bytes(b[off:off + size], 'little')
            top = (1 << (8 * size)) - 1
            val = {'zero': 0, 'one': 1, 'minus1': (true - 1) & top, 'plus1': (true + 1) & top, 'ff': top, 'random': arg & top}[seg['value']]
            b[off:off + size] = val.to_bytes(size, 'little')
    return bytes(b)


def build_stream(case, handle, addrs):
    """-> stream bytes, list of segment byte strings"""
    parts = []
    n = [0]

    def ctx():
        n[0] += 1
        return n[0].to_bytes(8, 'little')

    for seg in case['segments']:
        if seg['kind'] == 'random':
            parts.append(bytes.fromhex(seg['bytes']))
            continue
        v = seg['frame']
        kind = v[0]
        if kind == 'register':
            f = rc.register(ctx())
        elif kind == 'unregister':
            f = rc.unregister(handle, ctx())
        elif kind == 'list':
            f = rc.encap(v[1], handle, b'', ctx())
        else:
            def enc(op):
                if op.get('unknown_object'):
                    return M.op_message(op, None, tuple(op['unknown_object']))
                s = [x for x in SPECS if x['name'].lower() == op['tag'].lower()]
                if not s:
                    return M.op_message(op, 'INT', None)
                return M.op_message(op, s[0]['type'], addrs[s[0]['name']])
            try:
                if kind == 'op':
                    msg = enc(v[1])
                    wrap = v[1].get('wrap', True) or v[1]['svc'] == 'read_frag'
                    msg = rc.unconnected_send(msg) if wrap else msg
                else:
                    members = [enc(o) for o in v[1]]
                    mm = seg.get('member_mutation')
                    if mm:      # a member whose own payload is inconsistent inside a bundle whose framing stays consistent
                        k = mm[0] % len(members)
                        if mm[1] == 'append-stray':
                            members[k] = members[k] + bytes([0xA5, 0x5A, 0x01][:1 + mm[2] % 3])
                        elif len(members[k]) > 6:
                            members[k] = members[k][:-(1 + mm[2] % 3)]
                    msg = rc.unconnected_send(rc.req_multiple(members))
            except Exception:
                continue
            f = rc.rr_frame(handle, msg, ctx())
        parts.append(mutate(f, seg))
    return b''.join(parts), parts


# ------------------------------------------------------------------------------------------------
# predicate


def _alarm(signum, frame):
    raise Hang()


def deepest_layer(frame_results, parts):
    return None


def pred(case, stats):
    import os
    if os.environ.get('VP_C08_NO_WATCHDOG'):
        return _pred(case, stats)       # inside libFuzzer, which owns SIGALRM (its -timeout catches hangs)
    tries = 0
    while True:
        tries += 1
        old = signal.signal(signal.SIGALRM, _alarm)
        signal.setitimer(signal.ITIMER_REAL, WATCHDOG_S, 2.0)      # fires again every 2 s until cancelled
        try:
            return _pred(case, stats)
        except Hang:
            if tries >= 2:
                stats.case(case, classes=['watchdog'])
                stats.fail('stream', 'hang:no-completion-within-%ds-twice' % WATCHDOG_S, case, observed='watchdog fired twice',
                           expected='processing time bounded by the input length')
                return
        finally:
            signal.setitimer(signal.ITIMER_REAL, 0)
            signal.signal(signal.SIGALRM, old)


def _pred(case, stats):
    dev = sim.Device(SPECS)
    try:
        mdl = M.Model(SPECS)
        tagcheck.numeric_addresses(dev, mdl)
        addrs = {n: t['address'] for n, t in mdl.tags.items()}
        witness = sim.Session(dev, ('127.0.0.7', 7007))
        hostile = ('127.0.0.8', 8008)
        handle = 0x11223344
        prefix = b''
        if case['register_first']:
            kind, rpy = dev.process(hostile, rc.register())
            handle = rc.dec_encap(rpy)['session']
        stream, parts = build_stream(case, handle, addrs)
        bound = STEP_A + STEP_B * max(1, len(stream))
        classes = set()
        state = {'before': dev.snapshot(), 'unjudged': False, 'flagged': False}

        def resync():
            for n in mdl.tags:
                vals = dev.values(n)
                mdl.tags[n]['values'][:] = vals

        def on_frame(begin, consumed, outcome, rpy):
            frame = stream[begin:begin + consumed]
            before = state['before']
            after = dev.snapshot()
            state['before'] = after
            ref = ref_ops(frame, mdl)
            okind = outcome.split(':')[0]
            if ref[0] == 'rejected':
                classes.add('frame:rejected-by-reference:' + okind)
                if after != before:
                    # signature = the structural rule the frame violates (root cause), whatever the reply said
                    stats.fail('stream', 'malformed-request-altered-tags:%s' % (ref[1],), case,
                               observed={'frame': frame.hex()[:400], 'reference_decoder': ref[1], 'outcome': outcome,
                                         'changed': [n for n in after if after[n] != before[n]]},
                               expected='tags change only through complete, well-formed write requests')
                    state['flagged'] = True
                    resync()
                return
            _, ops, bundled = ref
            member_replies = None
            whole_failed = True
            if rpy is not None:
                try:
                    e = rc.dec_encap(rpy)
                    if e['status'] == 0:
                        _, m = rc.dec_rr_reply(rpy)
                        mr = rc.dec_mr_reply(m)
                        if bundled:
                            if mr['status'] == 0:
                                member_replies = [rc.dec_mr_reply(x) for x in rc.dec_multiple_body(mr['data'])]
                                whole_failed = False
                        else:
                            member_replies = [mr]
                            whole_failed = False
                except rc.RefDecodeError:
                    member_replies = None
            writes = [(i, op) for i, op in enumerate(ops) if is_write(op)]
            if writes:
                classes.add('wellformed-write:' + ('bundled' if bundled else 'single'))
            payload_malformed = [op for i, op in writes if op.get('malformed')]
            # candidate end states: the model after the well-formed write members the simulator reports as done; when the
            # request was answered with a failure as a whole (no member replies) any prefix of them may have been executed
            candidates = []
            base = mdl.copy()
            applied = 0
            unspecified = False
            states = [base.snapshot()]
            for i, op in writes:
                if op.get('path_unspecified'):
                    unspecified = True
                    break
                if op.get('unknown') or op.get('malformed'):
                    continue
                exp = M.expect(base, op)
                if exp['kind'] == 'unspecified':
                    unspecified = True
                    break
                if exp['kind'] not in ('write', 'attr_write'):
                    continue
                r = member_replies[i] if member_replies and i < len(member_replies) else None
                if whole_failed:
                    M.apply_write(base, exp)
                    states.append(base.snapshot())
                elif r is not None and r['status'] == 0:
                    M.apply_write(base, exp)
                    applied += 1
            if unspecified:
                state['unjudged'] = True
                resync()
                return
            if whole_failed:
                if after in states:
                    if after != states[0]:
                        classes.add('bundle-failed-as-a-whole-after-executing-members')
                    resync()
                    return
                ok = False
            else:
                ok = after == base.snapshot()
                if ok and applied:
                    classes.add('write-applied')
            if not ok and bundled and (payload_malformed or any(op is not None and op.get('malformed') for op in ops)):
                # a bundle holding a member that is itself malformed: the simulator parses members sequentially, so the replies of
                # the members after it need not line up with the requests any more.  What must hold: the tags are in a state reached
                # by executing, in order, some of the bundle's WELL-FORMED writes -- the malformed member contributes nothing
                probe = mdl.copy()
                allowed = [probe.snapshot()]
                frontier = [probe]
                for i, op in writes:
                    if op.get('unknown') or op.get('malformed') or op.get('path_unspecified'):
                        continue
                    nxt = []
                    for st_ in frontier:
                        exp = M.expect(st_, op)
                        if exp['kind'] in ('write', 'attr_write'):
                            c2 = st_.copy()
                            M.apply_write(c2, exp)
                            nxt.append(c2)
                            allowed.append(c2.snapshot())
                    frontier = (frontier + nxt)[:64]
                if after in allowed:
                    classes.add('bundle-with-malformed-member:well-formed-neighbours-executed')
                    ok = True
            if ok:
                resync()
                return
            want = base.snapshot()
            diff = [n for n in after if after[n] != want[n]]
            bad_members = [op for op in ops if op is not None and op.get('malformed')]
            if bad_members:
                # root cause = the first malformed member in bundle order (members are executed in that order)
                first = bad_members[0]
                sig = ('malformed-request-altered-tags:' + first.get('why', 'other') if first.get('svc') is None
                       else 'malformed-request-altered-tags:service-payload:' + first.get('why', 'other'))
            else:
                sig = 'wellformed-request-wrong-effect'
            stats.fail('stream', sig, case,
                       observed={'frame': frame.hex()[:400], 'outcome': outcome, 'tags': diff, 'impl': {n: after[n][:8] for n in diff},
                                 'model': {n: want[n][:8] for n in diff}},
                       expected='a well-formed request changes exactly what the typed-array model says; anything else changes nothing')
            state['flagged'] = True
            resync()

        try:
            res = feed(dev, hostile, stream, bound, on_frame)
        except StepBound as exc:
            stats.case(case, classes=['step-bound'])
            stats.fail('stream', 'hang:engine-steps-exceed-bound', case, observed=str(exc), expected='<= %d + %d * len(input) steps' % (STEP_A, STEP_B))
            return
        after = dev.snapshot()
        if state['unjudged']:
            stats.exclude('case with a well-formed write whose effect the statement leaves open (model re-synchronised after it)')
        if after != state['before']:
            stats.fail('stream', 'tags-altered-outside-any-processed-frame', case, observed={'closed': res['closed']},
                       expected='tags change only while a complete frame is being processed')
        # (iv) witness session still works; a new session can register
        probe = {'svc': 'write_tag', 'tag': 'I16', 'form': 'sym', 'case': 0, 'elem': 3, 'count': 2, 'type': 'INT', 'values': [1234, -4321]}
        mdl2 = M.Model(SPECS)
        out = witness.send(M.op_message(probe, 'INT', None))
        ok = out['reply'] is not None and out['reply']['status'] == 0 and out['encap']['session'] == witness.handle
        out2 = witness.send(rc.req_read_tag([{'symbolic': 'I16'}, {'element': 3}], 2))
        ok = ok and out2['reply'] is not None and out2['reply']['status'] == 0 and rc.dec_read_reply(out2['reply'])[1] == [1234, -4321]
        if not ok:
            stats.fail('stream', 'witness-session-broken-after-hostile-input', case,
                       observed={'write': out.get('enip_status'), 'read': out2.get('enip_status'), 'error': out.get('error') or out2.get('error')},
                       expected='an existing session keeps working')
        try:
            fresh = sim.Session(dev, ('127.0.0.9', 9009))
            if not fresh.handle:
                raise AssertionError('zero handle')
        except Exception as exc:
            stats.fail('stream', 'new-session-cannot-register-after-hostile-input', case, observed='%s: %s' % (type(exc).__name__, str(exc)[:200]),
                       expected='the simulator keeps serving new sessions')
        # classification
        muts = sorted({'mut:' + s.get('mutation', 'random') for s in case['segments'] if s['kind'] == 'frame'} | ({'random-bytes'} if any(s['kind'] == 'random' for s in case['segments']) else set()))
        classes.add('closed:' + res['closed'].split(':')[0])
        deep = any(s['kind'] == 'frame' and s['mutation'] != 'none' for s in case['segments']) and len(res['frames']) > 0
        stats.case(case, nontrivial=deep, classes=sorted(classes) + muts + ['frames-processed:%d' % min(len(res['frames']), 5)])
    finally:
        dev.close()


# ------------------------------------------------------------------------------------------------
# clause: connected -- a connected session (Forward Open with any well-formed connection path, then connected requests, some of them
# mutated) is answered or refused in bounded time and alters no tag except through a well-formed write


def pred_connected(case, stats):
    """case = {'path': 'portless'|1|2|3 hops, 'large': bool, 'requests': [{'write': bool, 'cut': n}]}"""
    dev = sim.Device(SPECS)
    old = signal.signal(signal.SIGALRM, _alarm)
    try:
        addr = ('127.0.0.8', 8108)
        kind, rpy = dev.process(addr, rc.register())
        handle = rc.dec_encap(rpy)['session']
        hops = case['path']
        cpath = ([] if hops == 'portless' else [{'port': 1, 'link': 0}, {'port': 2, 'link': '10.1.2.3'}, {'port': 3, 'link': 7}][:hops]) + [{'class': 2}, {'instance': 1}]
        large = bool(case['large'])
        fo = {'priority': 0x0A, 'timeout_ticks': 0x0E, 'O_T_connection_ID': 0x20000002, 'T_O_connection_ID': 0x20000001,
              'connection_serial': 0x4321, 'O_vendor': 0x1337, 'O_serial': 43, 'connection_timeout_multiplier': 3,
              'O_T_RPI': 0x00201234, 'O_T_NCP': (0x42000000 | 4000) if large else (0x4200 | 500), 'T_O_RPI': 0x00204001,
              'T_O_NCP': (0x42000000 | 4000) if large else (0x4200 | 500), 'transport_class_triggers': 0xA3, 'connection_path': cpath}
        stats.case(case, nontrivial=hops not in (1,), classes=['connected:path:%s' % hops, 'connected:requests:%d' % len(case['requests'])])
        signal.setitimer(signal.ITIMER_REAL, WATCHDOG_S, 2.0)      # fires again every 2 s until cancelled
        try:
            kind, rpy = dev.process(addr, rc.rr_frame(handle, rc.enc_forward_open(fo, large=large), b'c08-fo\0\0'))
            if kind != 'reply' or rc.dec_encap(rpy)['status'] != 0:
                return          # refused: fine (reply or close)
            _, m = rc.dec_rr_reply(rpy)
            mr = rc.dec_mr_reply(m)
            if mr['status'] != 0:
                return
            conn_id = rc.dec_forward_open_reply(mr)['O_T_connection_ID']
            before = dev.snapshot()
            want = {n: list(v) for n, v in before.items()}
            for k, rq in enumerate(case['requests']):
                if rq['write']:
                    msg = rc.req_write_tag([{'symbolic': 'I16'}, {'element': 2}], 'INT', [1000 + k, -k])
                else:
                    msg = rc.req_read_tag([{'symbolic': 'I16'}, {'element': 0}], 3)
                cut = rq.get('cut', 0)
                if rq['write'] and cut > 1:
                    cut = 1         # (cutting whole elements off a write leaves a well-formed request with fewer values than its count: unspecified)
                whole = cut == 0
                if cut:
                    msg = msg[:-min(cut, len(msg) - 1)]
                frame = rc.encap(rc.CMD['send_unit_data'], handle, rc.send_unit_data(conn_id, k + 1, msg), b'c08-cn%02d' % (k % 100))
                kind, rpy = dev.process(addr, frame)
                if rq['write'] and whole and kind == 'reply' and rc.dec_encap(rpy)['status'] == 0:
                    want['I16'][2:4] = [1000 + k, -k]
                after = dev.snapshot()
                if after != want and not (rq['write'] and whole):
                    stats.fail('connected', 'connected:tags-altered-by-a-read-or-a-truncated-request', case, observed={'request': k, 'tags': [n for n in after if after[n] != want[n]]},
                               expected='tags change only through complete, well-formed write requests')
                    return
                want = {n: list(v) for n, v in after.items()}
                if kind != 'reply':
                    break
        except Hang:
            stats.fail('connected', 'hang:connected-request-not-completed-within-%ds' % WATCHDOG_S, case, observed='watchdog fired',
                       expected='processing time bounded by the input length')
        finally:
            signal.setitimer(signal.ITIMER_REAL, 0)
    finally:
        signal.signal(signal.SIGALRM, old)
        dev.close()


connected_cases = st.builds(lambda p, l, r: {'path': p, 'large': l, 'requests': r}, st.sampled_from(['portless', 1, 1, 2, 2, 3]), st.booleans(),
                            st.lists(st.builds(lambda w, c: {'write': w, 'cut': c}, st.booleans(), st.sampled_from([0, 0, 0, 1, 2, 5])), min_size=1, max_size=4))


CLAUSES = {'stream': pred, 'connected': pred_connected}
STRATEGIES = {'stream': lambda k: cases(k), 'connected': lambda k: connected_cases}


# ------------------------------------------------------------------------------------------------
# TCP variant of (iv)


def tcp_shard(job):
    seed, n = job
    s = Stats()
    srv = sim.per_process('c08', lambda: sim.TcpServer(SPECS))
    witness = sim.TcpSession(srv)
    import hypothesis
    from hypothesis import given

    def one(case):
        handle = 0
        try:
            sock = srv.connect(5.0)
        except OSError as exc:
            s.fail('tcp', 'tcp:listener-dead', case, observed=str(exc), expected='listener keeps accepting')
            return
        try:
            if case['register_first']:
                sock.sendall(rc.register())
                fr, _, _ = sim.recv_frames(sock, 1, 5.0)
                if fr:
                    handle = rc.dec_encap(fr[0])['session']
            stream, parts = build_stream(case, handle or 0x01020304, {x['name']: (tuple(x['address']) if x['address'] else (2, 1, 1)) for x in SPECS})
            try:
                sock.sendall(stream)
                sock.shutdown(1)
            except OSError:
                pass
            t_sent = time.time()
            buf, eof = sim.recv_until_eof(sock, 15.0)
            if not eof:
                # neither closed nor (completely) answered after 15 s -- three orders of magnitude beyond the normal few milliseconds.
                # Alone that is inconclusive; if the connection is closed after all within another 45 s the delay was the simulator's
                more, eof2 = sim.recv_until_eof(sock, 45.0)
                if eof2:
                    s.fail('tcp', 'tcp:reply-or-close-delayed-beyond-15s', case, observed={'bytes_sent': len(stream), 'closed_after_s': round(time.time() - t_sent, 1)},
                           expected='processing time bounded by the input length: reply or close within milliseconds')
                    return
                raise common.HarnessError('hostile connection neither answered nor closed within 60 s')
        finally:
            sock.close()
        s.case(case, nontrivial=True, classes=['tcp'])
        if not srv.alive():
            s.fail('tcp', 'tcp:server-thread-died', case, observed=repr(srv.error), expected='the whole server keeps running')
            return
        out = witness.send(rc.req_write_tag([{'symbolic': 'Scalar'}], 'DINT', [len(stream)]))
        out2 = witness.send(rc.req_read_tag([{'symbolic': 'Scalar'}], 1))
        if out['kind'] == 'timeout' or out2['kind'] == 'timeout':
            raise common.HarnessError('witness timeout')
        ok = (out['reply'] is not None and out['reply']['status'] == 0 and out2['reply'] is not None
              and out2['reply']['status'] == 0 and rc.dec_read_reply(out2['reply'])[1] == [len(stream)])
        if not ok:
            s.fail('tcp', 'tcp:witness-session-broken', case, observed={'write': out['kind'], 'read': out2['kind']}, expected='existing session keeps working')
        try:
            t = sim.TcpSession(srv)
            t.close()
        except Exception as exc:
            s.fail('tcp', 'tcp:new-session-cannot-register', case, observed=str(exc)[:200], expected='new sessions are served')
        same_port_reconnect(case, stream)

    def same_port_reconnect(case, stream):
        """A hostile session that ends abruptly (stream cut somewhere, then RST) followed by a new session from the very same
        client address and port: the new session must be served like any other."""
        import socket as _socket
        import struct as _struct
        import time as _time
        cut = case.get('abort_at')
        if cut is None:
            return
        picked_up = False
        import threading as _threading

        def alive():        # the simulator's per-connection threads alive right now
            return {t for t in _threading.enumerate() if type(t).__name__.startswith('server_thread') and t.is_alive()}      # (objects: idents are reused)

        known = alive()

        def handlers():     # ... that were not there before this connection was made
            return len(alive() - known)

        baseline = 0
        h = _socket.socket(_socket.AF_INET, _socket.SOCK_STREAM)
        h.setsockopt(_socket.SOL_SOCKET, _socket.SO_REUSEADDR, 1)
        h.bind(('127.0.0.1', 0))
        port = h.getsockname()[1]
        try:
            h.settimeout(5.0)
            h.connect(srv.address)
            data = stream[:cut % (len(stream) + 1)] if stream else b''
            if not data:
                data = rc.register()[:1 + cut % 23]             # a partial encapsulation header
            try:
                h.sendall(data)
                # until the simulator demonstrably serves (or has already finished with) this connection: a per-connection thread
                # appeared, or it answered, or it closed the connection
                t1 = _time.time()
                h.settimeout(0.01)
                while _time.time() - t1 < 5.0 and not picked_up:
                    if handlers() > baseline:
                        picked_up = True
                        break
                    try:
                        got = h.recv(4096)
                        picked_up = True            # an answer, or b'' = closed by the simulator
                    except _socket.timeout:
                        pass
                    except OSError:
                        picked_up = True
                _time.sleep(0.05)
                h.setsockopt(_socket.SOL_SOCKET, _socket.SO_LINGER, _struct.pack('ii', 1, 0))      # close => RST
            except OSError:
                pass
        finally:
            h.close()
        # the new session must not race with the aborted one: wait until the simulator's thread for the aborted connection has
        # ended (the number of live per-connection threads is back to what it was).  On a loaded machine that can take long; if
        # it has not happened within 30 s the case is not judged.
        t0 = _time.time()
        while _time.time() - t0 < 30.0 and handlers() > baseline:
            _time.sleep(0.02)
        if not picked_up or handlers() > baseline:
            s.count('tcp:same-port-reconnect:not-judged:aborted-session-still-being-served')
            return
        s.count('tcp:same-port-reconnect')
        n = _socket.socket(_socket.AF_INET, _socket.SOCK_STREAM)
        n.setsockopt(_socket.SOL_SOCKET, _socket.SO_REUSEADDR, 1)
        try:
            try:
                n.bind(('127.0.0.1', port))
                n.settimeout(5.0)
                n.connect(srv.address)
            except OSError as exc:
                s.count('tcp:same-port-reconnect:port-not-reusable')       # harness-side (TIME_WAIT etc.): not judged
                return
            n.sendall(rc.register())
            fr, _, eof = sim.recv_frames(n, 1, 5.0)
            ok = bool(fr) and rc.dec_encap(fr[0])['command'] == 0x65 and rc.dec_encap(fr[0])['status'] == 0 and rc.dec_encap(fr[0])['session'] != 0
            if not ok:
                s.fail('tcp', 'tcp:session-from-the-address-of-an-aborted-session-not-served', case,
                       observed={'reply_frames': len(fr), 'closed': bool(eof), 'aborted_after_bytes': len(data)},
                       expected='Register Session answered with a session handle')
        finally:
            n.close()

    @hypothesis.seed(seed)
    @common.hyp_settings(n)
    @given(st.builds(lambda c, a: dict(c, abort_at=a), cases(4), st.one_of(st.none(), st.integers(0, 2000))))
    def explore(case):
        common.run_pred(lambda c, st_: one(c), case, s, 'tcp')

    explore()
    extras(srv, s)
    witness.close()
    return s


def extras(srv, s):
    """Deterministic additions to the TCP clause: (1) bursts of connections reset before the server accepts them;
    (2) a write request cut at every byte offset followed by end-of-stream: the unfinished frame changes no tag."""
    import socket as _socket
    import struct as _struct
    # (1)
    case = {'tcp': 'burst of 40 connections reset immediately after connect'}
    for _ in range(40):
        h = _socket.socket(_socket.AF_INET, _socket.SOCK_STREAM)
        try:
            h.settimeout(5.0)
            h.connect(srv.address)
            h.setsockopt(_socket.SOL_SOCKET, _socket.SO_LINGER, _struct.pack('ii', 1, 0))
        except OSError:
            pass
        finally:
            h.close()
    time.sleep(0.2)
    s.case(case, nontrivial=True, classes=['tcp:reset-before-accept-burst'])
    ok = srv.alive()
    if ok:
        try:
            t = sim.TcpSession(srv)
            t.close()
        except Exception as exc:
            ok = False
    if not ok:
        s.fail('tcp', 'tcp:server-down-after-connections-reset-before-accept', case, observed=repr(srv.error),
               expected='the listener keeps accepting and serving new sessions')
        return
    # (2)
    addr = {x['name']: (tuple(x['address']) if x['address'] else None) for x in SPECS}
    wr = {'svc': 'write_tag', 'tag': 'I16', 'form': 'sym', 'case': 0, 'elem': 2, 'count': 3, 'type': 'INT', 'values': [321, -7, 77]}
    msg = M.op_message(wr, 'INT', None)
    shapes = [('bare', msg), ('wrapped', rc.unconnected_send(msg)), ('bundle', rc.unconnected_send(rc.req_multiple([msg, msg])))]
    for name, payload in shapes:
        probe = sim.TcpSession(srv)
        frame = rc.rr_frame(probe.handle, payload, b'C08sweep')
        probe.close()
        for cut in range(1, len(frame)):
            case = {'tcp': 'write request (%s) cut after %d of %d bytes, then end of stream' % (name, cut, len(frame))}
            for sp in SPECS:
                if sp['name'] == 'I16':
                    srv.set_values('I16', [0] * sp['length'])
            before = srv.snapshot()
            sock = srv.connect(5.0)
            try:
                sock.sendall(rc.register())
                fr, _, _ = sim.recv_frames(sock, 1, 5.0)
                if not fr:
                    raise common.HarnessError('no Register reply in truncation sweep')
                handle = rc.dec_encap(fr[0])['session']
                f2 = rc.rr_frame(handle, payload, b'C08sweep')
                sock.sendall(f2[:cut])
                sock.shutdown(1)
                t_sent = time.time()
                buf, eof = sim.recv_until_eof(sock, 15.0)
                if not eof:
                    more, eof2 = sim.recv_until_eof(sock, 45.0)
                    if eof2:
                        s.case(case, nontrivial=True, classes=['tcp:truncation-sweep:' + name])
                        s.fail('tcp', 'tcp:reply-or-close-delayed-beyond-15s', case, observed={'closed_after_s': round(time.time() - t_sent, 1)},
                               expected='processing time bounded by the input length: the connection is closed within milliseconds')
                        return
                    raise common.HarnessError('connection with an unfinished frame not closed within 60 s')
            finally:
                sock.close()
            s.case(case, nontrivial=cut > 24, classes=['tcp:truncation-sweep:' + name])
            after = srv.snapshot()
            if after != before:
                s.fail('tcp', 'tcp:unfinished-frame-changed-tags', case, observed={'tags': [n for n in after if after[n] != before[n]], 'reply_bytes': len(buf)},
                       expected='a request whose final byte was never delivered changes no tag')
                return
            if buf:
                s.fail('tcp', 'tcp:reply-for-unfinished-frame', case, observed={'reply': bytes(buf).hex()[:120]}, expected='no reply, connection closed')
                return


def pred_tcp(case, stats):
    raise common.HarnessError('tcp cases are not individually replayable (they need a live server); rerun the tier')


def fuzz_shard(job):
    """atheris / libFuzzer subprocess: coverage-guided search with the C08 oracle inside the target."""
    import json, os, shutil, subprocess, sys, tempfile
    seed, runs, use_corpus = job
    s = Stats()
    try:
        import atheris      # noqa
    except Exception:
        s.exclude('atheris not importable: coverage-guided stage skipped')
        return s
    work = tempfile.mkdtemp(prefix='vp-c08-fuzz-')
    try:
        out, corpus = os.path.join(work, 'out'), os.path.join(work, 'corpus')
        os.makedirs(out)
        os.makedirs(corpus)
        if use_corpus:
            # seed corpus: valid streams from the structured generator
            import hypothesis
            from hypothesis import given
            seeds = []

            @hypothesis.seed(seed)
            @common.hyp_settings(40)
            @given(cases(3))
            def collect(case):
                for seg in case['segments']:
                    if seg['kind'] == 'frame':
                        seg['mutation'] = 'none'
                stream, _ = build_stream(case, 0x11223344, {x['name']: (tuple(x['address']) if x['address'] else (2, 1, 1 + i)) for i, x in enumerate(SPECS)})
                seeds.append(bytes([1 if case['register_first'] else 0]) + stream)

            collect()
            for i, b in enumerate(seeds):
                with open(os.path.join(corpus, 'seed%03d' % i), 'wb') as fh:
                    fh.write(b[:600])
        env = dict(os.environ)
        cmd = [sys.executable, '-m', 'vp.fuzz_c08', out, corpus, '-runs=%d' % runs, '-seed=%d' % (seed % (2 ** 31) or 1), '-max_len=600',
               '-timeout=25', '-rss_limit_mb=4096', '-artifact_prefix=' + out + os.sep, '-print_final_stats=0', '-verbosity=0']
        proc = subprocess.run(cmd, env=env, stdout=subprocess.DEVNULL, stderr=subprocess.PIPE, timeout=3 * 3600)
        executed = 0
        for name in os.listdir(out):
            pth = os.path.join(out, name)
            if name.startswith('executions.'):
                executed += int(open(pth).read() or 0)
            elif name.endswith('.json'):
                doc = json.load(open(pth))
                common.run_pred(pred, doc['case'], s, 'stream')      # confirm in this process, with the watchdog
            elif name.startswith(('timeout-', 'crash-', 'oom-')):
                data = open(pth, 'rb').read()
                case = {'register_first': bool(data[:1] and data[0] & 1), 'segments': [{'kind': 'random', 'bytes': data[1:].hex()}]}
                common.run_pred(pred, case, s, 'stream')
                if not s.fails and name.startswith('crash-'):
                    s.notes.append('libFuzzer artifact %s did not reproduce under the oracle (stderr tail: %s)' % (name, proc.stderr[-300:].decode('latin-1')))
        s.count('atheris:executions' + (':seeded-corpus' if use_corpus else ':empty-corpus'), executed)
        s.evaluations += executed
        if proc.returncode not in (0,) and not s.fails:
            s.notes.append('atheris subprocess exit %d: %s' % (proc.returncode, proc.stderr[-300:].decode('latin-1')))
    finally:
        shutil.rmtree(work, ignore_errors=True)
    return s


def shard(job):
    kind = job[0]
    if kind == 'tcp':
        return tcp_shard(job[1:])
    if kind == 'fuzz':
        return fuzz_shard(job[1:])
    _, seed, i, n, k = job
    s = Stats()
    common.hyp_run(s, cases(k), pred, n, common.shard_seed(seed, i), 'stream', PID, skey=k)
    if not os.environ.get('VP_C08_NO_WATCHDOG'):
        common.hyp_run(s, connected_cases, pred_connected, max(6, n // 40), common.shard_seed(seed, 300 + i), 'connected', PID, skey=k)
    return s


def run(tier, seed):
    if tier == 'thorough':
        jobs = ([('hyp', seed, i, 3000, 8) for i in range(24)] + [('tcp', common.shard_seed(seed, 900 + i), 600) for i in range(2)] +
                [('fuzz', common.shard_seed(seed, 700 + i), 40000, i % 2 == 0) for i in range(6)])
    else:
        jobs = [('hyp', seed, i, 400, 6) for i in range(14)] + [('tcp', common.shard_seed(seed, 900 + i), 100) for i in range(2)]
    return common.parallel(shard, jobs)
