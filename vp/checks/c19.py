"""
C19 — merging register ranges never drops a requested register (remote/plc_modbus.py: merge, shatter).

Oracle: a set-theoretic validity predicate written from the statement (not from the code):
  merge:   output sorted, pairwise disjoint, every piece <= applicable limit, every piece inside one
           register bank, union >= requested registers, every output register within `reach or 1` of a
           requested one.
  shatter: consecutive non-empty pieces, each <= limit, tiling [address, address+count) exactly.
"""
from __future__ import annotations

import itertools

from hypothesis import strategies as st

from .. import common
from ..common import Stats

PID = 'C19'
LEVEL = 'exploration'
RULE = ('cases = (set of (address,count) ranges inside one Modbus register bank, reach, limit) for merge, '
        '(address,count,limit) for shatter; Hypothesis-drawn around an anchor (so disjoint/adjacent/overlapping/'
        'nested/duplicated shapes and 10000-block edges occur) plus an exhaustive small universe; non-trivial = '
        'input contains a nested or duplicated range, or two ranges whose merge is decided by reach (gap in 1..reach), '
        'or a piece longer than the limit (shatter: count > limit)')
ASSUMPTIONS = [
    'input ranges have count >= 1 and lie inside one documented bank window (1-9999, 10001-19999, 30001-39999, '
    '40001-99999, 100001-165536, 300001-365536, 400001-465536); the empty set is not generated (vacuous)',
    'one in ten merge cases passes ranges of two neighbouring banks in one call (each range inside its own bank, hugging the gap '
    'between them), as a poller holding registers of several types does; a limit of 0 means "none given" (shatter docstring: "If no limit")',
    'poller clause: poller_modbus over an in-process fake transport (Holding register 4xxxx holds xxxx): after three completed polls '
    'every requested register reads back its value and the polled ranges cover the requested registers with pieces <= 125',
    'applicable limit when none is given: 1968 for bit banks (1-9999, 10001-19999, 100001-165536), 123 otherwise, '
    'chosen by the piece\'s own start address',
]
MIN_EVALUATIONS = {'quick': 20000, 'thorough': 200000}

BANKS = [(1, 9999), (10001, 19999), (30001, 39999), (40001, 99999), (100001, 165536), (300001, 365536),
         (400001, 465536)]
BIT_BANKS = {(1, 9999), (10001, 19999), (100001, 165536)}


def bank_of(address):
    for lo, hi in BANKS:
        if lo <= address <= hi:
            return (lo, hi)
    return None


def default_limit(address):
    return 1968 if bank_of(address) in BIT_BANKS else 123


def _impl():
    from cpppo.remote.plc_modbus import merge, shatter
    return merge, shatter


# ------------------------------------------------------------------------------------------------
# predicates


def classify_merge(ranges, reach, limit):
    classes = []
    rs = sorted(map(tuple, ranges))
    nested = dup = overlap = adjacent = reachy = False
    for i, (a, c) in enumerate(rs):
        for (b, d) in rs[i + 1:]:
            if (a, c) == (b, d):
                dup = True
            elif b >= a and b + d <= a + c:
                nested = True
            elif b < a + c:
                overlap = True
            elif b == a + c:
                adjacent = True
            elif 1 <= b - (a + c) < (reach or 1) + 1:
                reachy = True
    if nested:
        classes.append('nested')
    if dup:
        classes.append('duplicate')
    if overlap:
        classes.append('overlap')
    if adjacent:
        classes.append('adjacent')
    if reachy:
        classes.append('gap_near_reach')
    if any(c > (limit or default_limit(a)) for a, c in rs):
        classes.append('longer_than_limit')
    if len({a // 10000 for a, c in rs} | {(a + c - 1) // 10000 for a, c in rs}) > 1:
        classes.append('spans_10000_blocks')
    if not classes:
        classes.append('plain_disjoint')
    return classes


def pred_merge(case, stats):
    merge, _ = _impl()
    ranges = [tuple(r) for r in case['ranges']]
    reach, limit = case['reach'], case['limit']
    classes = classify_merge(ranges, 1 if reach == 'default' else reach, limit)
    nontrivial = bool({'nested', 'duplicate', 'gap_near_reach', 'longer_than_limit'} & set(classes))
    stats.case(case, nontrivial=nontrivial or bool(case.get('mixed')), classes=['merge:' + c for c in classes] + (['merge:two-banks'] if case.get('mixed') else []))
    kw = {}
    if reach != 'default':
        kw['reach'] = reach
    else:
        reach = 1
    if limit is not None:
        kw['limit'] = limit
    out = [tuple(r) for r in merge(list(ranges), **kw)]
    requested = set()
    for a, c in ranges:
        requested.update(range(a, a + c))
    covered = set()
    bad = None
    prev_end = None
    for a, c in out:
        if c < 1:
            bad = ('empty-piece', (a, c))
            break
        if prev_end is not None and a < prev_end:
            bad = ('unsorted-or-overlapping', (a, c))
            break
        prev_end = a + c
        lim = limit or default_limit(a)
        if c > lim:
            bad = ('piece-exceeds-limit', (a, c, lim))
            break
        bk = bank_of(a)
        if bk is None or a + c - 1 > bk[1]:
            bad = ('piece-leaves-bank', (a, c))
            break
        covered.update(range(a, a + c))
    if bad is None:
        missing = requested - covered
        if missing:
            kinds = set(classes) & {'nested', 'duplicate', 'overlap'}
            bad = ('drops-requested:' + ('nested' if 'nested' in kinds else 'other'), sorted(missing)[:10])
    if bad is None:
        r = reach or 1
        for x in sorted(covered - requested):
            if not any((x + d) in requested or (x - d) in requested for d in range(1, r + 1)):
                bad = ('beyond-reach', x)
                break
    if bad is not None:
        stats.fail('merge', 'merge:' + bad[0], case, observed={'output': out, 'detail': bad[1]},
                   expected='sorted disjoint pieces <= limit inside one bank, covering every requested register '
                            'and nothing farther than reach from one')


def pred_shatter(case, stats):
    _, shatter = _impl()
    a, c, limit = case['address'], case['count'], case['limit']
    lim = limit or default_limit(a)
    stats.case(case, nontrivial=c > lim, classes=['shatter:' + ('split' if c > lim else 'whole') +
                                                  (':exact_multiple' if c % lim == 0 and c > lim else '')])
    kw = {} if limit is None else {'limit': limit}
    out = [tuple(r) for r in shatter(a, c, **kw)]
    pos = a
    bad = None
    for pa, pc in out:
        if pa != pos or pc < 1 or pc > lim:
            bad = (pa, pc)
            break
        pos += pc
    if bad is None and pos != a + c:
        bad = ('ends-at', pos)
    if bad is not None:
        stats.fail('shatter', 'shatter:not-a-tiling', case, observed={'output': out[:20], 'detail': bad},
                   expected='consecutive non-empty pieces <= %d tiling [%d,%d)' % (lim, a, a + c))


CLAUSES = {'merge': pred_merge, 'shatter': pred_shatter}

# ------------------------------------------------------------------------------------------------
# generators


NEIGHBOURS = [((1, 9999), (10001, 19999)), ((10001, 19999), (30001, 39999)), ((30001, 39999), (40001, 99999)),
              ((40001, 99999), (100001, 165536)), ((100001, 165536), (300001, 365536)), ((300001, 365536), (400001, 465536))]


@st.composite
def mixed_bank_cases(draw):
    """Ranges of two neighbouring banks in one call (what a poller holding registers of several types passes), hugging the
    gap between the banks: every output piece must still be confined to one bank."""
    (lo1, hi1), (lo2, hi2) = draw(st.sampled_from(NEIGHBOURS))
    ranges = []
    for _ in range(draw(st.integers(1, 5))):
        c = draw(st.integers(1, 8))
        a = hi1 - draw(st.integers(0, 14)) - c + 1
        ranges.append([max(lo1, a), min(c, hi1 - max(lo1, a) + 1)])
    for _ in range(draw(st.integers(1, 5))):
        a = lo2 + draw(st.integers(0, 14))
        ranges.append([a, draw(st.integers(1, 8))])
    reach = draw(st.sampled_from(['default', 1, 2, 3, 5, 100, 100]))
    limit = draw(st.sampled_from([None, None, 0, 5, 123]))
    return {'ranges': ranges, 'reach': reach, 'limit': limit, 'mixed': True}


@st.composite
def merge_cases(draw):
    if draw(st.integers(0, 9)) == 0:
        return draw(mixed_bank_cases())
    lo, hi = draw(st.sampled_from(BANKS))
    # anchor: anywhere, or hugging a 10000-block edge / the bank's ends
    edges = [lo, hi] + [e for e in range((lo // 10000 + 1) * 10000, hi, 10000)]
    anchor = draw(st.one_of(st.integers(lo, hi),
                            st.builds(lambda e, d: min(hi, max(lo, e + d)), st.sampled_from(edges), st.integers(-12, 12))))
    n = draw(st.integers(1, 12))
    span = draw(st.sampled_from([6, 12, 40, 400]))
    ranges = []
    for _ in range(n):
        kind = draw(st.sampled_from(['free', 'free', 'dup', 'nested', 'adjacent', 'big']))
        if kind in ('dup', 'nested', 'adjacent') and ranges:
            a0, c0 = ranges[draw(st.integers(0, len(ranges) - 1))]
            if kind == 'dup':
                a, c = a0, c0
            elif kind == 'nested':
                a = draw(st.integers(a0, a0 + c0 - 1))
                c = draw(st.integers(1, a0 + c0 - a))
            else:
                a, c = a0 + c0, draw(st.integers(1, 8))
        else:
            a = anchor + draw(st.integers(-span, span))
            c = draw(st.integers(1, 12)) if kind != 'big' else draw(st.sampled_from([122, 123, 124, 250, 1967, 1968, 1969, 2500]))
        a = min(hi, max(lo, a))
        c = max(1, min(c, hi - a + 1))
        ranges.append([a, c])
    reach = draw(st.sampled_from(['default', None, 0, 1, 2, 3, 5, 100]))
    limit = draw(st.sampled_from([None, None, 0, 1, 2, 3, 5, 123, 1968, 5000]))       # (a Falsey limit means: none given)
    return {'ranges': ranges, 'reach': reach, 'limit': limit}


@st.composite
def shatter_cases(draw):
    lo, hi = draw(st.sampled_from(BANKS))
    a = draw(st.integers(lo, hi))
    limit = draw(st.sampled_from([None, None, 0, 1, 2, 3, 7, 123, 124, 1968, 5000]))
    lim = limit or default_limit(a)
    c = draw(st.one_of(st.integers(1, 30), st.builds(lambda k, d: max(1, k * lim + d), st.integers(1, 4), st.integers(-1, 1)),
                       st.integers(1, 6000)))
    c = max(1, min(c, hi - a + 1))
    return {'address': a, 'count': c, 'limit': limit}


# ------------------------------------------------------------------------------------------------
# clause: poller -- the Modbus poller polls the merged / shattered ranges; every requested register gets its value


def pred_poller(case, stats):
    import time
    try:
        from cpppo.remote.plc_modbus import poller_modbus
        from cpppo.remote.pymodbus_fixes import modbus_client_tcp
        from pymodbus.pdu.register_message import ReadHoldingRegistersRequest, ReadHoldingRegistersResponse
        from pymodbus.pdu.bit_message import ReadCoilsRequest, ReadCoilsResponse
    except Exception as exc:        # pymodbus flavour not importable here: the clause does not apply
        stats.exclude('poller clause: pymodbus pieces not importable (%s)' % type(exc).__name__)
        return
    requested = sorted(set(case['registers']))
    polled = []

    class fake_client(modbus_client_tcp):
        """in-process transport: Holding register 4xxxx holds xxxx"""

        def __init__(self):
            super(fake_client, self).__init__(host='localhost', port=1)

        def connect(self):
            return True

        def execute(self, no_response_expected, request):
            if isinstance(request, ReadCoilsRequest):
                # coil xxxx is on unless xxxx is a multiple of 3; the response goes through pymodbus' own encoding, which carries
                # whole bytes (the decoded bit list is padded to a multiple of 8)
                polled.append((1 + request.address, request.count))
                sent = ReadCoilsResponse(dev_id=request.dev_id, transaction_id=request.transaction_id,
                                         bits=[(1 + request.address + i) % 3 != 0 for i in range(request.count)])
                rsp = ReadCoilsResponse(dev_id=request.dev_id, transaction_id=request.transaction_id)
                rsp.decode(sent.encode())
                return rsp
            if not isinstance(request, ReadHoldingRegistersRequest):
                raise common.HarnessError('unexpected Modbus request %r' % (request,))
            polled.append((40001 + request.address, request.count))
            return ReadHoldingRegistersResponse(dev_id=request.dev_id, transaction_id=request.transaction_id,
                                                registers=[(request.address + 1 + i) & 0xFFFF for i in range(request.count)])

    plc = poller_modbus('vp fake PLC', client=fake_client(), reach=case['reach'])
    try:
        for a in requested:
            plc.poll(a, rate=.02)
        t0 = time.time()
        while plc.counter < 3 and time.time() - t0 < 30:
            time.sleep(.02)
        if plc.counter < 3:
            raise common.HarnessError('poller did not complete 3 polls within 30 s (inconclusive)')
        values = {a: plc.read(a) for a in requested}
    finally:
        plc.stop()
    span = requested[-1] - requested[0] + 1
    near = requested[0] < 10000 and any(0 < b - a < 8 and b - a > (case['reach'] or 0) for a, b in zip(requested, requested[1:]))
    stats.case(case, nontrivial=(span > 123 and len(requested) >= 2) or near,
               classes=['poller:span>limit' if span > 123 else 'poller:span<=limit', 'poller:registers:%d' % min(len(requested), 5)] + (
                   ['poller:coils'] if requested[0] < 10000 else []) + (['poller:coils:unmerged-neighbour-within-8'] if near else []))
    coils = requested[0] < 10000
    wrong = {a: v for a, v in values.items() if (v is None or bool(v) != (a % 3 != 0) if coils else v != a - 40000)}
    if wrong:
        stats.fail('poller', 'poller:requested-register-never-receives-its-value', case,
                   observed={'values': {str(a): v for a, v in sorted(wrong.items())[:6]}, 'polled': sorted(set(polled))[:8]},
                   expected='every requested register is inside a polled range and holds the value read there')
    covered = set()
    for a, c in set(polled):
        if c > (2000 if coils else 125):
            stats.fail('poller', 'poller:piece-exceeds-limit', case, observed={'piece': [a, c]}, expected='<= 125 registers (2000 coils) per read')
        covered.update(range(a, a + c))
    if not set(requested) <= covered:
        stats.fail('poller', 'poller:requested-register-not-polled', case,
                   observed={'missing': sorted(set(requested) - covered)[:8], 'polled': sorted(set(polled))[:8]},
                   expected='the polled ranges cover every requested register')


@st.composite
def poller_cases(draw):
    if draw(st.booleans()):
        # coils: short runs with small gaps and a small reach (bit responses carry whole bytes)
        reach = draw(st.sampled_from([1, 1, 2, 5, 10]))
        regs = [1 + draw(st.integers(0, 500))]
        for _ in range(draw(st.integers(1, 3))):
            for _ in range(draw(st.integers(0, 12))):       # a run of adjacent coils ...
                regs.append(regs[-1] + 1)
            regs.append(regs[-1] + draw(st.sampled_from([reach + 1, reach + 2, 7, 8, 9, 20])))     # ... and one a short gap beyond it
        return {'registers': regs, 'reach': reach}
    base = 40001 + draw(st.integers(0, 500))
    regs = [base]
    for _ in range(draw(st.integers(1, 7))):
        regs.append(regs[-1] + draw(st.sampled_from([1, 2, 50, 99, 100, 100, 101, 122, 123, 124, 200])))
    return {'registers': regs, 'reach': draw(st.sampled_from([1, 10, 100, 100, 150]))}


CLAUSES['poller'] = pred_poller


def shard_poller(job):
    seed, shard, n = job
    s = Stats()
    common.hyp_run(s, poller_cases(), pred_poller, n, common.shard_seed(seed, 300 + shard), 'poller', PID)
    return s


def shard_random(job):
    seed, shard, n = job
    s = Stats()
    common.hyp_run(s, merge_cases(), pred_merge, n, common.shard_seed(seed, shard), 'merge', PID)
    common.hyp_run(s, shatter_cases(), pred_shatter, max(50, n // 5), common.shard_seed(seed, shard) + 7, 'shatter', PID)
    return s


def universe(base, addr_n, count_n, reaches, limits, max_ranges, hi):
    rng = [(base + a, c) for a in range(addr_n) for c in range(1, count_n + 1) if base + a + c - 1 <= hi]
    for k in range(1, max_ranges + 1):
        for combo in itertools.combinations_with_replacement(rng, k):
            for reach in reaches:
                for limit in limits:
                    yield {'ranges': [list(r) for r in combo], 'reach': reach, 'limit': limit}


def shard_exhaustive(job):
    name, params, idx, nsh = job
    s = Stats()
    for i, case in enumerate(universe(*params)):
        if i % nsh != idx:
            continue
        common.run_pred(pred_merge, case, s, 'merge')
    return s


def shard_exhaustive_shatter(job):
    s = Stats()
    for a in list(range(1, 8)) + list(range(9990, 10000)) + list(range(40001, 40004)):
        bk = bank_of(a)
        for c in range(1, 40):
            if a + c - 1 > bk[1]:
                continue
            for limit in (None, 1, 2, 3, 4, 5, 7, 13):
                common.run_pred(pred_shatter, {'address': a, 'count': c, 'limit': limit}, s, 'shatter')
    return s


def run(tier, seed):
    thorough = tier == 'thorough'
    stats = Stats()
    nsh = 16
    # exhaustive small universes: all multisets of <= 3 ranges
    universes = [
        ('low', (1, 9, 4, (1, 2, 3), (None, 2, 3), 3, 9999)),
        ('block-edge', (9994, 6, 3, (1, 2), (None, 2), 3, 9999)),
        ('holding-block-edge', (49997, 6, 3, (1, 3), (None, 2), 3, 99999)),
    ]
    if thorough:
        universes.append(('low-4', (1, 7, 3, (1, 2), (None, 2), 4, 9999)))
    for name, params in universes:
        common.parallel(shard_exhaustive, [(name, params, i, nsh) for i in range(nsh)], stats=stats)
        stats.exhaustive[name] = ('all multisets of <= %d ranges with address in [%d,%d), count in 1..%d, reach in %r, limit in %r'
                                  % (params[5], params[0], params[0] + params[1], params[2], params[3], params[4]))
    common.parallel(shard_exhaustive_shatter, [0], stats=stats)
    stats.exhaustive['shatter-small'] = 'addresses {1..7, 9990..9999, 40001..40003} x count 1..39 x limit {None,1,2,3,4,5,7,13}'
    n = 20000 if thorough else 2500
    shards = 32 if thorough else 16
    common.parallel(shard_random, [(seed, i, n) for i in range(shards)], stats=stats)
    common.parallel(shard_poller, [(seed, i, 24 if thorough else 8) for i in range(16)], stats=stats)
    return stats


STRATEGIES = {'merge': lambda skey: merge_cases(), 'shatter': lambda skey: shatter_cases(), 'poller': lambda skey: poller_cases()}
