"""
C09 -- concurrent sessions are isolated and each request is atomic.

Engine A (deterministic, shrinkable): 2..3 session threads each execute a generated list of requests through the
in-process simulator, one thread at a time, under a harness-owned scheduler (vp/sched.py): every function call in
cpppo code and every line in device.py / logix.py / ucmm.py / the dfa lock handling of automata.py is a step, and a
Hypothesis-drawn schedule of <= 5 preemptions decides where the baton changes hands.  cpppo's locks are replaced
from the harness by scheduler-aware locks with the same interface.  Oracle over the recorded invocation/response
history: reply ownership, no exception / missing reply, private data, uniform (untorn) vectors, and an exhaustive
Wing-Gong linearizability search against the typed-array model.

Engine B (real preemption): 8 client threads against a TCP simulator with sys.setswitchinterval(1e-6); ownership,
private data, untorn vectors and per-writer monotonic visibility.
"""
from __future__ import annotations

import gc
import sys
import threading
import time

from hypothesis import strategies as st

from .. import common, refcodec as rc, sim
from ..sched import Scheduler, SchedLock, Deadlock
from ..common import Stats

PID = 'C09'
LEVEL = 'exploration'
RULE = ('engine A: case = 2..3 sessions x 1..4 requests each (whole-vector writes of a unique token to a shared 6-element tag, '
        'reads of it, writes/reads of a private tag, bundles of those) + a schedule of <= 5 preemptions (run k events, switch to '
        'thread t) at call/line granularity; non-trivial = at least one preemption took effect inside another session\'s parse or '
        'request processing and a shared-range write overlaps a read in the recorded history.  engine B: case = one stress round '
        'of 8 real client threads x 30 requests over TCP, every tenth followed by a pipelined pair (private write + read of it in one segment)')
ASSUMPTIONS = [
    'engine A explores a bounded set of interleavings at call/line granularity (preemption bounding); races inside a single '
    'line / C call are not split; it cannot show the absence of races',
    'a Multiple Service Packet is linearised as the sequence of its member requests (the statement\'s atomicity clause speaks '
    'of multi-element reads and writes, not of bundles)',
    'locks of the code under test (dfa locks, Object.lock, Connection_Manager.lock, UCMM.lock, logix.setup.lock) are replaced '
    'from the harness by scheduler-aware locks with identical acquire/release/locked/context-manager semantics',
    'each session has its own enip_machine, as each TCP connection has in enip_srv_tcp; the rest of the parsers are the shared '
    'class-level instances the server threads share',
    'engine B uses real OS scheduling: its oracle only contains clauses that hold under every interleaving; socket timeouts '
    '(10 s) are inconclusive',
]
MIN_EVALUATIONS = {'quick': 500, 'thorough': 5000}

SPECS = [
    {'name': 'S', 'type': 'DINT', 'length': 6, 'address': None},
    {'name': 'P0', 'type': 'DINT', 'length': 4, 'address': None},
    {'name': 'P1', 'type': 'DINT', 'length': 4, 'address': None},
    {'name': 'P2', 'type': 'DINT', 'length': 4, 'address': None},
    {'name': 'D', 'type': 'DINT', 'length': 12, 'address': None},      # one tag, session i alone writes elements [4i, 4i+4)
]
HOT = (['__setitem__'] * 4 + ['__getitem__'] * 3 + ['request'] * 4 + ['__exit__'] * 3 + ['__enter__'] * 2 + ['closure'] * 2 +
       ['reply_elements', 'process', 'produce', 'route', 'setup', 'resolve', 'lookup', 'post_process_closure'])
LINE_FILES = ('server/enip/device.py', 'server/enip/logix.py', 'server/enip/ucmm.py', 'server/enip/parser.py')
# (parser.py: the produce side -- typed data is encoded element by element there, after the request was processed)


@st.composite
def request(draw, sess):
    kind = draw(st.sampled_from(['ws', 'rs', 'wp', 'rp', 'bundle', 'ws', 'rs', 'wd', 'wd', 'rd']))
    if kind == 'bundle':
        members = draw(st.lists(st.sampled_from(['ws', 'rs', 'wp', 'rp', 'wd', 'rd']), min_size=2, max_size=3))
        return {'kind': 'bundle', 'members': members}
    return {'kind': kind}


@st.composite
def cases(draw):
    n = draw(st.integers(2, 3))
    sessions = [draw(st.lists(request(i), min_size=1, max_size=4)) for i in range(n)]
    if draw(st.integers(0, 3)) == 0:
        sessions[draw(st.integers(0, n - 1))].append({'kind': 'bad'})       # one session ends with an unparsable request
    npre = draw(st.integers(0, 5))
    ks = st.one_of(st.integers(1, 40), st.integers(1, 400), st.integers(1, 4000), st.integers(1, 12000))
    hot = st.sampled_from(HOT)
    entry = st.one_of(st.tuples(ks, st.integers(0, n - 1)).map(list),
                      st.tuples(st.just('fn'), hot, st.integers(1, 25), st.integers(0, n - 1)).map(list))
    schedule = [draw(entry) for _ in range(npre)]
    return {'sessions': sessions, 'schedule': schedule, 'register_inside': draw(st.integers(0, 3)) == 0}


# ------------------------------------------------------------------------------------------------
# engine A


def install_sched_locks(sched):
    """Replace every lock of the code under test by a scheduler-aware lock; returns an undo function."""
    import cpppo
    from cpppo.server.enip import device, logix, ucmm
    undo = []

    def swap(obj, name):
        old = getattr(obj, name)
        if isinstance(old, SchedLock):
            old.sched = sched
            return
        if hasattr(old, 'locked') and old.locked():
            raise common.HarnessError('lock %r of %r is held while installing scheduler locks' % (name, obj))
        setattr(obj, name, SchedLock(sched))
        undo.append((obj, name, old))

    for o in gc.get_objects():
        try:
            if isinstance(o, cpppo.automata.dfa_base) and 'lock' in o.__dict__:
                swap(o, 'lock')
        except ReferenceError:
            pass
    for cls in [device.Object] + list(_subclasses(device.Object)):
        if 'lock' in cls.__dict__:
            swap(cls, 'lock')
    swap(logix.setup, 'lock')

    def restore():
        for obj, name, old in undo:
            setattr(obj, name, old)
    return restore


def _subclasses(cls):
    for c in cls.__subclasses__():
        yield c
        for d in _subclasses(c):
            yield d


def token(sess, seq):
    return 100000 * (sess + 1) + seq


def run_schedule(case):
    """-> dict(history=[...], errors={...}, sched=Scheduler)"""
    import cpppo
    from cpppo.server.enip import parser
    dev = sim.Device(SPECS)
    n = len(case['sessions'])
    root = sim.common_repo_root() if hasattr(sim, 'common_repo_root') else None
    prefix = sys.modules['cpppo'].__file__.rsplit('/', 1)[0] + '/'
    sched = Scheduler(case['schedule'], trace_prefixes=(prefix,), line_files=LINE_FILES)
    # sessions registered up-front, untraced and serially
    inside = bool(case.get('register_inside'))      # Register Session issued by the session threads themselves, under the schedule
    try:
        sessions = [sim.Session(dev, ('10.0.0.1', 5000 + i), register=not inside) for i in range(n)]      # several clients of one host
    except AssertionError as exc:
        dev.close()
        return {'setup_failed': repr(exc)[:300]}
    machines = [parser.enip_machine(name='vp%d' % i, context='enip') for i in range(n)]
    restore = install_sched_locks(sched)
    history = []
    hlock = threading.Lock()

    def body(i):
        def run():
            seq = 0
            sess = sessions[i]
            if inside:
                sess.register(machine=machines[i])
            for rq in case['sessions'][i]:
                if rq['kind'] == 'bad':
                    # an unparsable request (Read Tag cut before its element count is complete): this session is refused and ends;
                    # the other sessions must not notice
                    msg = rc.req_read_tag([{'symbolic': 'S'}], 6)[:-1]
                    ctx = sess.context()
                    inv = sched.now()
                    kind, rpy = dev.process(sess.addr, rc.rr_frame(sess.handle, rc.unconnected_send(msg), ctx), machine=machines[i])
                    with hlock:
                        history.append({'sess': i, 'inv': inv, 'resp': sched.now(), 'bad': True, 'kind': kind, 'metas': [], 'bundle': False, 'ctx': ctx.hex(),
                                        'raw': rpy if kind == 'reply' else None})
                    break
                kinds = rq['members'] if rq['kind'] == 'bundle' else [rq['kind']]
                msgs, metas = [], []
                for k in kinds:
                    if k in ('wd', 'rd'):
                        path = [{'symbolic': 'D'}, {'element': 4 * i}]
                        if k == 'wd':
                            seq += 1
                            tok = token(i, seq)
                            msgs.append(rc.req_write_tag(path, 'DINT', [tok] * 4))
                            metas.append({'op': 'w', 'tag': 'D', 'lo': 4 * i, 'value': [tok] * 4})
                        else:
                            msgs.append(rc.req_read_tag(path, 4))
                            metas.append({'op': 'r', 'tag': 'D', 'lo': 4 * i})
                    elif k in ('ws', 'wp'):
                        seq += 1
                        tag = 'S' if k == 'ws' else 'P%d' % i
                        L = 6 if k == 'ws' else 4
                        tok = token(i, seq)
                        msgs.append(rc.req_write_tag([{'symbolic': tag}], 'DINT', [tok] * L))
                        metas.append({'op': 'w', 'tag': tag, 'value': [tok] * L})
                    else:
                        tag = 'S' if k == 'rs' else 'P%d' % i
                        L = 6 if k == 'rs' else 4
                        msgs.append(rc.req_read_tag([{'symbolic': tag}], L))
                        metas.append({'op': 'r', 'tag': tag})
                msg = rc.req_multiple(msgs) if rq['kind'] == 'bundle' else msgs[0]
                ctx = sess.context()
                frame = rc.rr_frame(sess.handle, rc.unconnected_send(msg), ctx)
                inv = sched.now()
                kind, rpy = dev.process(sess.addr, frame, machine=machines[i])
                resp = sched.now()
                rec = {'sess': i, 'inv': inv, 'resp': resp, 'bundle': rq['kind'] == 'bundle', 'metas': metas, 'kind': kind, 'ctx': ctx.hex()}
                if kind == 'reply':
                    rec['raw'] = rpy
                else:
                    rec['error'] = repr(rpy)[:200]
                with hlock:
                    history.append(rec)
        return run

    final = None
    try:
        sched.run([body(i) for i in range(n)])
        final = {sp['name']: list(dev.values(sp['name'])) for sp in SPECS}
    finally:
        restore()
        dev.close()
    return {'final': final, 'history': history, 'errors': {k: repr(v)[:300] for k, v in sched.errors.items()}, 'sched': sched, 'sessions': sessions, 'dev': dev}


def decode_record(rec, handle):
    """-> (problems, [result per member]) ; result = ('w', ok) | ('r', values)"""
    problems = []
    if rec['kind'] != 'reply':
        return [('request-raised-or-closed', {'kind': rec['kind'], 'error': rec.get('error')})], None
    try:
        e, msg = rc.dec_rr_reply(rec['raw'])
        if e['status'] != 0:
            return [('encapsulation-error-status', {'status': e['status']})], None
        if e['context'].hex() != rec['ctx']:
            problems.append(('reply-carries-foreign-sender-context', {'sent': rec['ctx'], 'got': e['context'].hex()}))
        if e['session'] != handle:
            problems.append(('reply-carries-foreign-session-handle', {'own': handle, 'got': e['session']}))
        mr = rc.dec_mr_reply(msg)
        parts = [rc.dec_mr_reply(x) for x in rc.dec_multiple_body(mr['data'])] if rec['bundle'] else [mr]
        if rec['bundle'] and (mr['service'] != 0x8A or mr['status'] != 0):
            return problems + [('bundle-reply-status', {'reply': {'service': mr['service'], 'status': mr['status']}})], None
        if len(parts) != len(rec['metas']):
            return problems + [('member-count', {'got': len(parts), 'want': len(rec['metas'])})], None
        results = []
        for meta, r in zip(rec['metas'], parts):
            if meta['op'] == 'w':
                if r['service'] != 0xCD or r['status'] != 0:
                    problems.append(('write-reply', {'service': r['service'], 'status': r['status'], 'ext': r['ext']}))
                results.append(('w', True))
            else:
                if r['service'] != 0xCC or r['status'] != 0:
                    problems.append(('read-reply', {'service': r['service'], 'status': r['status'], 'ext': r['ext']}))
                    results.append(('r', None))
                else:
                    results.append(('r', rc.dec_read_reply(r, 'DINT')[1]))
        return problems, results
    except rc.RefDecodeError as exc:
        return problems + [('reply-undecodable', {'error': str(exc)})], None


def linearizable(ops, init):
    """Wing-Gong search.  ops: [{'sess','inv','resp','seq','op','tag','value'|'result'}]; per session order by seq."""
    n = len(ops)
    done = [False] * n
    state = {k: list(v) for k, v in init.items()}
    seen = set()

    def minimal(i):
        # op i may go next if no undone op finished before i was invoked, and all earlier ops of its session are done
        for j in range(n):
            if done[j] or j == i:
                continue
            if ops[j]['resp'] < ops[i]['inv']:
                return False
            if ops[j]['sess'] == ops[i]['sess'] and ops[j]['seq'] < ops[i]['seq']:
                return False
        return True

    def search(k):
        if k == n:
            return True
        key = (tuple(done), tuple(tuple(v) for _, v in sorted(state.items())))
        if key in seen:
            return False
        seen.add(key)
        for i in range(n):
            if done[i] or not minimal(i):
                continue
            o = ops[i]
            lo = o.get('lo', 0)
            if o['op'] == 'r':
                if o['result'] != state[o['tag']][lo:lo + len(o['result'])]:
                    continue
                done[i] = True
                if search(k + 1):
                    return True
                done[i] = False
            else:
                old = state[o['tag']]
                state[o['tag']] = list(old[:lo]) + list(o['value']) + list(old[lo + len(o['value']):])
                done[i] = True
                if search(k + 1):
                    return True
                done[i] = False
                state[o['tag']] = old
        return False

    return search(0)


def pred_schedule(case, stats):
    out = run_schedule(case)
    if 'setup_failed' in out:
        stats.case(case, classes=['setup-failed'])
        stats.fail('schedule', 'session-registration-failed', case, observed=out['setup_failed'], expected='sessions can register')
        return
    hist, sched = out['history'], out['sched']
    n = len(case['sessions'])
    fail = lambda sig, obs, exp: stats.fail('schedule', sig, case, observed=obs, expected=exp)
    if sched.deadlock:
        fail('deadlock', {'detail': sched.deadlock, 'switches': sched.switch_log[-6:]}, 'every thread completes under every schedule')
    for i, err in out['errors'].items():
        fail('exception-in-session-thread', {'session': i, 'error': err}, 'no interleaving causes an exception')
    handles = [x.handle for x in out['sessions']]
    if None not in handles and len(set(handles)) != len(handles):
        fail('sessions-open-at-once-share-a-session-handle', {'handles': handles}, 'every open session has its own session handle')
    # expected number of records
    want = sum((next((k + 1 for k, rq in enumerate(s_) if rq['kind'] == 'bad'), len(s_))) for s_ in case['sessions'])
    if len(hist) != want and not sched.deadlock and not out['errors']:
        fail('missing-or-duplicated-reply', {'records': len(hist), 'requests': want}, 'one reply per request')
    ops = []
    per_sess_seq = [0] * n
    latest_private = {}
    latest_own_range = {}
    hist_sorted = sorted(hist, key=lambda r: (r['sess'], r['inv']))
    for rec in hist_sorted:
        if rec.get('bad'):
            if rec['kind'] == 'reply' and rc.dec_encap(rec['raw'])['status'] == 0:
                fail('unparsable-request-answered-with-success', {'session': rec['sess']}, 'an error status or a closed session')
            continue
        problems, results = decode_record(rec, out['sessions'][rec['sess']].handle)
        for sig, d in problems:
            fail(sig, dict(d, session=rec['sess']), 'every session receives replies only to its own requests, all well-formed')
        if results is None:
            continue
        for meta, res in zip(rec['metas'], results):
            per_sess_seq[rec['sess']] += 1
            o = {'sess': rec['sess'], 'inv': rec['inv'], 'resp': rec['resp'], 'seq': per_sess_seq[rec['sess']], 'op': meta['op'], 'tag': meta['tag']}
            if 'lo' in meta:
                o['lo'] = meta['lo']
            if meta['op'] == 'w':
                o['value'] = meta['value']
                if meta['tag'] == 'D':
                    latest_own_range[rec['sess']] = meta['value']
                elif meta['tag'] != 'S':
                    latest_private[rec['sess']] = meta['value']
            else:
                o['result'] = res[1]
                if res[1] is not None and len(set(res[1])) != 1:
                    fail('torn-read', {'session': rec['sess'], 'tag': meta['tag'], 'values': res[1]},
                         'a multi-element read never observes part of a concurrent multi-element write')
                if meta['tag'] == 'D' and res[1] is not None:
                    wantp = latest_own_range.get(rec['sess'], [0, 0, 0, 0])
                    if res[1] != wantp:
                        fail('private-data-lost-or-foreign', {'session': rec['sess'], 'tag': 'D', 'elements': [meta['lo'], meta['lo'] + 4], 'read': res[1],
                                                              'own_latest_write': wantp},
                             'elements only one session writes keep that session\'s latest write')
                elif meta['tag'] != 'S' and res[1] is not None:
                    wantp = latest_private.get(rec['sess'], [0, 0, 0, 0])
                    if res[1] != wantp:
                        fail('private-data-lost-or-foreign', {'session': rec['sess'], 'read': res[1], 'own_latest_write': wantp},
                             'elements only one session writes keep that session\'s latest write')
            if o['op'] == 'w' or o.get('result') is not None:
                ops.append(o)
    if out.get('final') is not None and not out['errors'] and not sched.deadlock:
        for i in range(n):
            want_own = latest_own_range.get(i, [0, 0, 0, 0])
            got_own = out['final']['D'][4 * i:4 * i + 4]
            if got_own != want_own:
                fail('acknowledged-write-to-own-elements-lost', {'session': i, 'tag': 'D', 'elements': [4 * i, 4 * i + 4], 'final': got_own,
                                                                'own_latest_acknowledged_write': want_own},
                     'no interleaving loses a write to elements that only one session writes')
    init = {s['name']: [0] * s['length'] for s in SPECS}
    if len(ops) <= 14 and not linearizable(ops, init):
        fail('history-not-linearizable', {'ops': [{k: v for k, v in o.items()} for o in ops]},
             'replies consistent with one sequential order of all requests respecting each session\'s order')
    # final state must be the state after some linearization: cheap necessary condition -- S holds the token of some write (or zeros)
    effective = [s for s in sched.switch_log if s[3] in ('preempt', 'blocked')]
    overlap = any(a['op'] == 'w' and a['tag'] == 'S' and b['op'] == 'r' and b['tag'] == 'S' and a['sess'] != b['sess']
                  and a['inv'] <= b['resp'] and b['inv'] <= a['resp'] for a in ops for b in ops)
    classes = ['sessions:%d' % n, 'preemptions-effective:%d' % min(len(effective), 5)]
    if any(s[3] == 'blocked' for s in sched.switch_log):
        classes.append('lock-contention-seen')
    if overlap:
        classes.append('shared-write-overlaps-read')
    if any(r['bundle'] for r in hist):
        classes.append('bundle')
    stats.case(case, nontrivial=bool(effective) and overlap, classes=classes)
    stats.count('traced-events', sched.events)


# ------------------------------------------------------------------------------------------------
# engine B: real threads over TCP


def same_port_pair(srv, s, case):
    """Two sessions open at once from two client addresses that use the same source port (127.0.0.1:P and 127.0.0.2:P): each is
    served on its own.  A missing reply alone is inconclusive; it becomes a violation when the reply arrives as soon as the other
    session is closed (the sessions were not isolated)."""
    import socket
    a = b = None
    try:
        a = socket.socket(socket.AF_INET, socket.SOCK_STREAM)
        a.setsockopt(socket.SOL_SOCKET, socket.SO_REUSEADDR, 1)
        a.bind(('127.0.0.1', 0))
        port = a.getsockname()[1]
        b = socket.socket(socket.AF_INET, socket.SOCK_STREAM)
        b.setsockopt(socket.SOL_SOCKET, socket.SO_REUSEADDR, 1)
        try:
            b.bind(('127.0.0.2', port))
        except OSError:
            s.count('engineB:same-port-pair:second-loopback-address-unavailable')
            return
        for x in (a, b):
            x.settimeout(10.0)
            x.connect(srv.address)
        a.sendall(rc.register(b'pair-A\0\0'))
        fa, _, _ = sim.recv_frames(a, 1, 10.0)
        if not fa:
            raise common.HarnessError('engine B: no Register reply for the first session of the same-port pair')
        b.sendall(rc.register(b'pair-B\0\0'))
        fb, _, eofb = sim.recv_frames(b, 1, 10.0)
        s.count('engineB:same-port-pair')
        if fb:
            ea, eb = rc.dec_encap(fa[0]), rc.dec_encap(fb[0])
            if ea['session'] == eb['session'] or eb['context'] != b'pair-B\0\0' or eb['status'] != 0:
                s.fail('stress', 'tcp:same-port-sessions-not-distinct', case, observed={'a': ea['session'], 'b': eb['session'], 'b_status': eb['status']},
                       expected='two sessions with their own handles')
            return
        a.close()
        a = None
        fb, _, _ = sim.recv_frames(b, 1, 5.0)
        if fb:
            s.fail('stress', 'tcp:session-served-only-after-another-session-closed', case,
                   observed={'client_addresses': ['127.0.0.1:%d' % port, '127.0.0.2:%d' % port], 'waited_s': 10},
                   expected='simultaneous sessions are served independently of each other')
            return
        raise common.HarnessError('engine B: second session of the same-port pair got no Register reply (inconclusive)')
    finally:
        for x in (a, b):
            if x is not None:
                try:
                    x.close()
                except OSError:
                    pass


def stress_round(job):
    seed, round_no, nthreads, nreq = job
    s = Stats()
    specs = [{'name': 'S', 'type': 'DINT', 'length': 40, 'address': None}] + [
        {'name': 'Q%d' % i, 'type': 'DINT', 'length': 8, 'address': None} for i in range(nthreads)]
    srv = sim.per_process('c09', lambda: sim.TcpServer(specs))
    for sp in specs:
        srv.set_values(sp['name'], [0] * sp['length'])
    case = {'engine': 'B', 'round': round_no, 'threads': nthreads, 'requests': nreq}
    old = sys.getswitchinterval()
    sys.setswitchinterval(1e-6)
    problems = []
    plock = threading.Lock()
    seen_max = {}
    handles = []
    pipelined = []
    barrier = threading.Barrier(nthreads)

    def client(i):
        try:
            sess = sim.TcpSession(srv, timeout=10.0)
            extra = [sim.TcpSession(srv, timeout=10.0) for _ in range(2)]       # more sessions registering at the same moment
            with plock:
                handles.extend([sess.handle] + [x.handle for x in extra])
            try:
                barrier.wait(30)            # every session of the round is open now
            except threading.BrokenBarrierError:
                pass
            for x in extra:
                x.close()
            own = [0] * 8
            last_seen = {}
            for k in range(1, nreq + 1):
                what = (i + k + round_no) % 4
                if what == 0:
                    tok = token(i, k)
                    out = sess.send(rc.req_write_tag([{'symbolic': 'S'}], 'DINT', [tok] * 40))
                    ok = out['reply'] is not None and out['reply']['status'] == 0 and out['reply']['service'] == 0xCD
                elif what == 1:
                    out = sess.send(rc.req_read_tag([{'symbolic': 'S'}], 40))
                    ok = out['reply'] is not None and out['reply']['status'] == 0 and out['reply']['service'] == 0xCC
                    if ok:
                        vals = rc.dec_read_reply(out['reply'], 'DINT')[1]
                        if len(set(vals)) != 1:
                            with plock:
                                problems.append(('tcp:torn-read', {'thread': i, 'values': sorted(set(vals))[:6]}))
                        else:
                            w, q = divmod(vals[0], 100000)
                            if w and last_seen.get(w, 0) > q and False:
                                pass
                            if w:
                                # once this reader saw (w, q) it may later see (w, q') only with q' >= q if no other writer intervened;
                                # with other writers in between an older token of w cannot reappear either (tokens are written once)
                                if q < last_seen.get(w, 0):
                                    with plock:
                                        problems.append(('tcp:stale-token-reappeared', {'thread': i, 'writer': w, 'seen': last_seen[w], 'now': q}))
                                last_seen[w] = max(q, last_seen.get(w, 0))
                elif what == 2:
                    own = [token(i, k)] * 8
                    out = sess.send(rc.req_write_tag([{'symbolic': 'Q%d' % i}], 'DINT', own))
                    ok = out['reply'] is not None and out['reply']['status'] == 0
                else:
                    out = sess.send(rc.req_multiple([rc.req_read_tag([{'symbolic': 'Q%d' % i}], 8), rc.req_read_tag([{'symbolic': 'S'}], 40)]))
                    ok = out['reply'] is not None and out['reply']['status'] == 0 and out['reply']['service'] == 0x8A
                    if ok:
                        parts = [rc.dec_mr_reply(x) for x in rc.dec_multiple_body(out['reply']['data'])]
                        mine = rc.dec_read_reply(parts[0], 'DINT')[1]
                        if mine != own:
                            with plock:
                                problems.append(('tcp:private-data-lost-or-foreign', {'thread': i, 'read': mine[:3], 'own': own[:3]}))
                        shared = rc.dec_read_reply(parts[1], 'DINT')[1]
                        if len(set(shared)) != 1:
                            with plock:
                                problems.append(('tcp:torn-read', {'thread': i, 'values': sorted(set(shared))[:6]}))
                if out['kind'] == 'timeout':
                    with plock:
                        problems.append(('HARNESS', 'timeout'))
                    return
                if not ok:
                    with plock:
                        problems.append(('tcp:request-failed-under-concurrency', {'thread': i, 'k': k, 'outcome': out['kind'], 'enip_status': out['enip_status'],
                                                                                 'reply': None if out['reply'] is None else {'service': out['reply']['service'], 'status': out['reply']['status']}}))
                    return
                if out['encap']['session'] != sess.handle or out['encap']['context'] != out['context']:
                    with plock:
                        problems.append(('tcp:reply-carries-foreign-context-or-handle', {'thread': i}))
                if k % 10 == 5:
                    # a session may issue its next request without awaiting the reply: a private write and the read of it delivered
                    # in one segment, while the other sessions keep the server's threads busy; each must be answered, in order.  A
                    # reply that has not arrived after 3 s is only called missing once a later request of the session was answered.
                    own = [token(i, 1000 + k)] * 8
                    ctxs = [sess.context(), sess.context()]
                    pair = [rc.req_write_tag([{'symbolic': 'Q%d' % i}], 'DINT', own), rc.req_read_tag([{'symbolic': 'Q%d' % i}], 8)]
                    sess.sock.sendall(b''.join(rc.rr_frame(sess.handle, rc.unconnected_send(m), c) for m, c in zip(pair, ctxs)))
                    frames, left, eof = sim.recv_frames(sess.sock, 2, 3.0)
                    if len(frames) < 2 and not eof:
                        ctxs.append(sess.context())
                        sess.sock.sendall(rc.rr_frame(sess.handle, rc.unconnected_send(pair[1]), ctxs[2]))
                        more, left, eof = sim.recv_frames(sess.sock, 1, sess.timeout)
                        frames = frames + more
                    got = [rc.dec_encap(f)['context'] for f in frames]
                    pipelined.append(k)
                    if got[:2] != ctxs[:2]:
                        if len(ctxs) == 3 and ctxs[2] in got and got != ctxs:
                            with plock:
                                problems.append(('tcp:pipelined-request-unanswered-or-out-of-order', {'thread': i, 'k': k, 'sent': [c.hex() for c in ctxs], 'answered': [c.hex() for c in got]}))
                        elif eof:
                            with plock:
                                problems.append(('tcp:request-failed-under-concurrency', {'thread': i, 'k': k, 'outcome': 'closed after pipelined pair', 'enip_status': None, 'reply': None}))
                        else:
                            with plock:
                                problems.append(('HARNESS', 'timeout'))
                        return
                    rds = [rc.dec_mr_reply(rc.dec_rr_reply(f)[1]) for f in frames[:2]]
                    if rds[0]['status'] != 0 or rds[1]['status'] != 0 or rc.dec_read_reply(rds[1], 'DINT')[1] != own:
                        with plock:
                            problems.append(('tcp:pipelined-pair-wrong-replies', {'thread': i, 'k': k, 'status': [r['status'] for r in rds]}))
                        return
            sess.close()
        except (rc.RefDecodeError, IndexError, KeyError, ValueError) as exc:
            with plock:
                problems.append(('tcp:reply-undecodable-or-incomplete', {'thread': i, 'error': '%s: %s' % (type(exc).__name__, str(exc)[:200])}))
        except Exception as exc:     # noqa
            with plock:
                problems.append(('HARNESS', '%s: %s' % (type(exc).__name__, str(exc)[:200])))

    same_port_pair(srv, s, case)
    stop_hostile = threading.Event()

    def hostile():
        # sessions whose requests cannot be parsed (a Read Tag cut before its element count is complete): each is refused and its
        # connection closed; the well-formed sessions running at the same time must not notice
        bad = rc.unconnected_send(rc.req_read_tag([{'symbolic': 'S'}], 40)[:-1])
        n = 0
        while not stop_hostile.is_set() and n < 400:
            n += 1
            try:
                h = sim.TcpSession(srv, timeout=10.0)
                h.sock.sendall(rc.rr_frame(h.handle, bad, b'hostile\0'))
                sim.recv_until_eof(h.sock, 10.0)
                h.close()
            except Exception:
                pass
        with plock:
            hostile_count.append(n)

    hostile_count = []
    try:
        ts = [threading.Thread(target=client, args=(i,), daemon=True) for i in range(nthreads)]
        hs = [threading.Thread(target=hostile, daemon=True) for _ in range(2)]
        for t in hs:
            t.start()
        for t in ts:
            t.start()
        for t in ts:
            t.join(120)
        stop_hostile.set()
        for t in hs:
            t.join(30)
    finally:
        stop_hostile.set()
        sys.setswitchinterval(old)
    harness = [p for p in problems if p[0] == 'HARNESS']
    if harness:
        raise common.HarnessError('engine B: %r' % (harness[0][1],))
    s.case(case, nontrivial=True, classes=['engineB:round'])
    s.count('engineB:requests', nthreads * nreq)
    s.count('engineB:unparsable-requests-from-hostile-sessions', sum(hostile_count))
    s.count('engineB:pipelined-pairs', len(pipelined))
    if len(handles) == 3 * nthreads and len(set(handles)) != len(handles):
        problems.append(('tcp:sessions-open-at-once-share-a-session-handle', {'handles': sorted(handles)[:12]}))
    for sig, d in problems:
        s.fail('stress', sig, case, observed=d, expected='isolation and atomicity under real thread preemption')
    if not srv.alive():
        s.fail('stress', 'tcp:server-thread-died', case, observed=repr(srv.error), expected='server survives')
    return s


def pred_stress(case, stats):
    raise common.HarnessError('engine B rounds are not individually replayable (real OS scheduling); rerun the tier')


CLAUSES = {'schedule': pred_schedule, 'stress': pred_stress}
STRATEGIES = {'schedule': lambda k: cases()}


SWEEP_SCENARIOS = [
    {'sessions': [[{'kind': 'ws'}], [{'kind': 'rs'}]]},
    {'sessions': [[{'kind': 'rs'}], [{'kind': 'ws'}]]},
    {'sessions': [[{'kind': 'bundle', 'members': ['ws', 'rp']}], [{'kind': 'bundle', 'members': ['rs', 'wp']}]]},
    {'sessions': [[{'kind': 'ws'}, {'kind': 'rs'}], [{'kind': 'ws'}, {'kind': 'rs'}]]},
    {'sessions': [[{'kind': 'rp'}], [{'kind': 'wp'}]], 'register_inside': True},      # both sessions register under the schedule
    {'sessions': [[{'kind': 'wd'}], [{'kind': 'wd'}]]},                               # disjoint element ranges of one tag
]


def sweep_length(scenario):
    out = run_schedule(dict(scenario, schedule=[]))
    # line events executed by thread 0 alone = those before the first hand-over
    first = [sw for sw in out['sched'].switch_log if sw[3] == 'finished']
    return first[0][4] if first else out['sched'].line_events      # line events thread 0 executes on its own


def sweep_shard(job):
    """Systematic single-preemption exploration: thread 0 is preempted after exactly n line events of request-processing
    code, thread 1 then runs to completion, thread 0 resumes -- for every n in the job's range."""
    _, si, ns = job
    s = Stats()
    for n in ns:
        case = dict(SWEEP_SCENARIOS[si], schedule=[['line', n, 1]])
        common.run_pred(pred_schedule, case, s, 'schedule')
    return s


SWEEP2_SCENARIO = {'sessions': [[{'kind': 'bad'}], [{'kind': 'rs'}]]}


def sweep2_shard(job):
    """Two preemptions: session 0 (whose request cannot be parsed) is preempted at the k-th line executed inside a parser's
    __exit__, session 1 runs m line events of its own (valid) request, session 0 resumes and finishes, session 1 finishes."""
    _, pairs = job
    s = Stats()
    for k, m in pairs:
        case = dict(SWEEP2_SCENARIO, schedule=[['fn', '__exit__', k, 1], ['line', m, 0]])
        common.run_pred(pred_schedule, case, s, 'schedule')
    return s


def shard(job):
    if job[0] == 'sweep2':
        return sweep2_shard(job)
    if job[0] == 'sweep':
        return sweep_shard(job)
    if job[0] == 'B':
        out = Stats()
        for r in range(job[2]):
            out.merge(stress_round((job[1], r, 8, 30)))
        return out
    _, seed, i, n = job
    s = Stats()
    common.hyp_run(s, cases(), pred_schedule, n, common.shard_seed(seed, i), 'schedule', PID)
    return s


def measure_sweeps(job):
    s = Stats()
    s.extra['sweep_lengths'] = [sweep_length(sc) for sc in SWEEP_SCENARIOS]
    return s


def run(tier, seed):
    stats = Stats()
    m = common.parallel(measure_sweeps, [0], fork=True)
    lengths = m.extra['sweep_lengths']
    scenarios = range(len(SWEEP_SCENARIOS)) if tier == 'thorough' else [0, 1, 4, 5]
    jobs = []
    for si in scenarios:
        # thread 0's own share of the line events is at most the whole run's; preempting later than that is a no-op
        ns = list(range(1, lengths[si] + 2, 1 if tier == 'thorough' else 2))
        nsh = 16
        jobs += [('sweep', si, ns[i::nsh]) for i in range(nsh)]
        stats.exhaustive['single-preemption sweep, scenario %d' % si] = (
            'thread 0 preempted after every %snumber n of line events in 1..%d of device.py/logix.py/ucmm.py/lock handling, '
            'thread 1 runs to completion, thread 0 resumes' % ('' if tier == 'thorough' else 'second ', lengths[si] // 2 + 199))
    mstep = 20 if tier == 'thorough' else 90
    pairs = [(k, m) for k in range(1, 49) for m in range(1, 2600, mstep)]
    jobs += [('sweep2', pairs[i::32]) for i in range(32)]
    stats.exhaustive['two-preemption sweep (unparsable request vs. valid request)'] = (
        'session 0 preempted at the k-th line inside a parser __exit__ (k = 1..48), session 1 then runs m line events (m = 1, %d, ... < 2600), '
        'session 0 finishes, session 1 finishes' % (1 + mstep))
    if tier == 'thorough':
        jobs += [('A', seed, i, 120) for i in range(28)] + [('B', seed, 40), ('B', seed + 1, 40)]
    else:
        jobs += [('A', seed, i, 16) for i in range(15)] + [('B', seed, 6)]
    common.parallel(shard, jobs, stats=stats)
    return stats
