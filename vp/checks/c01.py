"""
C01 -- wire codec round-trip over the whole EtherNet/IP CIP message grammar
(server/enip/parser.py, device.py, logix.py, defaults.py; automata.py).

For every generated message m of the reference model (vp/refcodec.py + vp/refcodec_full.py: encoders written from
the layout tables with struct only) with reference bytes b = encode(m):

  1. produce   <library producer>( d(m) ) == b            d(m) = the dict a caller writes (vp/c01map.py, c01chk.py)
  2. parse     the library machines, layered as server and client layer them (enip_machine -> CIP -> dialect parser
               over each CPF item's request; Multiple Service members through the Message Router's own parser),
               end terminal with the source fully consumed and contain every encoded field, leaf by leaf
  3. regen     <library producer>( parse(b) ) == b exactly   (raw request octets kept beside parsed members are
               deleted first so that every layer really is re-produced)

A failing composite is localised: its parts are checked on their own and only the innermost failing part is
reported, so signatures name the construct that is wrong (e.g. mr:write_tag:req[STRUCT]:produce:bytes).
"""
from __future__ import annotations

import os

from .. import common
from .. import c01gen as gen
from .. import c01chk as chk
from ..common import Stats

PID = 'C01'
LEVEL = 'exploration'
RULE = ('case = one message of the reference model at one of four levels -- element (EPATH plain/padded/single, status, '
        'typed data of the 14 element types), Message Router / Connection Manager service (request and reply of Read/Write '
        'Tag [Fragmented], Get/Set Attribute Single, Get Attributes All, Get Attribute List, Multiple Service Packet, '
        'Forward Open small/large, Forward Close), Unconnected Send wrapper / CPF item list, complete encapsulated frame '
        '(Register, Unregister, List Services/Identity/Interfaces, Legacy 0x0001, SendRRData, SendUnitData) -- drawn by '
        'Hypothesis with boundary-biased integers, plus a deterministic boundary product (each integer type x '
        '{min,min+1,-1,0,1,max-1,max} x scalar/array, each segment kind x each width boundary, symbol / link / string '
        'lengths at 0,1,odd,even,254,255); non-trivial = the case contains a value at a width or range boundary, an '
        'odd-length string/symbol/link (pad byte), a >= 16-bit path segment, an extended port, >= 1 extended status word, '
        '>= 2 CPF items, >= 2 bundled services, a 64-bit element, a Large Forward Open or an odd-length wrapped message')
ASSUMPTIONS = [
    'trusted base: struct.pack/unpack and the reference encoders vp/refcodec.py, vp/refcodec_full.py (no cpppo import); a '
    'layout misread shared by cpppo\'s docstring tables and the reference encoder is invisible',
    'List Services item: service name + NUL as in parser.communications_service\'s table (the ODVA table pads to 16 bytes)',
    'machines are built with terminal=True (as client.py builds enip_machine and CIP); the dialect parser of a request is '
    'chosen as the client chooses it: Connection_Manager for Forward Open/Close, Logix otherwise; a Logix Message Router '
    'exists at class 2 instance 1 and Multiple Service Packet requests are addressed to it',
    'canonical domain for clauses 1 and 3: numeric segments at their narrowest width, extended status only with non-zero '
    'status, BOOL octets 0x00/0xFF, Large Forward Open NCPs > 0xFFFF in both directions (the <= 0xFFFF region is generated '
    'separately and only "no exception" is asserted), application data of Forward Open/Close replies a whole number of words; '
    'non-canonical encodings are parse-only cases',
    'not generated: zero-length symbolic names / link addresses, Get Attribute List request with zero attributes, read replies / '
    'write requests without any data element, successful Get Attribute replies without data, known CPF item types with empty '
    'payload, signalling REAL NaNs (the C float<->double conversion quiets them)',
    'parse direction not asserted for the documented Unconnected Send / Read Tag Fragmented collisions (counted per case)',
    'IFACEADDRS (TCP/IP Interface Object attribute 5): each address is the UDINT a<<24|b<<16|c<<8|d of "a.b.c.d", little-endian '
    'like every CIP UDINT (what the code does; the class docstring\'s "network byte-ordered" example contradicts itself)',
    'known findings (known_findings.json) are still exercised at their own level, but the construct is not embedded in larger '
    'messages (rejected draws are counted) so that the search continues behind them',
]
MIN_EVALUATIONS = {'quick': 12000, 'thorough': 250000}


# known findings -> the construct the generator keeps out of composites (see c01gen.AVOID)
SIG_CLASS = {
    'mr:get_attribute_list:rpy:parse:differs:get_attribute_list.data': 'ga-list-reply',
    'mr:get_attribute_list:rpy:parse:exc:AssertionError@automata.py:run': 'ga-list-reply',
    'mr:write_tag:req[STRUCT]:produce:bytes': 'struct-write',
    'mr:write_frag:req[STRUCT]:produce:bytes': 'struct-write',
    'typed:STRUCT:produce:bytes': 'struct-handle-0',
    'typed:STRUCT:parse:exc:AssertionError@server/enip/parser.py:execute': 'struct-empty',
    'cpf:parse:exc:AssertionError@automata.py:run': 'cpf-unknown-item-not-last',
}


def set_avoid():
    known = set(common.known_sigs(PID))
    if os.environ.get('VP_C01_AVOID') == 'all':         # development aid: look behind every finding listed above
        known |= set(SIG_CLASS)
    gen.AVOID.clear()
    gen.AVOID.update(SIG_CLASS[s] for s in known if s in SIG_CLASS)


def classify(case):
    feats = gen.features(case)
    classes = ['kind:' + case['kind']] + sorted(feats)
    nontrivial = bool(feats & gen.NONTRIVIAL)
    return nontrivial, classes


def pred(case, stats):
    kind = case['kind']
    ctx = chk.Ctx(stats)
    if kind == 'fo_ambiguous':
        return pred_ambiguous(case, stats)
    fails = chk.check_node(kind, case['p'], case.get('opts') or {}, ctx)
    nontrivial, classes = classify(case)
    if ctx.excluded:
        classes.append('partly-excluded')
    stats.case(case, nontrivial=nontrivial, classes=classes)
    clause = CLAUSE_OF[kind]
    for sig, observed, expected in fails:
        stats.fail(clause, sig, case, observed=observed, expected=expected)


def pred_ambiguous(case, stats):
    """Large Forward Open with an NCP <= 0xFFFF: documented as indistinguishable from Small; only 'does not raise'."""
    from ..c01map import lib, guarded, LibError, run_machine, D, d_mr
    from .. import refcodec_full as rf
    m = case['p']
    stats.exclude('Large Forward Open with an NCP <= 0xFFFF (documented ambiguous): only absence of exceptions asserted')
    stats.case(case, nontrivial=True, classes=['kind:fo_ambiguous'] + sorted(gen.features(case)))
    CM = lib()['CM']
    ref = rf.enc_mr(m)
    for name, fn in (('parse', lambda: run_machine(CM.parser, ref)),
                     ('produce', lambda: CM.produce(D(d_mr(m, dict(case.get('opts') or {}, fo_style='fields')))))):
        try:
            guarded(fn)
        except LibError as e:
            stats.fail('ambiguous', 'fo_ambiguous:%s:exc:%s@%s' % (name, e.exc_type, e.where), case, observed=str(e),
                       expected='no exception')


CLAUSE_OF = {'iface': 'element', 'epath': 'element', 'status': 'element', 'typed': 'element', 'mr': 'service', 'wrapper': 'frame',
             'cpf': 'frame', 'frame': 'frame', 'fo_ambiguous': 'ambiguous'}
CLAUSES = {'element': pred, 'service': pred, 'frame': pred, 'ambiguous': pred, 'parse_only': pred}


def strategy_for(skey):
    group, parse_only, big = skey
    gen.BIG['on'] = bool(big)
    set_avoid()
    return gen.case_strategy(group, bool(parse_only))


STRATEGIES = {c: strategy_for for c in CLAUSES}


def shard(job):
    seed, idx, plan, big = job
    s = Stats()
    gen.BIG['on'] = bool(big)
    for j, (group, parse_only, n) in enumerate(plan):
        skey = [group, parse_only, big]
        clause = 'parse_only' if parse_only else {'element': 'element', 'service': 'service', 'frame': 'frame',
                                                  'ambiguous': 'ambiguous'}[group]
        common.hyp_run(s, strategy_for(skey), pred, n, common.shard_seed(seed, idx) * 16 + j, clause, PID, skey=skey)
    for reason, k in gen.AVOIDED.items():
        s.exclude(reason, k)
    gen.AVOIDED.clear()
    return s


def shard_boundary(job):
    idx, nsh = job
    s = Stats()
    for i, case in enumerate(gen.boundary_cases()):
        if i % nsh == idx:
            common.run_pred(pred, case, s, CLAUSE_OF[case['kind']])
    return s


def run(tier, seed):
    thorough = tier == 'thorough'
    stats = Stats()
    nsh = 16
    common.parallel(shard_boundary, [(i, nsh) for i in range(nsh)], stats=stats)
    stats.exhaustive['boundary-product'] = (
        'each of 8 integer types x {min,min+1,-1,0,1,max-1,max} x scalar/array as typed data, Write Tag request and Read Tag '
        'Fragmented reply; REAL/LREAL edge patterns; SSTRING/STRING lengths {0,1,2,3,254..257}; each logical segment kind x '
        'width-boundary values x plain/padded/single EPATH and inside a Read Tag request; symbolic lengths {1..4,253..255}; '
        'port {1,2,14,15,16,255,256,65535} x numeric/address links; status x 0..4 extended words')
    if thorough:
        plan = [('element', 0, 2500), ('service', 0, 2500), ('frame', 0, 2500), ('element', 1, 500), ('service', 1, 500),
                ('frame', 1, 500), ('ambiguous', 0, 200)]
        shards = 32
    else:
        plan = [('element', 0, 300), ('service', 0, 260), ('frame', 0, 220), ('element', 1, 60), ('service', 1, 60),
                ('frame', 1, 60), ('ambiguous', 0, 20)]
        shards = 16
    common.parallel(shard, [(seed, i, plan, 1 if thorough else 0) for i in range(shards)], stats=stats)
    return stats
