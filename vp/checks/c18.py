"""
C18 -- history replay delivers every logged record exactly once, in order, on time
(history/files.py: logger, parse_record, reader.open, loader.load; history/times.py: timestamp; misc.py: natural).

A case is a complete replay scenario:

  files      oldest ... newest; each a list of physical write attempts (records with a millisecond time and a
             register map, comments, blank lines, and damaged attempts), written with the real `logger`
             (`write`, `comment`; damaged lines through `_append`, as history_test.py does), then arranged on disk
             as `name`, `name.0|.1`, `name.N[.gz|.bz2|.xz]` with optionally both the plain and the compressed copy.
  settings   factor, lookahead, basis (explicit or taken from the clock), duration, default register values.
  schedule   the historical time of the first load() and a list of steps (`add` n ms / go to the `next` pending
             record's release time +- a few ms), each with its own `limit` / `upcoming`.

The module attributes `history.files.timer` and `history.times.timer` are replaced by a harness clock, so replay
time is whatever the schedule says; nothing sleeps and nothing reads the wall clock.

Oracle (record-list model, written from the statement; it never looks at what cpppo computed):

  exactly-once   the concatenation of all returned events == the intact records of the start file (newest file
                 whose first record is <= the time of the first load, else the oldest) and of all later files,
                 before the duration deadline -- each once, in order, timestamp equal to the millisecond, values
                 equal.  Damaged lines are not delivered and take nothing else with them.
  on-time        an event for record r is never returned by a load() at historical time h with r.t > h+lookahead,
                 and is returned no later than the first load() not cut short by limit/upcoming with
                 r.t <= h+lookahead.  (timestamp compares with a 1 ms epsilon: r.t == h+lookahead+1ms is a
                 don't-care, see ASSUMPTIONS.)
  values         loader.values always equals the fold of the delivered events that have left loader.future, none of
                 them later than h (nor at/after `upcoming`); at completion it equals the last value logged per
                 register, stamped with the real-time image of the record's time.
  completes      the loader ends COMPLETE (never FAILED, never stuck) and then returns nothing more; a load() that
                 consults the clock or opens files far more often than the history has lines (deterministic step
                 bound, no wall clock) is reported as not returning.

Every disagreement gets a root-cause signature computed from the *mechanism* observed through a pass-through
subclass (which file each open() selected, strict or not; whether the loader sat AWAITING on a file before its
first record; the exception that put it in FAILED), so different defects never share a signature and a known one
does not hide another.
"""
from __future__ import annotations

import bz2
import gzip
import itertools
import json
import lzma
import os
import shutil
import sys
import tempfile
import time as _time
import warnings

from hypothesis import strategies as st

from .. import common
from ..common import Stats

PID = 'C18'
LEVEL = 'exploration'
RULE = ('cases = (history of 1..13 rotated files x 1..8 records on a millisecond grid with equal and increasing '
        'timestamps inside and across files, comments/blank lines/payload-damaged/timestamp-damaged/merged lines '
        'after the first record, plain/gz/bz2/xz copies incl. plain+compressed pairs; factor, lookahead, basis, '
        'duration, defaults; time of first load before/at/inside/after the history; schedule of clock steps with '
        'per-load limit/upcoming) drawn by Hypothesis, plus two exhaustively enumerated small universes; '
        'non-trivial = the replay spans >= 2 files and at least one file was opened while its first record was '
        'still in the future (loader AWAITING across a file switch)')
ASSUMPTIONS = [
    'record times lie on a 1 ms grid and two different times in one history are >= 2 ms apart; the time of the '
    'first load, the duration deadline and `upcoming` are either exactly a record time or >= 2 ms from every '
    'first-of-file record time: cpppo.history.timestamp compares with a 1 ms epsilon in floating point, so '
    'comparisons of instants exactly 1 ms apart are decided by rounding noise (that is C17 territory)',
    'timing oracle: delivery at h+lookahead >= r.t - 1 ms is accepted (documented epsilon), delivery at '
    'h+lookahead <= r.t - 2 ms is early, non-delivery at h+lookahead >= r.t by an untruncated load() is late',
    'every file is non-empty and its first record (the initial frame) is intact; damaged lines occur only after it',
    'every record carries >= 1 register plus the harness tag register 39999 = running record number (so each '
    'delivered event is attributed to exactly one logged record); values are ints 0..65535',
    'the history is static during replay (no rotation while reading); timestamps never decrease',
    'the harness clock never goes backwards; it does not advance inside a load() call',
    'step bound: one load() may consult the clock at most 40*(records+files)+200 times and call open() at most '
    '3*files+8 times; beyond that it is reported as looping (the legitimate maximum is about 2 per line)',
    'trusted base: CPython gzip/bz2/lzma writers, time.gmtime rendering of damaged lines, Hypothesis',
]
MIN_EVALUATIONS = {'quick': 3000, 'thorough': 100000}

TAG = '39999'
REGS = ['40001', '40002', '1', '10001']
BADJS = {'garbage': '{"40001": 12, <<<', 'list': '[1, 2]', 'nonint': '{"40001": "x"}', 'null': 'null',
         'note': '"restart"', 'empty': ''}
BADTS = ['garbage', 'month13', 'notabs', 'nul', 'nonascii']
NAME = 'hist.txt'

warnings.filterwarnings('ignore', message='.*localize method is no longer necessary.*')
warnings.filterwarnings('ignore', message='.*normalize method is no longer necessary.*')


def _impl():
    from cpppo.history import files, times
    return files, times


# ------------------------------------------------------------------------------------------------
# the model: pure Python, no cpppo


def render_ts(t_ms):
    sec, ms = divmod(int(t_ms), 1000)
    return _time.strftime('%Y-%m-%d %H:%M:%S', _time.gmtime(sec)) + '.%03d' % ms


class Model(object):
    pass


def build_model(case):
    """Everything the oracle needs, from the case alone."""
    m = Model()
    base = int(case['base_s']) * 1000
    m.base = base
    m.files = []            # per file: dict(writes=[...], items=[...], first_t, last_t, flat, suffixes)
    m.recs = {}             # id -> dict(t, values (str keys), file, pos)
    rid = 0
    last_t = None
    nfiles = len(case['files'])
    for fi, f in enumerate(case['files']):
        writes = []         # ('write', t_ms, {int reg: v}, serial) | ('comment', s) | ('raw', text)
        items = []          # outcome per physical line: (kind, t, id, line_no), kind in rec | lostjs | unparsable
        pend_text, pend_kind, pend_t, pend_ids = '', None, None, []

        def emit(text, kind, t, ids, plain_write=None):
            line_no = len(writes)           # 0-based physical line, as parse_record counts them
            if kind in ('comment', 'blank'):
                writes.append(plain_write if plain_write else ('raw', text))
                return
            if kind == 'rec':
                writes.append(plain_write)
                items.append(('rec', t, ids[0], line_no))
                return
            if any(ord(ch) > 127 for ch in text):
                kind = 'unparsable'         # parse_record decodes the whole line as ASCII before splitting it
            writes.append(('raw', text))
            items.append((kind, t if kind == 'lostjs' else None, None, line_no))

        for ln in f['lines']:
            k = ln['k']
            if k == 'comment':
                text, nl, kind, t, my_id, pw = '# ' + ln['s'] + '\n', True, 'comment', None, None, ('comment', ln['s'])
            elif k == 'blank':
                text, nl, kind, t, my_id, pw = '\n', True, 'blank', None, None, None
            elif k == 'rec':
                t = base + int(ln['t'])
                if last_t is not None and (t < last_t or t - last_t == 1):
                    raise common.HarnessError('case violates the time-grid precondition at t=%d' % ln['t'])
                last_t = t
                values = dict((str(r), int(v)) for r, v in ln['v'].items())
                values[TAG] = rid
                my_id = rid
                rid += 1
                ts, js = render_ts(t), json.dumps(values)
                fate = ln.get('fate') or {'f': 'ok'}
                ff = fate['f']
                m.recs[my_id] = {'t': t, 'values': values, 'file': fi, 'fate': ff, 'lost': ff != 'ok'}
                pw = None
                if ff == 'ok':
                    text, nl, kind = ts + '\tnull\t' + js + '\n', True, 'rec'
                    pw = ('write', t, dict((int(r), v) for r, v in values.items()), my_id if case.get('serial') else None)
                elif ff == 'badjs':
                    text, nl, kind = ts + '\tnull\t' + BADJS[fate['how']] + '\n', True, 'lostjs'
                elif ff == 'cutjs':
                    text, nl, kind = ts + '\tnull\t' + js[:fate['cut'] % len(js)], bool(fate.get('nl')), 'lostjs'
                    if nl:
                        text += '\n'
                elif ff == 'cutts':
                    text, nl, kind = ts[:1 + fate['cut'] % (len(ts) - 1)], bool(fate.get('nl')), 'unparsable'
                    if nl:
                        text += '\n'
                elif ff == 'badts':
                    how = fate['how']
                    bad = {'garbage': '????-??-?? ??:??:??.???', 'month13': ts[:5] + '13' + ts[7:],
                           'nul': '\x00' * len(ts), 'nonascii': ts[:5] + '\xff\xfe' + ts[7:]}.get(how)
                    if how == 'notabs':
                        text = ts + ' null ' + js + '\n'
                    else:
                        text = bad + '\tnull\t' + js + '\n'
                    nl, kind = True, 'unparsable'
                else:
                    raise common.HarnessError('unknown fate %r' % (ff,))
            else:
                raise common.HarnessError('unknown line kind %r' % (k,))

            if pend_kind is not None:
                # this physical line began with an attempt that was cut without a newline: it swallows us
                pend_text += text
                if my_id is not None:
                    pend_ids.append(my_id)
                    m.recs[my_id]['lost'] = True
                    m.recs[my_id]['fate'] = 'swallowed'
                if nl:
                    emit(pend_text, pend_kind, pend_t, pend_ids)
                    pend_text, pend_kind, pend_t, pend_ids = '', None, None, []
                continue
            if nl:
                emit(text, kind, t, [my_id], pw)
            else:
                pend_text, pend_kind, pend_t, pend_ids = text, kind, t, [my_id]
        if pend_kind is not None:
            emit(pend_text, pend_kind, pend_t, pend_ids)        # file ends without a newline
        if not items or items[0][0] != 'rec':
            raise common.HarnessError('case violates the precondition: first record of file %d is not intact' % fi)
        stamps = [it[1] for it in items if it[1] is not None]
        intact = [it[1] for it in items if it[0] == 'rec']
        age = nfiles - 1 - fi
        suffix = '' if age == 0 else '.%d' % (age - 1 + (0 if case.get('numbering', 'zero') == 'zero' else 1))
        store = f.get('store', 'plain') if age else 'plain'
        m.files.append({'writes': writes, 'items': items, 'first_t': items[0][1], 'last_t': stamps[-1],
                        'flat': len(set(stamps)) == 1, 'intact_flat': len(set(intact)) == 1, 'suffix': suffix, 'store': store,
                        'ids': [it[2] for it in items if it[0] == 'rec']})

    s = case['settings']
    m.factor = float(s.get('factor', 1))
    m.la = int(s.get('lookahead_ms') or 0)
    m.lookahead = None if s.get('lookahead_ms') is None else s['lookahead_ms'] / 1000.0
    m.h0 = base + int(case['h0'])
    for f in m.files:
        if abs(f['first_t'] - m.h0) == 1:
            raise common.HarnessError('case violates the precondition: first load 1 ms from a first-of-file record')
    # wall clock: first load happens at wall0; basis explicit (wall0 + boff) or taken from the clock `lead` s earlier
    m.wall0 = 1700000000.25
    if s.get('basis', 'explicit') == 'explicit':
        m.basis_arg = m.wall0 + float(s.get('boff', 0))
        m.basis = m.basis_arg
        m.construct_at = m.wall0 - float(s.get('lead', 0))
    else:
        m.basis_arg = None
        m.basis = m.wall0 - float(s.get('lead', 0))
        m.construct_at = m.basis
    hist_ms = m.h0 - (m.wall0 - m.basis) * m.factor * 1000.0
    if hist_ms != int(hist_ms):
        raise common.HarnessError('settings do not give a millisecond historical start')
    m.hist_ms = int(hist_ms)
    m.deadline = None
    if s.get('deadline') is not None:
        m.deadline = base + int(s['deadline'])
        if m.deadline <= m.hist_ms or any(abs(r['t'] - m.deadline) == 1 for r in m.recs.values()):
            raise common.HarnessError('case violates the deadline precondition')
    m.defaults = dict((str(r), int(v)) for r, v in (s.get('defaults') or {}).items())

    # expected deliveries
    start = 0
    for fi, f in enumerate(m.files):
        if f['first_t'] <= m.h0:
            start = fi
    m.start = start
    m.expected = []
    m.first_unparsable = None           # position in expected[] before which the first unparsable line sits
    for fi in range(start, len(m.files)):
        for kind, t, i, _ in m.files[fi]['items']:
            if t is not None and m.deadline is not None and t >= m.deadline:
                break                   # the loader stops reading at the first stamp at/after the deadline
            if kind == 'rec':
                m.expected.append(i)
            elif kind == 'unparsable' and m.first_unparsable is None:
                m.first_unparsable = len(m.expected)
        else:
            continue
        break
    m.exp_set = set(m.expected)
    m.exp_times = [m.recs[i]['t'] for i in m.expected]
    return m


def next_release(m, h):
    """historical time at which the next still-future expected record becomes due, or None."""
    for t in m.exp_times:
        if t > h + m.la:
            return t - m.la
    return None


# ------------------------------------------------------------------------------------------------
# execution against cpppo


class StepBound(BaseException):
    """load() consulted the clock / opened files far more often than the history has lines: it is looping.  Derives
    from BaseException so that loader.load()'s own `except Exception` cannot swallow it."""


class Clock(object):
    def __init__(self):
        self.now = 0.0
        self.calls = 0
        self.bound = None

    def __call__(self):
        self.calls += 1
        if self.bound is not None and self.calls > self.bound:
            raise StepBound('clock consulted %d times in one load()' % self.calls)
        return self.now


class _TracebackShim(object):
    """stands in for history.files' `traceback` module while a case runs: loader.load() swallows every exception
    into state FAILED and only ever passes it to traceback.format_exc(); we note what it was."""

    def __init__(self, real):
        self._real = real
        self.seen = []

    def format_exc(self, *a, **kw):
        et, ev, tb = sys.exc_info()
        frames = []
        while tb is not None:
            co = tb.tb_frame.f_code
            frames.append((os.path.basename(co.co_filename), co.co_name))
            tb = tb.tb_next
        self.seen.append({'type': getattr(et, '__name__', str(et)), 'msg': str(ev)[:200], 'frames': frames})
        return self._real.format_exc(*a, **kw)

    def __getattr__(self, name):
        return getattr(self._real, name)


_PROBE = {}


def probe_class(files):
    """loader subclass whose open() passes every item through unchanged and notes the call and the chosen file."""
    cls = _PROBE.get(id(files))
    if cls is None:
        class Probe(files.loader):
            vp_load = -1
            vp_opens_this_load = 0
            vp_open_bound = 1 << 30
            vp_opens = vp_releases = None

            # `_strict` is a plain attribute of loader; here a pass-through property that notes each True -> False
            @property
            def _strict(self):
                return self.__dict__.get('vp_strict', False)

            @_strict.setter
            def _strict(self, value):
                old = self.__dict__.get('vp_strict', False)
                self.__dict__['vp_strict'] = value
                if old and not value and self.vp_releases is not None:
                    self.vp_releases.append({'seq': len(self.vp_opens) + len(self.vp_releases), 'load': self.vp_load,
                                             'suffix': self._f, 'n': self._n})

            def open(self, target=None, after=True, lookahead=None, strict=False, encoding=None, **kw):
                rec = {'seq': len(self.vp_opens) + len(self.vp_releases), 'load': self.vp_load, 'after': bool(after),
                       'strict': bool(strict), 'suffix': None,
                       'target_ms': None if target is None else int(round(files.timestamp(target).value * 1000))}
                self.vp_opens.append(rec)
                self.vp_opens_this_load += 1
                if self.vp_opens_this_load > self.vp_open_bound:
                    raise StepBound('%d open() calls in one load()' % self.vp_opens_this_load)
                for item in files.loader.open(self, target=target, after=after, lookahead=lookahead,
                                              strict=strict, encoding=encoding, **kw):
                    if rec['suffix'] is None:
                        rec['suffix'] = item[0][0]
                    yield item
        _PROBE.clear()
        _PROBE[id(files)] = cls = Probe
    return cls


def write_history(files, m, scratch):
    path = os.path.join(scratch, NAME)
    for f in m.files:
        plain = path + f['suffix']
        # the file is written in `sessions` consecutive logger sessions (a logger re-opened on an existing file appends to it)
        nses = max(1, min(getattr(m, 'sessions', 1), len(f['writes'])))
        per = -(-len(f['writes']) // nses)
        enc = getattr(m, 'enc', None)
        for si in range(nses):
            with files.logger(plain) as l:
                for w in f['writes'][si * per:(si + 1) * per]:
                    if w[0] == 'write':
                        l.write(w[2], now=w[1] / 1000.0, serial=w[3], **({'encoding': enc} if enc else {}))
                    elif w[0] == 'comment':
                        l.comment(w[1], **({'encoding': enc} if enc else {}))
                    else:
                        l._append(w[1], encoding='latin-1')
                if l.error:
                    raise common.HarnessError('logger could not write %s' % plain)
        store = f['store']
        if store != 'plain':
            ext = store.split('+')[-1]
            with open(plain, 'rb') as rd:
                body = rd.read()
            opener = {'gz': gzip.open, 'bz2': bz2.open, 'xz': lzma.open}[ext]
            with opener(plain + '.' + ext, 'wb') as fd:
                fd.write(body)
            if '+' not in store:
                os.unlink(plain)
    return path


def execute(case, m):
    files, times = _impl()
    Probe = probe_class(files)
    clock = Clock()
    shim = _TracebackShim(files.traceback)
    scratch = tempfile.mkdtemp(prefix='vp-c18-')
    saved = (files.timer, times.timer, files.traceback)
    ld = None
    tr = {'loads': [], 'delivered': [], 'opens': [], 'releases': [], 'exc': shim.seen, 'awaited': set(),
          'after_complete': 0}
    try:
        m.sessions = case['settings'].get('sessions', 1)
        m.enc = case['settings'].get('enc')
        path = write_history(files, m, scratch)
        files.timer = times.timer = clock
        files.traceback = shim
        clock.now = m.construct_at
        kw = {}
        if m.deadline is not None:
            kw['duration'] = (m.deadline - m.hist_ms) / 1000.0
        if m.defaults:
            kw['values'] = dict((int(r), v) for r, v in m.defaults.items())
        ld = Probe(path, historical=m.hist_ms / 1000.0, basis=m.basis_arg, factor=m.factor,
                   lookahead=m.lookahead, **kw)
        ld.vp_opens, ld.vp_releases = tr['opens'], tr['releases']
        ld.vp_open_bound = 3 * len(m.files) + 8
        step_bound = 40 * (len(m.recs) + len(m.files)) + 200
        tr['basis'] = ld.basis.value
        suffix_file = {}
        for fi, f in enumerate(m.files):
            suffix_file[f['suffix']] = fi
            if f['store'] != 'plain':
                suffix_file[f['suffix'] + '.' + f['store'].split('+')[-1]] = fi
        seen_files = set()

        def one_load(h, limit, up_idx):
            ld.vp_load = len(tr['loads'])
            clock.now = m.basis + (h - m.hist_ms) / 1000.0 / m.factor
            up_ms, up = None, None
            if up_idx is not None and m.expected:
                up_ms = m.exp_times[up_idx % len(m.expected)]
                up = files.timestamp(up_ms / 1000.0)
            kwl = {}
            if limit is not None:
                kwl['limit'] = limit
            if up is not None:
                kwl['upcoming'] = up
            if m.enc:
                kwl['encoding'] = m.enc
            ld.vp_opens_this_load = 0
            clock.calls, clock.bound = 0, step_bound
            try:
                cur, events = ld.load(**kwl)
            except StepBound as exc:
                tr['livelock'] = {'load': ld.vp_load, 'h': h, 'why': str(exc),
                                  'opens_in_load': [o['suffix'] for o in tr['opens'] if o['load'] == ld.vp_load][:8]}
                raise
            finally:
                clock.bound = None
            evs = []
            for e in events:
                v = e['timestamp'].value * 1000.0
                d = {'load': ld.vp_load, 't': int(round(v)), 'off_grid': abs(v - round(v)) > 1e-3,
                     'values': common.jsonable(e['values']), 'command': e.get('command')}
                tag = d['values'].get(TAG) if isinstance(d['values'], dict) else None
                d['id'] = tag if isinstance(tag, int) and tag in m.recs else None
                if d['id'] is not None:
                    seen_files.add(m.recs[d['id']]['file'])
                evs.append(d)
            tr['delivered'].extend(evs)
            state = ld.statename.get(ld.state, str(ld.state))
            cur_file = suffix_file.get(ld._f)
            if state == 'AWAITING' and cur_file is not None and cur_file not in seen_files:
                tr['awaited'].add(cur_file)
            rec = {'h': h, 'limit': limit, 'upcoming_ms': up_ms, 'n': len(evs),
                   'truncated': bool((limit is not None and len(evs) >= limit) or (up is not None and cur is up)),
                   'state': state, 'future': len(ld.future),
                   'values': dict((str(r), [tv[0], tv[1]]) for r, tv in ld.values.items())}
            tr['loads'].append(rec)
            return rec

        h = m.h0
        end_t = max(r['t'] for r in m.recs.values())
        try:
            h = drive(case, m, tr, ld, one_load, h, end_t)
        except StepBound:
            tr['final_state'] = 'LIVELOCK'
            tr['completed_at'] = len(tr['loads'])
            for o in tr['opens'] + tr['releases']:
                o['file'] = suffix_file.get(o['suffix'])
            return tr
        tr['final_state'] = ld.statename.get(ld.state, str(ld.state))
        tr['completed_at'] = len(tr['loads'])
        if tr['final_state'] == 'COMPLETE':
            before = len(tr['delivered'])
            one_load(h + 1000, None, None)
            tr['after_complete'] = len(tr['delivered']) - before
            del tr['delivered'][before:]
            tr['loads'].pop()
        for o in tr['opens'] + tr['releases']:
            o['file'] = suffix_file.get(o['suffix'])
        return tr
    finally:
        files.timer, times.timer, files.traceback = saved
        try:
            if ld is not None and getattr(ld, '_i', None) is not None:
                ld._i.close()
        except Exception:
            pass
        shutil.rmtree(scratch, ignore_errors=True)


def drive(case, m, tr, ld, one_load, h, end_t):
    """the schedule, then a deterministic tail until the loader evaluates False; returns the last historical time."""
    for si, step in enumerate(case['schedule'] or [{'op': 'add', 'ms': 0}]):
        if si:
            if step['op'] == 'add':
                h += int(step['ms'])
            else:
                nr = next_release(m, h)
                h = h + 1000 if nr is None else max(h, nr + int(step.get('off', 0)))
        one_load(h, step.get('limit'), step.get('upcoming'))
        if not ld:
            break
    # tail: walk the rest of the history record by record (exact release instants and 3 s jumps alternate)
    bound = 2 * (len(m.expected) + len(m.files)) + 8
    k = 0
    while ld and k < bound:
        nr = next_release(m, h)
        if nr is None:
            h = max(h, end_t) + 1000
        elif k % 2:
            h = max(h, nr) + 3000
        else:
            h = max(h, nr)
        one_load(h, None, None)
        k += 1
    for _ in range(3):
        if not ld:
            break
        h = max(h, end_t) + m.la + 10000
        one_load(h, None, None)
    return h


# ------------------------------------------------------------------------------------------------
# the oracle


def fold(defaults, delivered):
    vals = dict(defaults)
    for d in delivered:
        if isinstance(d['values'], dict):
            for r, v in d['values'].items():
                vals[str(int(r))] = int(v)
    return vals


def analyse(case, m, tr):
    """-> list of (clause, signature, observed, expected)."""
    out = []
    D = tr['delivered']
    loads = tr['loads']
    opens = tr['opens']

    def brief(d):
        return {'load': d['load'], 't': d['t'] - m.base, 'id': d['id'], 'values': d['values']}

    # ---- completion and the reason for FAILED
    final = tr['final_state']
    pos = dict((i, p) for p, i in enumerate(m.expected))
    tail_from = 1 + max([pos[d['id']] for d in D if d['id'] in pos] or [-1])
    dead_from = None            # position in expected[] from which records are lost to a dead/stuck loader
    if final == 'FAILED':
        exc = tr['exc'][-1] if tr['exc'] else None
        names = [fn for _, fn in exc['frames']] if exc else []
        if exc and 'parse_record' in names and 'open' in names:
            # reader.open handles a parse error on a file's first record itself; what escapes is a later line
            sig = 'FAILED:parse-error-after-first-record-escapes-reader.open'
            clause = 'corrupt-skipped'
            dead_from = tail_from if m.first_unparsable is None else min(tail_from, m.first_unparsable)
        elif exc:
            where = [fr for fr in exc['frames']][-1]
            sig = 'FAILED:%s@%s:%s' % (exc['type'], where[0], where[1])
            clause = 'completes'
            dead_from = tail_from
        else:
            sig, clause, dead_from = 'FAILED:no-exception-seen(IframeError/DataError)', 'completes', tail_from
        delivered_ids = set(d['id'] for d in D)
        lost = [i for i in m.expected if i not in delivered_ids]
        out.append((clause, sig,
                    {'state': 'FAILED', 'exception': exc and {'type': exc['type'], 'msg': exc['msg'],
                                                              'frames': exc['frames'][-4:]},
                     'records_lost': len(lost), 'first_lost_id': lost[0] if lost else None},
                    'damaged line skipped, every other record delivered, state COMPLETE'))
    elif final == 'LIVELOCK':
        dead_from = tail_from   # reported below, by the reason its load() kept re-opening files
    elif final != 'COMPLETE':
        out.append(('completes', 'never-completes:' + final,
                    {'state': final, 'future': loads[-1]['future'] if loads else None, 'loads': len(loads)},
                    'COMPLETE once the clock is past the last record plus lookahead'))
        dead_from = tail_from
    elif tr['after_complete']:
        out.append(('completes', 'events-after-complete', {'events': tr['after_complete']}, 'no events once COMPLETE'))

    # ---- mechanism: open() calls that did not advance to a newer file, and why the guard let them
    releases = tr['releases']
    good = [o for o in opens if o.get('file') is not None]
    bad_opens = [(x, y) for x, y in zip(good, good[1:]) if y['file'] <= x['file']]

    def why(x, y):
        if y['strict']:
            return 'strict-open-selected-non-advancing-file', None
        rel = [r for r in releases if r.get('file') == x['file'] and x['seq'] < r['seq'] < y['seq']]
        if not rel:
            return 'non-strict-open-although-strict-was-not-released', None
        fx = m.files[x['file']]
        hit = [it for it in fx['items'] if it[3] == rel[-1]['n']]
        if not hit:
            return 'strict-released-at-unknown-line', rel[-1]['n']
        it = hit[0]
        if it is fx['items'][0]:
            return ('strict-released-by-first-record-of-file-' +
                    ('after-AWAITING' if x['file'] in tr['awaited'] else 'without-AWAITING')), it[3]
        if it[0] == 'lostjs':
            return 'strict-released-by-timestamp-of-damaged-record', it[3]
        if it[0] == 'rec' and it[1] > fx['first_t']:
            return 'open-selected-non-advancing-file-after-legitimate-release', it[3]
        return 'strict-released-by-non-increasing-timestamp', it[3]

    explained_files, order_explained, livelock_explained = set(), False, False
    for x, y in bad_opens:
        reason, line_no = why(x, y)
        explained_files.add(y['file'])
        order_explained = order_explained or y['file'] < x['file']
        looping = final == 'LIVELOCK' and y['load'] == tr['livelock']['load']
        livelock_explained = livelock_explained or looping
        out.append(('completes' if looping else 'exactly-once', 'reopen:' + reason,
                    {'symptom': ('load() never returns: ' if looping else '') +
                                ('same file opened again' if y['file'] == x['file'] else 'older file opened'),
                     'after_file': x['suffix'], 'opened': y['suffix'], 'strict': y['strict'],
                     'target': None if y['target_ms'] is None else y['target_ms'] - m.base,
                     'strict_released_at_line': line_no, 'load': y['load'],
                     'opens': [{k: o.get(k) for k in ('load', 'strict', 'suffix')} for o in opens][:10]},
                    'after a file ends the next newer file is opened, each file once'))
    if final == 'LIVELOCK' and not livelock_explained:
        ll = tr['livelock']
        out.append(('completes', 'livelock:clock-polled-without-progress',
                    {'load_that_never_returned': ll['load'], 'h': ll['h'] - m.base, 'why': ll['why'],
                     'opens_in_that_load': ll['opens_in_load']},
                    'load() returns after reading at most every line once'))

    # ---- exactly once, in order, right content
    counts = {}
    for d in D:
        if d['id'] is None:
            out.append(('exactly-once', 'alien-event', brief(d), 'only logged records are delivered'))
            continue
        counts[d['id']] = counts.get(d['id'], 0) + 1
        r = m.recs[d['id']]
        if d['t'] != r['t'] or d['off_grid']:
            out.append(('exactly-once', 'content:timestamp-differs', brief(d), {'t': r['t'] - m.base}))
        if d['values'] != r['values'] or d['command'] != 'register':
            out.append(('exactly-once', 'content:values-differ', brief(d), {'values': r['values']}))
        if d['id'] not in m.exp_set and r['file'] not in explained_files:
            why_not = ('damaged-line' if r['lost'] else 'before-start-file' if r['file'] < m.start else 'past-deadline')
            out.append(('exactly-once', 'unexpected-record:' + why_not, brief(d),
                        'replay starts with file %d%s' % (m.start, '' if m.deadline is None else ', stops at the deadline')))
    firsts, seen = [], set()
    for d in D:
        if d['id'] is not None and d['id'] not in seen:
            seen.add(d['id'])
            firsts.append(d['id'])
    if any(b < a for a, b in zip(firsts, firsts[1:])) and not order_explained:
        out.append(('exactly-once', 'order:records-out-of-sequence', firsts[:40], 'ids increasing'))
    if any(b['t'] < a['t'] for a, b in zip(D, D[1:])) and not order_explained:
        out.append(('exactly-once', 'order:timestamp-decreases', [d['t'] - m.base for d in D][:40], 'non-decreasing'))

    # duplicates that no non-advancing open() explains
    dup_files = sorted(set(m.recs[i]['file'] for i, c in counts.items() if c > 1) - explained_files)
    for f in dup_files:
        ids = [i for i in m.files[f]['ids'] if counts.get(i, 0) > 1]
        out.append(('exactly-once', 'dup:without-reopen',
                    {'file': f, 'suffix': m.files[f]['suffix'], 'ids_delivered_twice_or_more': ids,
                     'counts': [counts[i] for i in ids]}, 'each record once'))

    # missing
    missing = [i for i in m.expected if i not in counts]
    missing_set = set(missing)
    attributed = set(i for i in missing if dead_from is not None and pos[i] >= dead_from)
    opened_files = set(o.get('file') for o in opens)
    for f in sorted(set(m.recs[i]['file'] for i in missing if i not in attributed)):
        ids = [i for i in m.files[f]['ids'] if i in missing_set and i not in attributed]
        if f not in opened_files:
            # which open jumped over the file?
            jump = None
            for o in opens:
                if o['after'] and (o.get('file') is None or o['file'] > f) and o['load'] >= 0:
                    prev = [p.get('file') for p in opens[:opens.index(o)] if p.get('file') is not None]
                    if prev and prev[-1] < f:
                        jump = o
                        break
            if jump is None:
                ctx = 'file-never-opened:no-open-call-passed-it'
            else:
                pred = [p.get('file') for p in opens[:opens.index(jump)] if p.get('file') is not None][-1]
                ctx = 'file-never-opened:%s-open:%s:predecessor-%s' % (
                    'strict' if jump['strict'] else 'non-strict',
                    'equal-boundary-timestamp' if jump['target_ms'] == m.files[f]['first_t'] else 'later-first-timestamp',
                    'flat' if m.files[pred]['intact_flat'] else 'has-increasing-timestamps')
            out.append(('exactly-once', 'skip:' + ctx,
                        {'file': f, 'suffix': m.files[f]['suffix'], 'ids_never_delivered': ids,
                         'opens': [{k: o.get(k) for k in ('load', 'strict', 'suffix', 'target_ms')} for o in opens][:12]},
                        'every file from the start file on is replayed'))
            continue
        first = ids[0]
        items = m.files[f]['items']
        ix = [k for k, it in enumerate(items) if it[2] == first][0]
        if ix == 0:
            ctx = 'first-record-of-file'
        elif items[ix - 1][0] != 'rec':
            ctx = 'after-damaged-line:' + items[ix - 1][0]
        elif items[ix - 1][1] == items[ix][1]:
            ctx = 'same-timestamp-as-previous-record'
        elif ix == len(items) - 1:
            ctx = 'last-record-of-file'
        else:
            ctx = 'mid-file'
        out.append(('exactly-once', 'missing:' + ctx,
                    {'file': f, 'suffix': m.files[f]['suffix'], 'ids_never_delivered': ids},
                    'every intact record delivered'))

    # ---- on time
    first_load = {}
    for d in D:
        if d['id'] is not None:
            first_load.setdefault(d['id'], d['load'])
        L = loads[d['load']]
        if d['t'] - (L['h'] + m.la) >= 2:
            out.append(('on-time', 'early-delivery',
                        {'event': brief(d), 'h': L['h'] - m.base, 'lookahead_ms': m.la},
                        'no event before h + lookahead reaches its time'))
    for li, L in enumerate(loads):
        if L['truncated']:
            continue
        due = [i for i in m.expected if m.recs[i]['t'] <= L['h'] + m.la and i not in missing_set
               and first_load.get(i, 1 << 30) > li]
        if due:
            exact = m.recs[due[0]]['t'] == L['h'] + m.la
            out.append(('on-time', 'late-delivery:' + ('exactly-at-release-instant' if exact else 'overdue'),
                        {'load': li, 'h': L['h'] - m.base, 'lookahead_ms': m.la, 'limit': L['limit'],
                         'due_ids': due[:10], 'due_t': [m.recs[i]['t'] - m.base for i in due[:10]],
                         'delivered_in_load': [first_load.get(i) for i in due[:10]], 'state': L['state']},
                        'an untruncated load() returns every record with t <= h + lookahead'))
            break

    # ---- values
    n = 0
    k_prev = 0
    for li, L in enumerate(loads):
        n += L['n']
        k = n - L['future']
        if k < k_prev or k > n:
            out.append(('values', 'values:future-queue-inconsistent', {'load': li, 'delivered': n, 'future': L['future']},
                        'future holds delivered-but-unabsorbed events only'))
            break
        want = fold(m.defaults, D[:k])
        got = dict((r, tv[1]) for r, tv in L['values'].items())
        if got != want:
            out.append(('values', 'values:differ-from-absorbed-events',
                        {'load': li, 'values': got, 'absorbed': k, 'delivered': n}, want))
            break
        newly = D[k_prev:k]
        early = [d for d in newly if d['t'] - L['h'] >= 2]
        if early:
            out.append(('values', 'values:absorbed-before-its-time',
                        {'load': li, 'h': L['h'] - m.base, 'event': brief(early[0])},
                        'a value is absorbed only when its time <= h'))
            break
        if L['upcoming_ms'] is not None:
            late = [d for d in newly if d['t'] >= L['upcoming_ms']]
            if late:
                out.append(('values', 'values:absorbed-at-or-after-upcoming',
                            {'load': li, 'upcoming': L['upcoming_ms'] - m.base, 'event': brief(late[0])},
                            'events at/after `upcoming` stay in future'))
                break
        k_prev = k
    if final == 'COMPLETE' and loads and not any(o[0] == 'exactly-once' for o in out):
        L = loads[-1]
        want = fold(m.defaults, [{'values': m.recs[i]['values']} for i in m.expected])
        got = dict((r, tv[1]) for r, tv in L['values'].items())
        if L['future'] or got != want:
            out.append(('values', 'values:final-map-differs', {'values': got, 'future': L['future']}, want))
        else:
            stamp = dict((r, 0.0) for r in m.defaults)
            for i in m.expected:
                for r in m.recs[i]['values']:
                    stamp[r] = tr['basis'] + (m.recs[i]['t'] - m.hist_ms) / 1000.0 / m.factor
            bad = [r for r in sorted(stamp) if abs(L['values'][r][0] - stamp[r]) > 2e-4]
            if bad:
                out.append(('values', 'values:realtime-stamp-differs',
                            {'register': bad[0], 'stamp': L['values'][bad[0]][0]}, stamp[bad[0]]))
    # one report per signature and case
    uniq, seen_sig = [], set()
    for o in out:
        if o[1] not in seen_sig:
            seen_sig.add(o[1])
            uniq.append(o)
    return uniq


def classify(case, m, tr):
    cl = []
    nf = len(m.files)
    cl.append('files:%s' % ('1' if nf == 1 else '2-6' if nf <= 6 else '10+'))
    span = len(m.files) - m.start
    cl.append('replayed_files:%s' % ('1' if span == 1 else '2+'))
    stores = set(f['store'] for f in m.files)
    for s in sorted(stores):
        cl.append('store:' + s)
    if any('+' in s for s in stores):
        cl.append('duplicate_plain_and_compressed_pair')
    if any(f['flat'] and len(f['items']) > 1 for f in m.files):
        cl.append('file:flat_multi_record')
    if any(len(f['items']) == 1 for f in m.files):
        cl.append('file:single_record')
    if any(a['last_t'] == b['first_t'] for a, b in zip(m.files, m.files[1:])):
        cl.append('equal_timestamp_across_file_boundary')
    if any(a[1] == b[1] and a[1] is not None for f in m.files for a, b in zip(f['items'], f['items'][1:])):
        cl.append('equal_timestamp_inside_file')
    fates = set(r['fate'] for r in m.recs.values())
    for ft in sorted(fates - {'ok'}):
        cl.append('line:' + ft)
    if any(w[0] == 'comment' or (w[0] == 'raw' and w[1] == '\n') for f in m.files for w in f['writes']):
        cl.append('line:comment_or_blank')
    if case['settings'].get('sessions', 1) > 1:
        cl.append('written_in_several_logger_sessions')
    if case['settings'].get('enc'):
        cl.append('encoding:' + case['settings']['enc'] + (':non_ascii_head_comment' if any(
            f['writes'] and f['writes'][0][0] == 'comment' and any(ord(c) > 127 for c in f['writes'][0][1]) for f in m.files) else ''))
    if m.first_unparsable is not None:
        cl.append('unparsable_line_in_replayed_range')
    h0 = m.h0
    first, last = m.files[0]['first_t'], max(r['t'] for r in m.recs.values())
    cl.append('start:' + ('before_all' if h0 < first else 'after_all' if h0 > last else
                          'at_first_of_file' if any(h0 == f['first_t'] for f in m.files) else 'inside'))
    cl.append('factor:%g' % m.factor)
    cl.append('lookahead:%s' % ('none' if m.lookahead is None else '%g' % m.lookahead))
    if m.deadline is not None:
        cl.append('duration')
    if m.defaults:
        cl.append('defaults')
    if any(L['limit'] is not None for L in tr['loads']):
        cl.append('limit')
    if any(L['truncated'] and L['limit'] is not None for L in tr['loads']):
        cl.append('limit_truncated_a_load')
    if any(L['upcoming_ms'] is not None for L in tr['loads']):
        cl.append('upcoming')
    if any(L['state'] == 'AWAITING' for L in tr['loads']):
        cl.append('awaiting')
    if any(L['future'] for L in tr['loads']):
        cl.append('lookahead_events_pending_in_future')
    if any(m.recs[i]['t'] == L['h'] + m.la for L in tr['loads'] for i in m.expected):
        cl.append('load_exactly_at_release_instant')
    switch_awaited = bool(set(f for f in tr['awaited'] if f > m.start))
    if switch_awaited:
        cl.append('awaiting_across_file_switch')
    if m.start in tr['awaited']:
        cl.append('awaiting_on_start_file')
    if any(f in tr['awaited'] and m.files[f]['flat'] for f in range(nf)):
        cl.append('awaiting_on_flat_file')
    cl.append('final:' + tr['final_state'])
    nontrivial = span >= 2 and switch_awaited
    return cl, nontrivial


def pred_replay(case, stats):
    m = build_model(case)
    try:
        tr = execute(case, m)
    except BaseException:
        stats.case(case, nontrivial=False, classes=['escaped_exception'])
        raise
    classes, nontrivial = classify(case, m, tr)
    stats.case(case, nontrivial=nontrivial, classes=classes)
    for what in case.get('excluded', ()):
        stats.exclude(what)
    for clause, sig, observed, expected in analyse(case, m, tr):
        stats.fail(clause, sig, case, observed=observed, expected=expected)


CLAUSES = dict((c, pred_replay) for c in ('replay', 'exactly-once', 'on-time', 'values', 'completes', 'corrupt-skipped'))

# ------------------------------------------------------------------------------------------------
# generators

BOUNDARY_GAPS = [1000, 0, 2, 3, 500, 5000, 60000]
INNER_GAPS = [1000, 0, 2, 3, 7, 100, 999, 2500, 10000]
ADD_MS = [1000, 0, 1, 2, 3, 10, 499, 500, 5000, 60000]
NEXT_OFF = [0, 0, 0, -1, -2, 1, 2]
BASES = [1400000000, 1709164795, 1000000000, 951782399]


@st.composite
def values_maps(draw):
    regs = draw(st.lists(st.sampled_from(REGS), min_size=1, max_size=3, unique=True))
    return dict((r, draw(st.integers(0, 65535))) for r in regs)


@st.composite
def replay_cases(draw):
    many = draw(st.integers(0, 7)) == 7
    nfiles = draw(st.integers(10, 13)) if many else draw(st.integers(1, 6))
    deco = draw(st.sampled_from(['none', 'none', 'comments', 'payload', 'payload', 'all']))
    files = []
    t = 0
    times, firsts = [], []
    # a non-default text encoding (comments may then hold non-ASCII text; each file may be headed by one, as historize.py writes them)
    enc = draw(st.sampled_from([None, None, 'utf-8'])) if deco in ('none', 'comments') else None
    sessions = draw(st.sampled_from([1, 1, 2, 3]))
    for fi in range(nfiles):
        nrec = draw(st.integers(1, 2 if many else 8))
        flat = draw(st.integers(0, 2)) == 2
        lines = []
        for ri in range(nrec):
            if ri == 0:
                gap = 0 if fi == 0 else draw(st.sampled_from(BOUNDARY_GAPS))
            else:
                gap = 0 if flat else draw(st.sampled_from(INNER_GAPS))
            t += gap
            if enc and ri == 0 and draw(st.booleans()):
                lines.append({'k': 'comment', 's': draw(st.sampled_from(['Started recording', 'Aufzeichnung l\u00e4uft \u2014 \u00fc', 'd\u00e9marr\u00e9']))})
            if deco != 'none' and draw(st.integers(0, 9)) == 0:
                if draw(st.booleans()):
                    lines.append({'k': 'comment', 's': draw(st.sampled_from(['rotated', 'note: 2014-04-01 00:00:00.000', '']))})
                else:
                    lines.append({'k': 'blank'})
            line = {'k': 'rec', 't': t, 'v': draw(values_maps())}
            if ri > 0 and deco in ('payload', 'all'):
                r = draw(st.integers(0, 15))
                if r == 0:
                    line['fate'] = {'f': 'badjs', 'how': draw(st.sampled_from(sorted(BADJS)))}
                elif r == 1:
                    line['fate'] = {'f': 'cutjs', 'cut': draw(st.integers(0, 40)), 'nl': draw(st.booleans())}
                elif r == 2 and deco == 'all':
                    line['fate'] = {'f': 'badts', 'how': draw(st.sampled_from(BADTS))}
                elif r == 3 and deco == 'all':
                    line['fate'] = {'f': 'cutts', 'cut': draw(st.integers(0, 30)), 'nl': draw(st.booleans())}
            lines.append(line)
            times.append(t)
            if ri == 0:
                firsts.append(t)
        age = nfiles - 1 - fi
        store = 'plain'
        if age:
            store = draw(st.sampled_from(['plain', 'plain', 'gz', 'bz2', 'plain+gz', 'plain+bz2', 'gz', 'xz', 'plain+xz']
                                         if not many else ['plain', 'gz', 'bz2', 'plain+gz']))
        files.append({'lines': lines, 'store': store})
    # time of the first load
    kind = draw(st.sampled_from(['at', 'before', 'inside', 'after', 'at_first']))
    if kind == 'before':
        h0 = times[0] - draw(st.sampled_from([1000, 2, 100000]))
    elif kind == 'after':
        h0 = times[-1] + draw(st.sampled_from([1000, 2, 5000]))
    elif kind == 'at_first':
        h0 = draw(st.sampled_from(firsts))
    elif kind == 'at':
        h0 = draw(st.sampled_from(times))
    else:
        h0 = draw(st.sampled_from(times)) + draw(st.sampled_from([500, 2, 3, 1500]))
    excluded = []
    while any(abs(f - h0) == 1 for f in firsts):
        h0 += 1
        excluded.append('first load exactly 1 ms from a first-of-file record (moved by 1 ms)')
    factor = draw(st.sampled_from([1, 3, 0.25, 100]))
    settings = {'factor': factor, 'lookahead_ms': draw(st.sampled_from([None, None, 500, 5000, 0])),
                'basis': draw(st.sampled_from(['explicit', 'explicit', 'clock']))}
    if settings['basis'] == 'explicit':
        settings['boff'] = draw(st.sampled_from([0, 0, 0.5, -0.5]))
    settings['lead'] = draw(st.sampled_from([0, 0, 0.5, 2.0]))
    if enc:
        settings['enc'] = enc
    if sessions > 1:
        settings['sessions'] = sessions
    if draw(st.integers(0, 5)) == 0:
        dl = draw(st.sampled_from(times)) + draw(st.sampled_from([0, 500]))
        hist = h0 - ((-settings.get('boff', 0)) if settings['basis'] == 'explicit' else settings['lead']) * factor * 1000
        if dl > hist and not any(abs(x - dl) == 1 for x in times):
            settings['deadline'] = dl
        else:
            excluded.append('duration deadline not after the start, or exactly 1 ms from a record (dropped)')
    if draw(st.integers(0, 5)) == 0:
        settings['defaults'] = draw(values_maps())
    nsteps = draw(st.integers(0, 10))
    schedule = []
    for si in range(nsteps):
        if si == 0:
            step = {'op': 'add', 'ms': 0}
        elif draw(st.booleans()):
            step = {'op': 'next', 'off': draw(st.sampled_from(NEXT_OFF))}
        else:
            step = {'op': 'add', 'ms': draw(st.sampled_from(ADD_MS))}
        lim = draw(st.sampled_from([None, None, None, None, None, 1, 3]))
        if lim is not None:
            step['limit'] = lim
        if draw(st.integers(0, 9)) == 0:
            step['upcoming'] = draw(st.integers(0, 40))
        schedule.append(step)
    case = {'base_s': draw(st.sampled_from(BASES)), 'files': files,
            'numbering': draw(st.sampled_from(['zero', 'one'])), 'serial': draw(st.booleans()),
            'settings': settings, 'h0': h0, 'schedule': schedule}
    if excluded:
        case['excluded'] = excluded
    return case


# ---- enumerated universes (deterministic; no seed)


def small_histories():
    """all histories of 1..3 files x 1..2 records with every gap in {0, 1000 ms}."""
    for nfiles in (1, 2, 3):
        for shape in itertools.product((1, 2), repeat=nfiles):
            nrec = sum(shape)
            for gaps in itertools.product((0, 1000), repeat=nrec - 1):
                files, t, g, val = [], 0, iter(gaps), 0
                for n in shape:
                    lines = []
                    for _ in range(n):
                        if files or lines:
                            t += next(g)
                        val += 1
                        lines.append({'k': 'rec', 't': t, 'v': {'40001': val}})
                    files.append({'lines': lines, 'store': 'plain'})
                yield files


def universe_switch():
    for files in small_histories():
        first, last = files[0]['lines'][0]['t'], files[-1]['lines'][-1]['t']
        starts = sorted(set([first - 1000, first, last + 1000] + [f['lines'][0]['t'] for f in files]))
        for h0 in starts:
            for la in (None, 500):
                for sched in ('walk', 'jump', 'limit1'):
                    for store in ('plain', 'plain+gz'):
                        if store != 'plain' and len(files) == 1:
                            continue
                        fs = [dict(f, store=store) for f in files]
                        if sched == 'walk':
                            schedule = []
                        elif sched == 'jump':
                            schedule = [{'op': 'add', 'ms': 0}, {'op': 'add', 'ms': 60000}]
                        else:
                            schedule = [{'op': 'add', 'ms': 0, 'limit': 1}] + [{'op': 'next', 'off': 0, 'limit': 1}] * 3
                        yield {'base_s': BASES[0], 'files': fs, 'numbering': 'zero', 'serial': False,
                               'settings': {'factor': 1, 'lookahead_ms': la, 'basis': 'explicit', 'boff': 0, 'lead': 0},
                               'h0': h0, 'schedule': schedule}


def universe_damage():
    fates = ([{'f': 'badjs', 'how': h} for h in sorted(BADJS)] +
             [{'f': 'cutjs', 'cut': c, 'nl': nl} for c in (0, 5, 14) for nl in (True, False)] +
             [{'f': 'badts', 'how': h} for h in BADTS] +
             [{'f': 'cutts', 'cut': c, 'nl': nl} for c in (0, 3, 9, 18) for nl in (True, False)] +
             ['comment', 'blank'])
    for shape in ((2,), (3,), (4,), (2, 2), (3, 1), (1, 3)):
        total = sum(shape)
        for victim in range(total):
            for fate in fates:
                files, idx, t, ok = [], 0, 0, True
                for n in shape:
                    lines = []
                    for ri in range(n):
                        if idx:
                            t += 1000
                        line = {'k': 'rec', 't': t, 'v': {'40001': idx + 1}}
                        if idx == victim:
                            if isinstance(fate, dict):
                                if ri == 0:
                                    ok = False
                                line['fate'] = fate
                            else:
                                lines.append({'k': 'comment', 's': 'x'} if fate == 'comment' else {'k': 'blank'})
                        lines.append(line)
                        idx += 1
                    files.append({'lines': lines, 'store': 'plain'})
                if not ok:
                    continue
                for sched in ('walk', 'jump'):
                    schedule = [] if sched == 'walk' else [{'op': 'add', 'ms': 0}, {'op': 'add', 'ms': 60000}]
                    yield {'base_s': BASES[0], 'files': files, 'numbering': 'one', 'serial': False,
                           'settings': {'factor': 1, 'lookahead_ms': None, 'basis': 'explicit', 'boff': 0, 'lead': 0},
                           'h0': 0 if sched == 'walk' else 500, 'schedule': schedule}


UNIVERSES = {'file-switch': universe_switch, 'one-damaged-line': universe_damage}


def shard_universe(job):
    name, idx, nsh = job
    s = Stats()
    for i, case in enumerate(UNIVERSES[name]()):
        if i % nsh == idx:
            common.run_pred(pred_replay, case, s, 'replay')
    return s


def shard_random(job):
    seed, shard, n = job
    import hypothesis
    from hypothesis import given
    s = Stats()
    sseed = common.shard_seed(seed, shard)

    @hypothesis.seed(sseed)
    @common.hyp_settings(n)
    @given(replay_cases())
    def explore(case):
        common.run_pred(pred_replay, case, s, 'replay')

    explore()
    for sig in s.fails:
        s.notes.append('found\t%s\t%d' % (sig, sseed))
    return s


def shard_shrink(job):
    sig, sseed, n, budget = job
    s = Stats()
    best = common.shrink_sig(replay_cases(), pred_replay, sig, n, sseed, 'replay', budget)
    if best is not None:
        s.fails[sig] = best
    return s


def run(tier, seed):
    thorough = tier == 'thorough'
    stats = Stats()
    nsh = 16
    for name in sorted(UNIVERSES):
        common.parallel(shard_universe, [(name, i, nsh) for i in range(nsh)], stats=stats)
    stats.exhaustive['file-switch'] = ('all histories of 1..3 files x 1..2 records with every gap in {0,1000} ms x first '
                                       'load {1 s before, at each file\'s first record, 1 s after} x lookahead {none,0.5} x '
                                       'schedule {record-by-record, one 60 s jump, limit=1} x {plain, plain+gz}')
    stats.exhaustive['one-damaged-line'] = ('histories of shapes (2),(3),(4),(2,2),(3,1),(1,3) x every non-first record x '
                                            'every damage kind (6 payload, 6 cut-payload, 5 bad-timestamp, 8 cut-timestamp, '
                                            'comment, blank) x schedule {record-by-record, one jump}')
    n = 5000 if thorough else 220
    shards = 32 if thorough else 16
    common.parallel(shard_random, [(seed, i, n) for i in range(shards)], stats=stats)
    # shrink every new signature Hypothesis met, one worker per signature, from the lowest shard seed that met it
    found = {}
    for note in list(stats.notes):
        if note.startswith('found\t'):
            _, sig, sseed = note.split('\t')
            found[sig] = min(int(sseed), found.get(sig, 1 << 62))
            stats.notes.remove(note)
    known = common.known_sigs(PID)
    budget = float(os.environ.get('VP_SHRINK_S', '90' if thorough else '25'))
    jobs = [(sig, sseed, n, budget) for sig, sseed in sorted(found.items()) if sig not in known]
    if jobs:
        common.parallel(shard_shrink, jobs, stats=stats)
    return stats
