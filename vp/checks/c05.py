"""
C05 -- invalid requests are refused without side effects; accepted writes stay readable.

Same machine as C03 with a generator biased to boundaries (len-1, len, len+1, 65535, 2^32-1, zero counts),
unknown tags / objects / attributes, wrong-size Set Attribute Single payloads, and cross-type writes including
the widest values of the request type written into narrower / signed tags.
"""
from __future__ import annotations

from .. import common, tagcheck
from ..common import Stats

PID = 'C05'
LEVEL = 'exploration'
RULE = ('case = tag configuration + history of 1..N requests drawn with boundary indices/counts/offsets (len-1, len, len+1, '
        '0, 65535, 2^32-1), unknown tags/objects, cross-type writes over the whole request-type range, on two sessions; '
        'oracle = status table of the statement (0xFF/0x2105 range, 0xFF/0x2107 type, any failure indication for unknown '
        'targets), all tags before == after for every refused request, model state after every step, and a closing sweep '
        'reading every tag on both sessions; non-trivial = a refused request after at least one accepted write, or an '
        'accepted cross-type write (read back by the closing sweep)')
ASSUMPTIONS = [
    'for (tag type, request type) pairs other than "same type" and "type the tag cannot hold" the statement admits two '
    'behaviours: refusal with 0xFF/0x2107 and unchanged tags, or acceptance with the value readable as represented in '
    'the tag type; the judge accepts either',
    'zero element counts, byte offsets that are not element-aligned and Set Attribute Single on string attributes are not '
    'specified by the statement: any reply is accepted but no tag may change',
    'in-process driver and reference codec as for C03; a second engine runs the same kind of histories over TCP against '
    'enip.main.main() (one generated configuration per worker process)',
]
MIN_EVALUATIONS = {'quick': 300, 'thorough': 5000}


def pred(case, stats):
    tagcheck.run_history(case, stats, PID, 'history')


CLAUSES = {'history': pred, 'tcp-history': lambda case, stats: pred_tcp_replay(case, stats)}
STRATEGIES = {'history': lambda max_ops: tagcheck.case_strategy('edge', max_ops, allow_big=False)}


def pred_tcp(case, stats):
    tagcheck.pred_tcp(case, stats, PID)


def pred_tcp_replay(case, stats):
    tagcheck.run_history(case, stats, PID, 'history')
    if not tagcheck._TCP:
        pred_tcp(case, stats)


def shard(job):
    if job[0] == 'tcp':
        _, seed, i, n, max_ops = job
        return tagcheck.tcp_shard(PID, 'edge', seed, i, n, max_ops, pred_tcp)
    seed, i, n, max_ops = job
    s = Stats()
    common.hyp_run(s, tagcheck.case_strategy('edge', max_ops, allow_big=False), pred, n, common.shard_seed(seed, i), 'history', PID, skey=max_ops)
    return s


def run(tier, seed):
    if tier == 'thorough':
        jobs = [(seed, i, 400, 50) for i in range(32)] + [('tcp', seed, i, 120, 40) for i in range(16)]
    else:
        jobs = [(seed, i, 40, 25) for i in range(16)] + [('tcp', seed, i, 10, 20) for i in range(8)]
    return common.parallel(shard, jobs)
