"""
C16 -- dotdict behaves as a tree of nested mappings addressed by dotted paths (dotdict.py).

Oracle: a reference model made of plain nested ``dict`` / ``list`` / scalars with an independently
written path resolver (character scanner: components are split on dots outside brackets, a run of n
consecutive dots pops n-1 components, clamped at the level the operation is applied to -- from the
class docstring examples 'a.x..b' == 'a.b', 'a.x.y...b' == 'a.b', 'a.....a.b' == 'a.b', '.a.b' == 'a.b').
A case is a *history*: an initial value plus a list of operations, each interpreted against one of
up to three "worlds" (the original tree and copies of it).  After every step

  * the stored structure of every world (walked with the builtin ``dict.items``/``list`` API, not with
    cpppo code) equals its model  -> effects of set/del/pop/setdefault/update and copy independence,
  * on the world operated on: every addressable model path looks up (item form) to the model value
    and is ``in`` the tree; keys()/iter/items()/values() list exactly the model's leaf paths and
    every listed (key, value) looks up to that value.

Where the statement is silent the oracle is a validity predicate, never a single expected answer:
see ASSUMPTIONS.
"""
from __future__ import annotations

import copy
import itertools
import re

from hypothesis import strategies as st

from .. import common
from ..common import Stats

PID = 'C16'
LEVEL = 'exploration'
RULE = ('case = history {init value, <= 40 operations}; operations set/get/in/del/pop/setdefault/update/iter/'
        'copy/deepcopy in item, attribute, method and chained-attribute form, on the root or a sub-level, on '
        'the original or a copy; paths are existing model paths (chosen modulo the current tree) or literal '
        'components from a small pool, decorated with leading dots, ".." detours (junk components followed '
        'by enough dots to return, optionally popping and re-entering real components, optionally past the '
        'root), trailing "..", space-padded / negative list indices.  Non-trivial = the history contains a '
        'lookup/assignment by a path with ".." that resolves to an existing node AND an indexed path that '
        'resolves AND a successful del/pop (iteration is compared after every step).  Plus an exhaustive '
        'enumeration of short paths over a fixed tree (clause paths).')
ASSUMPTIONS = [
    'trusted base: CPython dict/list/copy, Hypothesis; the real tree is read back with dict.items()/list iteration',
    'component names are identifier-like or all-digit; names starting with "__" and empty components are not generated; '
    'a single trailing dot is not generated (the _resolve docstring calls it an error, __setitem__ accepts it)',
    'index expressions are integer literals (optionally space padded or negative); peer-reference/arithmetic index '
    'expressions (documented: d["a[a[0].b-1].b"]) are not generated',
    'indexed components are only formed on identifier names (the index form is evaluated as a Python expression); '
    'lists are never stored under all-digit names (counted in excluded_by_construction)',
    'an index applied to a string value is unspecified (Python would index the string): such operations are skipped and counted',
    'lists hold scalars and/or dotdicts, never plain dicts (a plain dict inside a list is not "assigned into the tree")',
    'reserved method names appear only as the final component of an assignment or as a key of an assigned dict; '
    'their use as an auto-created intermediate level is unspecified by the statement and not generated',
    'a path that resolves to no component at all (back-tracks to the root and stops) raises KeyError (_resolve docstring)',
    'failure = an exception of class KeyError/AttributeError/IndexError/NameError/TypeError; the class is only demanded '
    '(KeyError for item form, AttributeError for attribute form, False for "in", the default for get) when the path '
    'fails on a name missing from a mapping level or descends into an int; failures that involve a list, a string or an '
    'index may raise any of these classes, also from "in"/get/hasattr (counted as soft_failure)',
    'a refused assignment may leave behind the empty intermediate levels it created on the way (both outcomes accepted)',
    'assignment through an existing non-mapping value (a.b.c = v where a.b is a scalar or list) is refused (explicit KeyError in the code)',
    'del of a final indexed component, and pop through any indexed component, are documented as not implemented '
    '(dotdict_test.test_dotdict_indexes): either performed correctly or refused without effect',
    'pop(path, default) of an absent path may return the default or raise KeyError (the statement does not mention defaults)',
    'an empty mapping that is an element of a list of mappings may be listed as name[i] or omitted by key iteration',
    'after copy.copy, mapping levels that are elements of lists may or may not be shared: once one side is mutated '
    'through such an element the other sides are no longer compared (dropped, counted)',
    'order of iteration is not compared',
]
MIN_EVALUATIONS = {'quick': 20000, 'thorough': 100000}

RESERVED = ['clear', 'copy', 'get', 'set', 'items', 'iteritems', 'iterkeys', 'itervalues', 'listitems', 'listkeys',
            'listvalues', 'keys', 'values', 'pop', 'popitem', 'setdefault', 'update']
IDENTS = ['a', 'b', 'c', 'd', 'x', 'y', 'l', 'k']
DIGITS = ['0', '1', '6']
FAILS = (KeyError, AttributeError, IndexError, NameError, TypeError)
MAX_WORLDS = 3


def _dotdict():
    from cpppo.dotdict import dotdict
    return dotdict


# ------------------------------------------------------------------------------------------------
# reference model


class Refuse(Exception):
    """The model says the operation fails.  kind: 'missing' (name absent from a mapping level), 'int' (descends
    into an int), 'soft' (involves a list/str/index), 'partial', 'reserved', 'empty', 'refused'."""

    def __init__(self, kind, created=()):
        Exception.__init__(self, kind)
        self.kind = kind
        self.created = list(created)


class Unspecified(Exception):
    pass


_COMP = re.compile(r'^([^\[\]]+)\[(.*)\]$')


def _index_value(text):
    text = text.strip()
    if re.match(r'^-?\d+$', text):
        return int(text)
    # only the generator's own expression forms reach this point (INDEX_FORMS): arithmetic on integer literals
    if not re.match(r'^[\d\s+\-()\[\],.real]+$', text):
        raise common.HarnessError('generator produced an index expression the model cannot read: %r' % text)
    return int(eval(text, {'__builtins__': {}}, {}))


def parse_path(path):
    """-> list of (name, index|None).  Independent of cpppo: scan characters, split on dots outside brackets,
    a run of n dots pops n-1 components (clamped)."""
    comps = []
    cur = ''
    depth = 0
    run = 0

    def flush_run():
        for _ in range(max(0, run - 1)):
            if comps:
                comps.pop()

    for ch in path:
        if ch == '.' and depth == 0:
            if cur:
                comps.append(cur)
                cur = ''
            run += 1
            continue
        if run:
            flush_run()
            run = 0
        if ch == '[':
            depth += 1
        elif ch == ']':
            depth -= 1
        cur += ch
    if cur:
        comps.append(cur)
    if run:
        flush_run()
    out = []
    for c in comps:
        m = _COMP.match(c)
        if m:
            out.append((m.group(1), _index_value(m.group(2))))
        else:
            if '[' in c or ']' in c:
                raise common.HarnessError('generator produced a malformed component %r in %r' % (c, path))
            out.append((c, None))
    return out


def m_step(cur, name, idx):
    """One component down from model node cur; raises Refuse/Unspecified."""
    if not isinstance(cur, dict):
        if isinstance(cur, int):
            raise Refuse('int' if idx is None else 'soft')
        raise Refuse('soft')
    if name not in cur:
        raise Refuse('missing' if idx is None else 'soft')
    v = cur[name]
    if idx is not None:
        if isinstance(v, str):
            raise Unspecified()
        if not isinstance(v, list) or not (-len(v) <= idx < len(v)):
            raise Refuse('soft')
        v = v[idx]
    return v


def m_lookup(root, comps, trail=None):
    if not comps:
        raise Refuse('empty')
    cur = root
    for name, idx in comps:
        if trail is not None:
            trail.append(cur)
        cur = m_step(cur, name, idx)
    return cur


def m_set(root, comps, value, trail=None):
    """Assign; auto-creates plain-named intermediate levels.  On Refuse, .created lists (parent, name) of the
    intermediates created before the refusal."""
    if not comps:
        raise Refuse('empty')
    created = []
    cur = root
    try:
        for name, idx in comps[:-1]:
            if trail is not None:
                trail.append(cur)
            if idx is None:
                if not isinstance(cur, dict):
                    raise Refuse('refused')
                if name not in cur:
                    cur[name] = {}
                    created.append((cur, name))
                cur = cur[name]
                if not isinstance(cur, dict):
                    raise Refuse('refused')
            else:
                cur = m_step(cur, name, idx)
                if not isinstance(cur, dict):
                    raise Refuse('refused')
        if trail is not None:
            trail.append(cur)
        if isinstance(value, Refuse):           # the value itself cannot be converted into a level
            raise Refuse(value.kind)
        name, idx = comps[-1]
        if not isinstance(cur, dict):
            raise Refuse('refused')
        if idx is None:
            if name in RESERVED:
                raise Refuse('reserved')
            cur[name] = value
        else:
            if name not in cur:
                raise Refuse('soft')
            v = cur[name]
            if isinstance(v, str):
                raise Unspecified()
            if not isinstance(v, list) or not (-len(v) <= idx < len(v)):
                raise Refuse('soft')
            v[idx] = value
    except Refuse as exc:
        exc.created = created
        raise
    except Unspecified:
        undo(created)
        raise


def undo(created):
    for parent, name in reversed(created):
        del parent[name]


def m_parent(root, comps, trail=None):
    cur = root
    for name, idx in comps[:-1]:
        if trail is not None:
            trail.append(cur)
        cur = m_step(cur, name, idx)
    if trail is not None:
        trail.append(cur)
    return cur


def leaves(node, prefix=''):
    """-> list of (key, value, optional)."""
    out = []
    for k, v in node.items():
        if isinstance(v, dict) and v:
            out.extend(leaves(v, prefix + k + '.'))
        elif isinstance(v, list) and v and all(isinstance(e, dict) for e in v):
            for i, e in enumerate(v):
                if e:
                    out.extend(leaves(e, '%s%s[%d].' % (prefix, k, i)))
                else:
                    out.append(('%s%s[%d]' % (prefix, k, i), e, True))
        else:
            out.append((prefix + k, v, False))
    return out


def all_paths(node, prefix=()):
    """Every addressable path of the model as a tuple of (name, idx) with its value."""
    for k, v in node.items():
        p = prefix + ((k, None),)
        yield p, v
        if isinstance(v, dict):
            for x in all_paths(v, p):
                yield x
        elif isinstance(v, list) and k.isidentifier():
            for i, e in enumerate(v):
                q = prefix + ((k, i),)
                yield q, e
                if isinstance(e, dict):
                    for x in all_paths(e, q):
                        yield x


def m_copy(node):
    """Model of copy.copy: mapping levels reached through mappings are new, lists are new lists of the same elements."""
    if isinstance(node, dict):
        return dict((k, m_copy(v)) for k, v in node.items())
    if isinstance(node, list):
        return list(node)
    return node


def dicts_in_lists(node, inside=False, out=None):
    out = [] if out is None else out
    if isinstance(node, dict):
        if inside:
            out.append(node)
        for v in node.values():
            dicts_in_lists(v, inside, out)
    elif isinstance(node, list):
        for e in node:
            dicts_in_lists(e, True, out)
    return out


INDEX_FORMS = {False: '%s[%d]', True: '%s[%2d]', 2: '%s[%d+0]', 3: '%s[(%d)]', 4: '%s[[(%d).real][0]]', 5: '%s[[7,(%d)][1]]'}
# (the class documents that the index is an expression evaluated safely, e.g. 'a[a[0].b-1].b'; forms 4 and 5 put a dot and
#  further brackets inside the index brackets, which the path splitter has to keep together)


def render(comps, pad=False):
    return '.'.join(n if i is None else INDEX_FORMS[pad] % (n, i) for n, i in comps)


# ------------------------------------------------------------------------------------------------
# values: JSON spec -> real value and model value
#   int | str | {'D': [[key, spec], ...]} plain dict | {'DD': [[key, spec], ...]} dotdict | {'L': [spec, ...]}


def build_real(spec):
    if isinstance(spec, dict):
        if 'L' in spec:
            return [build_real(e) for e in spec['L']]
        pairs = spec.get('D', spec.get('DD'))
        merged = {}
        for k, v in pairs:                    # like dict(pairs): first position, last value; overwritten values are never built
            merged[k] = v
        plain = dict((k, build_real(v)) for k, v in merged.items())
        if 'DD' in spec:
            return _dotdict()(plain)          # may raise: caller handles
        return plain
    return spec


def build_model(spec):
    """-> model value, or a Refuse instance when conversion of the dict into levels must be refused."""
    if isinstance(spec, dict):
        if 'L' in spec:
            out = []
            for e in spec['L']:
                m = build_model(e)
                if isinstance(m, Refuse):
                    return m
                out.append(m)
            return out
        pairs = spec.get('D', spec.get('DD'))
        # dict(...) keeps the first position of a repeated key and its last value
        merged = {}
        for k, v in pairs:
            merged[k] = v
        node = {}
        for k, v in merged.items():
            m = build_model(v)
            if isinstance(m, Refuse):
                return m
            try:
                m_set(node, parse_path(k), m)
            except Refuse as exc:
                return Refuse(exc.kind)
            except Unspecified:
                return Refuse('refused')
        return node
    return spec


def spec_has_list(spec):
    return isinstance(spec, dict) and 'L' in spec


def to_plain(v, problems=None):
    """Read a real value back with builtin APIs only."""
    if isinstance(v, dict):
        if problems is not None and not isinstance(v, _dotdict()):
            problems.append('plain-dict-level')
        return dict((k, to_plain(x, problems)) for k, x in dict.items(v))
    if isinstance(v, list):
        return [to_plain(e, problems) for e in v]
    return v


# ------------------------------------------------------------------------------------------------
# interpreting a history


def textual_reduction(path):
    """Labelling aid only (never used by the oracle): the textual '..' elimination that dotdict's docstring
    describes ('a.b..c' ==> 'a.c'), used to recognise which failing paths share one root cause."""
    while '..' in path:
        front, back = path.split('..', 1)
        trunc = front[:max(0, front.rfind('.'))]
        path = trunc + ('.' if trunc and back else '') + back
    return path


def _leading_dot_single(path):
    red = textual_reduction(path)
    return red.startswith('.') and red.strip('.') != '' and '.' not in red.lstrip('.')


# (root-cause signature, trigger on the operation's path); a failure at a step whose path triggers gets that signature
ROOT_CAUSES = [
    ('leading-dot-before-single-component', _leading_dot_single),
]


_KNOWN = None


def known_root_causes():
    """Root causes listed as status=known in known_findings.json (read once per process): operations that trigger
    them are skipped and counted, so the search continues behind a known finding; the committed replay file of the
    finding still reproduces it on every run.  VP_C16_ASSUME_KNOWN=<sig>[,<sig>] does the same for development."""
    global _KNOWN
    if _KNOWN is None:
        import os
        known = set(common.known_sigs(PID))
        known.update(x for x in os.environ.get('VP_C16_ASSUME_KNOWN', '').split(',') if x)
        _KNOWN = [(root, trig) for root, trig in ROOT_CAUSES if root in known]
    return _KNOWN


class Stop(Exception):
    """A failure was recorded (or the rest of the history is unusable); abandon the history."""


class World(object):
    def __init__(self, real, model):
        self.real = real
        self.model = model
        self.tainted = {}           # id(model node) -> node: mapping levels possibly shared with another world
        self.verified = None        # canonical form of the model when the full invariant was last checked


SENT = ('<default>',)
_NORM = re.compile(r'\[\s*(-?\d+)\s*\]')


def norm_key(k):
    return _NORM.sub(lambda m: '[%s]' % m.group(1), k)


def attempt(fn):
    try:
        return 'ok', fn()
    except FAILS as exc:
        return 'exc', exc
    except Exception as exc:                 # any other exception class is never an allowed outcome
        return 'bad', exc


def render_path(ps, comps):
    """Decorate comps per path spec: leading dots, '..' detours, padded indices, trailing dots."""
    pad = ps.get('pad') or False
    if pad == 4 and (ps.get('det') or ps.get('trail') or ps.get('lead', 0) > 1):
        pad = 5         # '..' back-tracking is resolved textually before the path is split: a dot inside index brackets is only
        #                 documented (and generated) in paths without '..' runs
    texts = [render([c], pad) for c in comps]
    dets = {}
    for at, junk, extra in ps.get('det', ()):
        dets.setdefault(at % (len(comps) + 1), (junk, extra))
    items = []
    if ps.get('lead'):
        items.append(('d', ps['lead']))
    for p in range(len(comps) + 1):
        if p in dets:
            junk, extra = dets[p]
            if junk or extra:
                for j in junk:
                    items.append(('c', j))
                items.append(('d', len(junk) + extra + 1))
                for q in range(max(0, p - extra), p):
                    items.append(('c', texts[q]))
        if p < len(comps):
            items.append(('c', texts[p]))
    if ps.get('trail'):
        items.append(('d', ps['trail']))
    out = ''
    prev = None
    for kind, x in items:
        if kind == 'c':
            if prev == 'c':
                out += '.'
            out += x
        else:
            if prev == 'd':
                continue
            out += '.' * x
        prev = kind
    return out


class Run(object):
    def __init__(self, case, stats):
        self.case = case
        self.stats = stats
        self.worlds = []
        self.step = -1
        self.desc = None
        self.flags = set()
        self.dropped = 0
        # a committed replay of a known finding carries "sentinel": true so that it keeps reproducing the finding
        self.known = [] if case.get('sentinel') else known_root_causes()

    # -- reporting
    def fail(self, sig, observed=None, expected=None):
        path = (self.desc or {}).get('path')
        for root, trigger in ROOT_CAUSES:
            if isinstance(path, str) and trigger(path):
                sig = root
        self.stats.fail('history', sig, self.case,
                        observed={'step': self.step, 'op': self.desc, 'observed': observed}, expected=expected)
        raise Stop()

    def bad(self, what, exc):
        self.fail('exc:%s@%s' % (type(exc).__name__, what), observed=repr(exc)[:300],
                  expected='only KeyError/AttributeError/IndexError/NameError/TypeError may signal a refused operation')

    def count(self, what):
        self.stats.count('step:' + what)

    # -- state comparison
    def snapshot_ok(self, world):
        problems = []
        plain = to_plain(world.real, problems)
        if problems:
            self.fail('plain-dict-not-converted', observed=plain, expected=world.model)
        return plain == world.model, plain

    def compare_all(self, sig='state-differs-from-model'):
        for i, w in enumerate(self.worlds):
            ok, plain = self.snapshot_ok(w)
            if not ok:
                self.fail(sig if w is self.cur else 'other-copy-changed', observed={'world': i, 'tree': plain},
                          expected={'world': i, 'tree': w.model})

    def touch(self, world, trail):
        for node in trail:
            if id(node) in world.tainted:
                for other in list(self.worlds):
                    if other is not world and id(node) in other.tainted:
                        self.worlds.remove(other)
                        self.dropped += 1
                        self.stats.exclude('copy no longer compared after mutation through a list element shared by copy.copy')

    def after_refusal(self, world, created):
        """A refused assignment: the tree is unchanged or has the empty intermediate levels created on the way."""
        ok, plain = self.snapshot_ok(world)
        if ok:
            if created:
                self.count('refused_set_left_empty_levels')
            return
        undo(created)
        ok, plain = self.snapshot_ok(world)
        if not ok:
            self.fail('refused-operation-changed-tree', observed=plain, expected=world.model)

    # -- invariant on one level
    def invariant(self, real, model):
        for comps, v in all_paths(model):
            key = render(comps)
            kind, got = attempt(lambda: real[key])
            if kind == 'bad':
                self.bad('getitem', got)
            if kind != 'ok':
                self.fail('lookup-fails-on-contained-path', observed={'key': key, 'exc': repr(got)[:200]}, expected=v)
            if to_plain(got) != v:
                self.fail('lookup-returns-wrong-value', observed={'key': key, 'got': to_plain(got)}, expected=v)
            kind, got = attempt(lambda: key in real)
            if kind == 'bad':
                self.bad('contains', got)
            if kind != 'ok' or got is not True:
                self.fail('membership-disagrees-with-lookup', observed={'key': key, 'in': repr(got)[:200]}, expected=True)
        lv = leaves(model)
        required = sorted(k for k, v, opt in lv if not opt)
        optional = set(k for k, v, opt in lv if opt)
        listings = {}
        for name, fn in (('keys', lambda: list(real.keys())), ('iter', lambda: list(iter(real))),
                         ('items', lambda: list(real.items())), ('values', lambda: list(real.values()))):
            kind, got = attempt(fn)
            if kind != 'ok':
                self.bad(name, got) if kind == 'bad' else self.fail('iteration-raises', observed={name: repr(got)[:200]})
            listings[name] = got
        items = listings['items']
        for name, ks in (('keys', listings['keys']), ('iter', listings['iter']), ('items', [k for k, _ in items])):
            nk = sorted(norm_key(k) for k in ks)
            if len(set(nk)) != len(nk):
                self.fail('iteration-lists-duplicate-key', observed={name: nk}, expected=required)
            if sorted(k for k in nk if k not in optional) != required or any(k not in optional and k not in required for k in nk):
                extra = [k for k in nk if k not in required and k not in optional]
                missing = [k for k in required if k not in nk]
                sig = 'iteration-lists-non-leaf' if extra else 'iteration-omits-leaf'
                self.fail(sig, observed={name: nk, 'extra': extra, 'missing': missing},
                          expected={'required': required, 'optional': sorted(optional)})
        if sorted(common.canon(to_plain(v)) for v in listings['values']) != sorted(common.canon(to_plain(v)) for _, v in items):
            self.fail('values-differ-from-items', observed=[to_plain(v) for v in listings['values']],
                      expected=[to_plain(v) for _, v in items])
        for k, v in items:
            kind, got = attempt(lambda: real[k])
            if kind == 'bad':
                self.bad('getitem', got)
            if kind != 'ok' or not (got is v or to_plain(got) == to_plain(v)):
                self.fail('listed-key-does-not-look-up-to-listed-value',
                          observed={'key': k, 'lookup': repr(got)[:200], 'listed': to_plain(v)})
            try:
                mv = m_lookup(model, parse_path(k))
            except (Refuse, Unspecified):
                self.fail('iteration-lists-non-leaf', observed={'key': k})
            if to_plain(v) != mv:
                self.fail('listed-value-differs-from-stored', observed={'key': k, 'listed': to_plain(v)}, expected=mv)
            kind, got = attempt(lambda: k in real)
            if kind != 'ok' or got is not True:
                self.fail('membership-disagrees-with-lookup', observed={'key': k, 'in': repr(got)[:200]}, expected=True)

    # -- locating the level an operation is applied to
    def base_of(self, world, sel):
        if sel is None:
            return world.real, world.model, []
        cands = [()]

        def walk(node, prefix):
            for k, v in node.items():
                if isinstance(v, dict):
                    cands.append(prefix + (k,))
                    walk(v, prefix + (k,))
        walk(world.model, ())
        cands.sort()
        names = cands[sel % len(cands)]
        real, model, trail = world.real, world.model, []
        for n in names:
            trail.append(model)
            kind, real = attempt(lambda: getattr(real, n))
            if kind == 'bad':
                self.bad('getattr', real)
            if kind != 'ok' or not isinstance(real, _dotdict()):
                self.fail('attribute-access-to-level-fails', observed={'names': names, 'at': n, 'got': repr(real)[:200]})
            model = model[n]
        return real, model, trail

    def comps_of(self, ps, model):
        if ps.get('hit') is not None:
            plist = sorted((render(c), c) for c, _ in all_paths(model))
            if plist:
                return list(plist[ps['hit'] % len(plist)][1]) + [tuple(c) for c in ps.get('tail', ())]
        lit = [tuple(c) for c in ps.get('lit', ())]
        return lit or [('a', None)]

    # -- outcome helpers
    def strict_class(self, kind, form):
        if kind in ('missing', 'int', 'empty'):
            return AttributeError if form in ('attr', 'chain') else KeyError
        return None

    def note_path(self, path, comps, present):
        if present:
            if '..' in path:
                self.flags.add('dotdot_hit')
            if any(i is not None for _, i in comps):
                self.flags.add('index_hit')
            if path.startswith('.'):
                self.flags.add('leading_dot_hit')
            if re.search(r'\[\s+\d', path):
                self.flags.add('padded_index_hit')

    # -- operations
    def op_get(self, op, real, model, comps, path):
        form = op.get('form', 'item')
        try:
            want = ('ok', m_lookup(model, comps))
        except Refuse as exc:
            want = ('no', exc.kind)
        if form == 'item':
            kind, got = attempt(lambda: real[path])
        elif form == 'attr':
            kind, got = attempt(lambda: getattr(real, path))
        elif form == 'method':
            kind, got = attempt(lambda: real.get(path, SENT))
        else:
            kind, got = attempt(lambda: chain_get(real, comps))
        if kind == 'bad':
            self.bad('get:' + form, got)
        self.note_path(path, comps, want[0] == 'ok')
        if want[0] == 'ok':
            if kind != 'ok' or got is SENT:
                self.fail('lookup-fails-on-contained-path', observed={'form': form, 'got': repr(got)[:200]}, expected=want[1])
            if to_plain(got) != want[1]:
                self.fail('lookup-returns-wrong-value', observed={'form': form, 'got': to_plain(got)}, expected=want[1])
            self.count('get:%s:present' % form)
            return
        strict = self.strict_class(want[1], form)
        if form == 'method':
            if kind == 'ok' and got is not SENT:
                self.fail('lookup-succeeds-on-absent-path', observed={'form': form, 'got': to_plain(got)}, expected='default')
            if kind == 'exc' and strict is not None:
                self.fail('get-raises-instead-of-default', observed=repr(got)[:200], expected='default')
        else:
            if kind == 'ok':
                self.fail('lookup-succeeds-on-absent-path', observed={'form': form, 'got': to_plain(got)}, expected=want[1])
            if strict is not None and not isinstance(got, strict):
                self.fail('lookup-fails-with-wrong-exception-class', observed=repr(got)[:200], expected=strict.__name__)
        self.count('get:%s:absent:%s' % (form, 'strict' if strict else 'soft_failure'))

    def op_in(self, op, real, model, comps, path):
        form = op.get('form', 'item')
        try:
            m_lookup(model, comps)
            want = ('ok', None)
        except Refuse as exc:
            want = ('no', exc.kind)
        if form == 'attr':
            kind, got = attempt(lambda: hasattr(real, path))
        else:
            form = 'item'
            kind, got = attempt(lambda: path in real)
        if kind == 'bad':
            self.bad('in:' + form, got)
        self.note_path(path, comps, want[0] == 'ok')
        if want[0] == 'ok':
            if kind != 'ok' or got is not True:
                self.fail('membership-disagrees-with-lookup', observed={'form': form, 'in': repr(got)[:200]}, expected=True)
            self.count('in:%s:present' % form)
            return
        strict = self.strict_class(want[1], form)
        if kind == 'ok' and got is not False:
            self.fail('membership-true-on-absent-path', observed={'form': form, 'in': repr(got)[:200]}, expected=False)
        if kind == 'exc' and strict is not None:
            self.fail('membership-raises-on-absent-path', observed={'form': form, 'exc': repr(got)[:200]}, expected=False)
        self.count('in:%s:absent:%s' % (form, 'strict' if strict else ('soft_failure_raised' if kind == 'exc' else 'soft_failure')))

    def values_of(self, spec):
        """-> (real value, model value|Refuse) or None when the real value could not even be constructed
        (dotdict(...) refused it, which is then checked against the model)."""
        mv = build_model(spec)
        kind, rv = attempt(lambda: build_real(spec))
        if kind == 'bad':
            self.bad('constructor', rv)
        if kind == 'exc':
            if not isinstance(mv, Refuse):
                self.fail('constructor-refuses-valid-dict', observed=repr(rv)[:200], expected=mv)
            self.count('value:constructor_refused:' + mv.kind)
            return None
        if isinstance(mv, Refuse) and dd_spec_refusing(spec):
            self.fail('constructor-accepts:' + mv.kind, observed=to_plain(rv), expected='refused')
        return rv, mv

    def do_set(self, form, real, comps, path, rv):
        if form == 'item':
            real[path] = rv
        elif form == 'attr':
            setattr(real, path, rv)
        elif form == 'method':
            real.set(path, rv)
        else:
            parent = chain_get(real, comps[:-1])
            name, idx = comps[-1]
            if idx is None:
                setattr(parent, name, rv)
            else:
                getattr(parent, name)[idx] = rv

    def op_set(self, op, world, real, model, comps, path, trail):
        form = op.get('form', 'item')
        spec = op.get('val', 0)
        if comps and not comps[-1][0].isidentifier() and spec_has_list(spec):
            self.stats.exclude('list stored under a non-identifier name')
            self.count('set:excluded')
            return
        vals = self.values_of(spec)
        if vals is None:
            return
        rv, mv = vals
        created = []
        try:
            if form == 'chain':
                t2 = []
                parent = m_lookup(model, comps[:-1], t2) if len(comps) > 1 else model
                trail = trail + t2
                m_set(parent, comps[-1:], mv, trail)
            else:
                m_set(model, comps, mv, trail)
            want = 'ok'
        except Refuse as exc:
            want, created = exc.kind, exc.created
        self.touch(world, trail)
        kind, got = attempt(lambda: self.do_set(form, real, comps, path, rv))
        if kind == 'bad':
            self.bad('set:' + form, got)
        if want == 'ok':
            if kind != 'ok':
                self.fail('assignment-refused', observed=repr(got)[:200], expected='assigned')
            self.note_path(path, comps, True)
            self.count('set:%s:ok' % form)
        else:
            if kind == 'ok':
                self.fail('assignment-accepted:' + want, observed=to_plain(world.real), expected='refused (%s)' % want)
            self.after_refusal(world, created)
            self.count('set:%s:refused:%s' % (form, want))

    def op_del(self, op, world, real, model, comps, path, trail):
        either = False
        try:
            if not comps:
                raise Refuse('empty')
            parent = m_parent(model, comps, trail)
            name, idx = comps[-1]
            if idx is not None:
                m_step(parent, name, idx)
                either = True
                want = 'ok'
            else:
                v = m_step(parent, name, None)
                if isinstance(v, dict) and v:
                    raise Refuse('partial')
                want = 'ok'
        except Refuse as exc:
            want = exc.kind
        self.touch(world, trail)
        kind, got = attempt(lambda: real.__delitem__(path))
        if kind == 'bad':
            self.bad('del', got)
        if want == 'ok':
            if kind == 'ok':
                if either:
                    del parent[name][idx]
                else:
                    del parent[name]
                self.flags.add('deleted')
                self.note_path(path, comps, True)
                self.count('del:ok')
            elif either:
                self.count('del:indexed_final_refused')
            else:
                self.fail('deletion-of-contained-leaf-refused', observed=repr(got)[:200], expected='deleted')
        else:
            if kind == 'ok':
                self.fail('deletion-accepted:' + want, observed=to_plain(world.real), expected='refused (%s)' % want)
            if want in ('missing', 'partial', 'empty') and not isinstance(got, KeyError):
                self.fail('deletion-refused-with-wrong-exception-class', observed=repr(got)[:200], expected='KeyError')
            self.count('del:refused:' + want)

    def op_pop(self, op, world, real, model, comps, path, trail):
        default = bool(op.get('default'))
        indexed = any(i is not None for _, i in comps)
        try:
            if not comps:
                raise Refuse('empty')
            parent = m_parent(model, comps, trail)
            name, idx = comps[-1]
            want = ('ok', m_step(parent, name, idx))
        except Refuse as exc:
            want = ('no', exc.kind)
        self.touch(world, trail)
        kind, got = attempt((lambda: real.pop(path, SENT)) if default else (lambda: real.pop(path)))
        if kind == 'bad':
            self.bad('pop', got)
        if want[0] == 'ok':
            if kind == 'ok' and got is not SENT:
                if to_plain(got) != want[1]:
                    self.fail('pop-returns-wrong-value', observed=to_plain(got), expected=want[1])
                if idx is None:
                    del parent[name]
                else:
                    del parent[name][idx]
                self.flags.add('deleted')
                self.note_path(path, comps, True)
                self.count('pop:ok' + (':level' if isinstance(want[1], dict) and want[1] else ''))
            elif indexed:
                self.count('pop:indexed_path_refused')
            else:
                self.fail('pop-of-contained-path-refused', observed=repr(got)[:200], expected=want[1])
        else:
            if kind == 'ok' and got is not SENT:
                self.fail('pop-succeeds-on-absent-path', observed=to_plain(got), expected='KeyError or the default')
            if default and kind != 'ok' and comps and comps[-1][1] is None and not indexed:
                # only the leaf is absent (every level above it exists): like any mapping, pop(path, default) returns the default
                try:
                    par = m_parent(model, comps, [])
                    leaf_only = isinstance(par, dict) and comps[-1][0] not in par
                except (Refuse, Unspecified):
                    leaf_only = False
                if leaf_only:
                    self.fail('pop-with-default-raises-although-only-the-leaf-is-absent', observed=repr(got)[:200], expected='the default')
            self.count('pop:absent:' + ('default_returned' if kind == 'ok' else 'raised_despite_default' if default else 'raised'))

    def op_setdefault(self, op, world, real, model, comps, path, trail):
        spec = op.get('val', 0)
        if comps and not comps[-1][0].isidentifier() and spec_has_list(spec):
            self.stats.exclude('list stored under a non-identifier name')
            self.count('setdefault:excluded')
            return
        vals = self.values_of(spec)
        if vals is None:
            return
        rv, mv = vals
        created = []
        try:
            want = ('present', m_lookup(model, comps))
        except Refuse:
            try:
                m_set(model, comps, mv, trail)
                want = ('added', m_lookup(model, comps))
            except Refuse as exc:
                want, created = ('no', exc.kind), exc.created
        self.touch(world, trail)
        kind, got = attempt(lambda: real.setdefault(path, rv))
        if kind == 'bad':
            self.bad('setdefault', got)
        if want[0] == 'no':
            if kind == 'ok':
                self.fail('assignment-accepted:' + want[1], observed=to_plain(world.real), expected='refused (%s)' % want[1])
            self.after_refusal(world, created)
        else:
            if kind != 'ok':
                self.fail('setdefault-refused', observed=repr(got)[:200], expected=want[1])
            if to_plain(got) != want[1]:
                self.fail('setdefault-returns-wrong-value', observed=to_plain(got), expected=want[1])
            self.note_path(path, comps, True)
        self.count('setdefault:' + want[0])

    def op_update(self, op, world, real, model, trail):
        form = op.get('form', 'dict')
        merged = {}
        for k, v in op.get('pairs', ()):
            merged[k] = v
        if form == 'kwargs' and not all(k.isidentifier() for k in merged):
            form = 'dict'
        for k, spec in merged.items():
            comps = parse_path(k)
            if comps and not comps[-1][0].isidentifier() and spec_has_list(spec):
                self.stats.exclude('list stored under a non-identifier name')
                self.count('update:excluded')
                return
        reals = {}
        want, created = 'ok', []
        for k, spec in merged.items():
            vals = self.values_of(spec)
            if vals is None:
                return
            reals[k] = vals[0]
        for k, spec in merged.items():
            try:
                m_set(model, parse_path(k), build_model(spec), trail)
            except Refuse as exc:
                want, created = exc.kind, exc.created
                break
            except Unspecified:
                raise common.HarnessError('update generated an index on a string')
        self.touch(world, trail)
        if form == 'dict':
            kind, got = attempt(lambda: real.update(reals))
        elif form == 'pairs':
            kind, got = attempt(lambda: real.update(list(reals.items())))
        else:
            kind, got = attempt(lambda: real.update(**reals))
        if kind == 'bad':
            self.bad('update', got)
        if want == 'ok':
            if kind != 'ok':
                self.fail('assignment-refused', observed=repr(got)[:200], expected='updated')
            self.count('update:%s:ok' % form)
        else:
            if kind == 'ok':
                self.fail('assignment-accepted:' + want, observed=to_plain(world.real), expected='refused (%s)' % want)
            self.after_refusal(world, created)
            self.count('update:%s:refused:%s' % (form, want))

    def op_copy(self, op, world, real, model):
        deep = op['op'] == 'deepcopy'
        kind, got = attempt(lambda: copy.deepcopy(real) if deep else copy.copy(real))
        if kind != 'ok':
            self.bad('copy', got) if kind == 'bad' else self.fail('copy-raises', observed=repr(got)[:200])
        if not isinstance(got, _dotdict()) or got is real:
            self.fail('copy-is-not-a-new-dotdict', observed=repr(type(got)))
        new = World(got, copy.deepcopy(model) if deep else m_copy(model))
        if not deep:
            for node in dicts_in_lists(new.model):
                new.tainted[id(node)] = node
                world.tainted[id(node)] = node
        if len(self.worlds) >= MAX_WORLDS:
            victim = [w for w in self.worlds if w is not world][op.get('evict', 0) % (len(self.worlds) - 1)]
            self.worlds.remove(victim)
        self.worlds.append(new)
        self.invariant(new.real, new.model)
        new.verified = common.canon(new.model)
        self.flags.add('deepcopied' if deep else 'copied')
        self.count('%s%s' % (op['op'], ':with_lists_of_levels' if dicts_in_lists(new.model) else ''))

    # -- driver
    def run(self):
        case = self.case
        self.desc = {'init': True}
        mv = build_model(case.get('init', {'DD': []}))
        kind, rv = attempt(lambda: build_real(case.get('init', {'DD': []})))
        if kind == 'bad':
            self.bad('constructor', rv)
        if kind == 'exc' or isinstance(mv, Refuse):
            if kind == 'exc' and isinstance(mv, Refuse):
                self.count('init:constructor_refused')
                return
            self.fail('constructor-disagrees', observed=repr(rv)[:200], expected=repr(mv))
        self.worlds = [World(rv, mv)]
        self.cur = self.worlds[0]
        self.compare_all()
        self.invariant(rv, mv)
        self.cur.verified = common.canon(mv)
        for self.step, op in enumerate(case.get('ops', ())):
            world = self.cur = self.worlds[op.get('w', 0) % len(self.worlds)]
            real, model, trail = self.base_of(world, op.get('base'))
            kind = op['op']
            if kind in ('copy', 'deepcopy'):
                self.desc = {'op': kind, 'base': op.get('base')}
                self.op_copy(op, world, real, model)
            elif kind == 'update':
                self.desc = {'op': kind, 'form': op.get('form'), 'pairs': op.get('pairs')}
                self.op_update(op, world, real, model, trail)
            elif kind == 'iter':
                self.desc = {'op': kind}
                self.invariant(real, model)
                self.flags.add('iterated_sublevel' if real is not world.real else 'iterated')
                self.count('iter')
            else:
                ps = op.get('path', {})
                comps = self.comps_of(ps, model)
                form = op.get('form', 'item')
                if form == 'chain' and comps[-1][1] is not None and kind == 'set':
                    form = 'item'       # d.l[0] = v is a plain list assignment, not a dotdict operation
                    op = dict(op, form='item')
                if 'str' in ps:
                    path = ps['str']
                else:
                    path = render(comps) if form == 'chain' else render_path(ps, comps)
                self.desc = {'op': kind, 'form': form, 'path': path, 'val': op.get('val'), 'world': self.worlds.index(world)}
                skip = [root for root, trig in self.known if trig(path)]
                if skip:
                    self.stats.exclude('known finding %s: operation skipped' % skip[0])
                    continue
                try:
                    comps = parse_path(path)
                    if kind == 'get':
                        self.op_get(op, real, model, comps, path)
                    elif kind == 'in':
                        self.op_in(op, real, model, comps, path)
                    elif kind == 'set':
                        self.op_set(op, world, real, model, comps, path, trail)
                    elif kind == 'del':
                        self.op_del(op, world, real, model, comps, path, trail)
                    elif kind == 'pop':
                        self.op_pop(op, world, real, model, comps, path, trail)
                    elif kind == 'setdefault':
                        self.op_setdefault(op, world, real, model, comps, path, trail)
                    else:
                        raise common.HarnessError('unknown op %r' % (kind,))
                except Unspecified:
                    self.stats.exclude('index applied to a string value (unspecified)')
                    self.count(kind + ':unspecified_skipped')
            self.compare_all()
            if world in self.worlds:
                snap = common.canon(world.model)
                if snap != world.verified:          # lookups/iteration are re-checked whenever the tree changed
                    self.invariant(world.real, world.model)
                    world.verified = snap


def chain_get(real, comps):
    for name, idx in comps:
        real = getattr(real, name)
        if idx is not None:
            real = real[idx]
    return real


def dd_spec_refusing(spec):
    """True when the refusal of the value must already happen in dotdict(...) while the value is built."""
    return isinstance(spec, dict) and 'DD' in spec


def pred_history(case, stats):
    run = Run(case, stats)
    try:
        run.run()
    except Stop:
        pass
    flags = run.flags
    nontrivial = {'dotdot_hit', 'index_hit', 'deleted'} <= flags
    classes = sorted(flags) + ['worlds:%d' % len(run.worlds)]
    if run.dropped:
        classes.append('copy_dropped_after_shared_list_mutation')
    if nontrivial:
        classes.append('nontrivial')
    stats.case(case, nontrivial=nontrivial, classes=classes)


CLAUSES = {'history': pred_history}

# ------------------------------------------------------------------------------------------------
# generators
#
# Values are mostly drawn from a fixed pool (one Hypothesis draw each, so that 40-operation histories stay well
# inside Hypothesis' entropy budget); a recursive strategy supplies the unusual shapes.

ident = st.sampled_from(IDENTS)
name = st.one_of(ident, ident, ident, st.sampled_from(DIGITS))
scalar = st.one_of(st.integers(-3, 99), st.sampled_from(['', 'xyz', 's', None, None, False, 0.0]))
index = st.sampled_from([0, 0, 1, 1, 2, -1, 5, 10])


def _D(*pairs):
    return {'D': [list(p) for p in pairs]}


def _DD(*pairs):
    return {'DD': [list(p) for p in pairs]}


def _L(*elems):
    return {'L': list(elems)}


VALUE_POOL = [
    _D(), _DD(), _L(), _D(), _L(),
    _D(('a', 1)), _D(('b', 2), ('c', 3)), _DD(('x', 1)), _DD(('a', 1), ('b', 'xyz')),
    _D(('a', _D(('b', _D(('c', 1)))))), _D(('a', _D()), ('b', 5)), _DD(('a', _D(('x', 1), ('y', 2))), ('c', 0)),
    _D(('c.d', 2)), _D(('a.b', 1), ('a.c', 2)), _D(('a.b.c', 1), ('x', 's')), _D(('a', _D(('b', 1))), ('a.c', 2)),
    _D(('a..b', 1)), _D(('a.x..b', 7), ('c', 1)),
    _D(('a', 1), ('a.b', 2)),                    # second key descends into a scalar: refused
    _D(('keys', 1)), _D(('a', _D(('items', 0)))), _DD(('pop', 1)), _D(('b', 1), ('update', 2)), _D(('a.get', 1)),
    _L(1, 2, 3), _L('s'), _L(0, 'xyz'), _L(_L(1)),
    _L(_DD(('x', 1))), _L(_DD(('x', 1)), _DD(('y', 2))), _L(_DD(('a', 1), ('b', 2)), _DD(), _DD(('c', _D(('d', 4))))),
    _L(_DD()), _L(_DD(), _DD()), _L(_DD(('x', 1)), 5), _L(7, _DD(('x', 1))),
    _L(_DD(('l', _L(_DD(('x', 1)), _DD(('y', 2))))), _DD(('b', 1))),
    _L(*[_DD(('x', i)) for i in range(11)]), _L(*[_DD(('a', _D(('b', i)))) for i in range(10)]),
    _D(('l', _L(_DD(('x', 1)), _DD(('y', 2))))), _D(('a', _D(('l', _L(_DD(('b', 1))))))), _DD(('l', _L(1, 2))),
    _D(('k', _L()), ('d', _D())), _L(_DD(('keys', 1))),
]
VALID_POOL = [v for v in VALUE_POOL if not isinstance(build_model(v), Refuse)]


def _pairs(values, reserved_ok=True):
    key = st.one_of(*([ident] * 12 + [st.builds(lambda a, b: a + '.' + b, ident, ident)] +
                      ([st.sampled_from(RESERVED)] if reserved_ok else [])))
    return st.lists(st.tuples(key, values).map(list), min_size=0, max_size=3)


def _levels(values):
    return st.one_of(st.builds(lambda p: {'D': p}, _pairs(values)), st.builds(lambda p: {'DD': p}, _pairs(values)))


def _lists(values):
    dd = st.builds(lambda p: {'DD': p}, _pairs(values, reserved_ok=False))
    return st.one_of(
        st.builds(lambda e: {'L': e}, st.lists(scalar, max_size=3)),
        st.builds(lambda e: {'L': e}, st.lists(dd, min_size=1, max_size=3)),
        st.builds(lambda e: {'L': e}, st.lists(st.one_of(scalar, dd), min_size=1, max_size=3)),
    )


rare_value = st.recursive(scalar, lambda inner: st.one_of(scalar, _levels(inner), _levels(inner), _lists(inner)), max_leaves=6)
value = st.one_of(scalar, scalar, scalar, st.sampled_from(VALUE_POOL), st.sampled_from(VALUE_POOL), st.sampled_from(VALUE_POOL),
                  st.sampled_from(VALUE_POOL), rare_value)
plain_value = st.one_of(scalar, scalar, st.sampled_from([v for v in VALUE_POOL if 'DD' not in common.canon(v)]))

comp = st.one_of(st.tuples(name, st.none()), st.tuples(name, st.none()), st.tuples(name, st.none()),
                 st.tuples(ident, index)).map(list)
junk = st.one_of(name, name, st.sampled_from(['q[0]', 'zz', 'keys']))
detour = st.tuples(st.integers(0, 5), st.lists(junk, max_size=2), st.sampled_from([0, 0, 0, 1, 1, 2, 5])).map(list)


@st.composite
def pathspecs(draw, reserved_final=False):
    ps = {}
    shape = draw(st.integers(0, 19))
    if shape < 12:
        ps['hit'] = draw(st.integers(0, 80))
        if shape < 3:
            ps['tail'] = [draw(comp)]
    else:
        ps['lit'] = draw(st.lists(comp, min_size=1, max_size=4))
    if reserved_final and shape in (2, 19):
        res = [draw(st.sampled_from(RESERVED)), None]
        if 'hit' in ps:
            ps['tail'] = [res]
        else:
            ps['lit'] = ps['lit'][:-1] + [res]
    decorate = draw(st.integers(0, 9))
    if decorate >= 4:
        ps['lead'] = draw(st.sampled_from([0, 0, 0, 1, 1, 2, 3]))
        if decorate >= 6:
            ps['det'] = draw(st.lists(detour, min_size=1, max_size=2))
        ps['trail'] = draw(st.sampled_from([0] * 14 + [2, 3]))
        ps['pad'] = draw(st.sampled_from([False, False, False, True, 2, 3, 4, 4, 5]))
    return ps


@st.composite
def operations(draw):
    kind = draw(st.sampled_from(['set'] * 9 + ['get'] * 5 + ['in'] * 3 + ['del'] * 3 + ['pop'] * 3 + ['setdefault'] * 2 +
                                ['update'] * 2 + ['iter', 'copy', 'deepcopy']))
    op = {'op': kind, 'w': draw(st.integers(0, 2))}
    if draw(st.integers(0, 4)) == 0:
        op['base'] = draw(st.integers(0, 6))
    if kind in ('iter', 'copy', 'deepcopy'):
        if kind != 'iter':
            op['evict'] = draw(st.integers(0, 1))
        return op
    if kind == 'update':
        op['form'] = draw(st.sampled_from(['dict', 'dict', 'pairs', 'kwargs']))
        key = st.one_of(*([name] * 6 + [st.builds(lambda a, b: a + '.' + b, name, name),
                                        st.builds(lambda a, b, c: a + '.' + b + '..' + c, name, name, name),
                                        st.sampled_from(RESERVED)]))
        if op['form'] == 'kwargs':
            key = st.one_of(*([ident] * 12 + [st.sampled_from(RESERVED)]))
        op['pairs'] = draw(st.lists(st.tuples(key, plain_value).map(list), min_size=0, max_size=3))
        return op
    op['path'] = draw(pathspecs(reserved_final=kind in ('set', 'setdefault')))
    if kind == 'set':
        op['form'] = draw(st.sampled_from(['item'] * 5 + ['attr', 'attr', 'method', 'chain', 'chain']))
        op['val'] = draw(value)
    elif kind == 'setdefault':
        op['val'] = draw(value)
    elif kind == 'get':
        op['form'] = draw(st.sampled_from(['item'] * 4 + ['attr', 'attr', 'method', 'method', 'chain']))
    elif kind == 'in':
        op['form'] = draw(st.sampled_from(['item', 'item', 'item', 'attr']))
    elif kind == 'pop':
        op['default'] = draw(st.booleans())
    return op


@st.composite
def histories(draw, max_ops=40):
    valid = st.one_of(scalar, st.sampled_from(VALID_POOL), st.sampled_from(VALID_POOL))
    init = {'DD': draw(st.lists(st.tuples(ident, valid).map(list), max_size=4))}
    if draw(st.booleans()):
        init['DD'].append([draw(st.sampled_from(['l', 'l', 'a', 'k'])), draw(st.sampled_from([v for v in VALID_POOL if 'L' in v]))])
    least = min(max_ops, draw(st.sampled_from([1, 8, 8, 16, 24])))       # long histories, yet shrinkable to one operation
    return {'init': init, 'ops': draw(st.lists(operations(), min_size=least, max_size=max_ops))}


# ------------------------------------------------------------------------------------------------
# bounded exhaustive enumeration of short paths over a fixed tree

ENUM_TREE = {'DD': [['a', {'D': [['b', {'D': [['c', 1], ['x', 2]]}], ['x', 3]]}], ['x', 4],
                    ['l', {'L': [{'DD': [['x', 1], ['b', {'D': [['c', 5]]}]]}, {'DD': [['c', 2]]}]}], ['e', {'D': []}]]}


def enum_paths(tokens, max_comps, runs, leads, trails):
    for n in range(1, max_comps + 1):
        for comps in itertools.product(tokens, repeat=n):
            for seps in itertools.product(runs, repeat=n - 1):
                body = comps[0] + ''.join('.' * r + c for r, c in zip(seps, comps[1:]))
                for lead in leads:
                    for trail in trails:
                        yield '.' * lead + body + '.' * trail


def enum_case(path):
    ps = {'str': path}
    return {'init': ENUM_TREE, 'ops': [
        {'op': 'get', 'path': ps, 'form': 'item'}, {'op': 'in', 'path': ps, 'form': 'item'},
        {'op': 'get', 'path': ps, 'form': 'method'}, {'op': 'in', 'path': ps, 'form': 'attr'},
        {'op': 'copy'}, {'op': 'set', 'w': 1, 'path': ps, 'form': 'item', 'val': {'D': [['k', 7]]}},
        {'op': 'get', 'w': 1, 'path': ps, 'form': 'attr'}, {'op': 'del', 'w': 0, 'path': ps},
        {'op': 'pop', 'w': 1, 'path': ps, 'default': True}]}


ENUMS = {
    'quick': (['a', 'b', 'c', 'x', 'l[0]', 'q'], 3, (1, 2, 3, 4), (0, 1, 2), (0, 2)),
    'thorough': (['a', 'b', 'c', 'x', 'l[ 1]', 'e', 'q'], 4, (1, 2, 3), (0, 1, 3), (0, 2)),
}


def shard_enum(job):
    tier, idx, nsh = job
    s = Stats()
    for i, path in enumerate(enum_paths(*ENUMS[tier])):
        if i % nsh == idx:
            common.run_pred(pred_history, enum_case(path), s, 'history')
    return s


def shard_random(job):
    seed, shard, n, max_ops = job
    s = Stats()
    common.hyp_run(s, histories(max_ops), pred_history, n, common.shard_seed(seed, shard), 'history', PID)
    return s


def run(tier, seed):
    thorough = tier == 'thorough'
    stats = Stats()
    nsh = 16
    common.parallel(shard_enum, [(tier, i, nsh) for i in range(nsh)], stats=stats)
    tokens, n, runs, leads, trails = ENUMS[tier]
    stats.exhaustive['short-paths'] = ('fixed tree %s; all paths of 1..%d components from %r joined by dot runs %r, leading dots %r, '
                                       'trailing dots %r; each: get/in/get()/hasattr, copy, set on the copy, getattr, del on the '
                                       'original, pop on the copy' % (common.canon(ENUM_TREE), n, tokens, runs, leads, trails))
    shards = 64 if thorough else 16
    per = 1600 if thorough else 200
    common.parallel(shard_random, [(seed, i, per, 40) for i in range(shards)], stats=stats)
    return stats
