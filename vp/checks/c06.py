"""
C06 -- exactly one matching reply per request, delivered in request order.

Generated request sequences (all service kinds, succeeding and CIP-failing mixed, random sender contexts,
bundles of 1..8, list/legacy commands) are encoded by the reference codec and written to a real TCP
simulator in groups (pipelining depth = frames written before any reply is read), and -- the in-process
twin -- fed frame by frame to logix.process.  Replies are read to end-of-stream (every sequence ends with
Unregister Session or with a request that must be answered with a non-zero encapsulation status, after
which the server closes the connection) and decoded by the strict reference decoder.
"""
from __future__ import annotations

import socket

from hypothesis import strategies as st

from .. import common, model as M, refcodec as rc, sim, tagcheck
from ..common import Stats

PID = 'C06'
LEVEL = 'exploration'
RULE = ('case = sequence of 1..N request frames after Register Session (Read/Write Tag [Fragmented], Get/Set Attribute Single, '
        'Get Attributes All, Multiple Service Packets of 1..8, List Services/Identity/Interfaces, legacy 0x0001; valid and '
        'CIP-failing; wrapped in Unconnected Send or bare), 8-byte sender contexts (random, all-zero, duplicated), a pipelining '
        'plan (group sizes 1,2,8,all), and a final frame (Unregister | unsupported service | unknown tag | unknown object); '
        'executed over TCP and in-process; non-trivial = some group holds >= 2 frames and a CIP-failing request sits strictly '
        'inside the sequence')
ASSUMPTIONS = [
    '"unsupported or unroutable request" is read at CIP level (unsupported service code, unknown tag/object inside SendRRData); '
    'frames with an unknown *encapsulation command* are not generated here (the simulator closes the connection without a '
    'reply; C08 covers "reply or close")',
    'routed clause: simulator A (this process, UCMM.route = {"1/1": relay}) forwards Unconnected Sends whose route path starts with '
    '1/1 to a second simulator B (subprocess of the same working tree) through the fault-injecting relay; the relay holds the '
    'reply to one forwarded request back for longer than that request\'s own Unconnected Send timeout (256 ms); the router '
    'must refuse that request with a non-zero encapsulation status, and every later routed request (new session) must be '
    'answered by the reply to itself (service code, context, and B\'s values); if the reply arrived in time after all the case '
    'is judged as an ordinary exchange',
    'client-issue clause: connector.issue() over a capturing connector: every operation is reported with the index of the request '
    'frame that carries it (documented: "instrumented with a sender_context based on the provided index, indicating the actual '
    'EtherNet/IP CIP request it is part of") and that frame carries index_to_sender_context(index)',
    'client-context clause: the library\'s own client writes 1..8 reads with explicit sender contexts (0..8 bytes, NUL bytes '
    'in any position) before reading any reply; collect() must report every reply, in order, under its request\'s context '
    'with only the documented right-hand NUL padding removed',
    'every fourth shard runs against a simulator started with --size 150 (documented: "Limit EtherNet/IP encapsulated request '
    'size"): the first frame whose encapsulated payload is longer must be answered by exactly one frame with a non-zero '
    'encapsulation status echoing context and session, after which the server ends the session',
    'bundle members also address other objects (Get Attributes All / Get Attribute Single / Get Attribute List on Identity, '
    'TCP/IP, unknown classes and instances): every member reply must decode and carry the member\'s service code | 0x80',
    'every fourth shard runs against a simulator started with --route-path 1/0 (wrapped requests then carry 1/0; the final '
    'frame may carry a route path differing in port, link, length or link kind, which must be answered with a non-zero '
    'encapsulation status); against the unconfigured simulator the same frame is an ordinary request',
    'at most one request that must end the session (non-zero encapsulation status) per sequence, placed last, because the '
    'server ends the session after such a reply',
    'end-of-stream is the completion signal: a sequence is judged only after the server closed the connection; a socket '
    'timeout (30 s) is reported as inconclusive (harness error), never as a violation',
    'one TCP simulator per forked worker process; tag values persist across sequences and are not judged here (C03 does)',
]
MIN_EVALUATIONS = {'quick': 150, 'thorough': 3000}

SPECS = [
    {'name': 'I16', 'type': 'INT', 'length': 20, 'address': None},
    {'name': 'Scalar', 'type': 'DINT', 'length': 1, 'address': None},
    {'name': 'F32', 'type': 'REAL', 'length': 8, 'address': [0x93, 1, 3]},
    {'name': 'Big', 'type': 'DINT', 'length': 400, 'address': None},
    {'name': 'Str', 'type': 'SSTRING', 'length': 3, 'address': None},
    {'name': 'Flags', 'type': 'BOOL', 'length': 5, 'address': [0x104, 2, 1]},
    {'name': 'Motor.Speed', 'type': 'LREAL', 'length': 2, 'address': None},
]
SERVED_AFTER_UNREGISTER = []
ADDR = {}       # name -> numeric address, filled per process by _addresses()
ROUTE = [None]  # the route path this process' simulator is configured with (None: unconfigured, accepts any)
TIMEOUT = 30.0


def _addresses():
    """Numeric addresses of the auto-allocated tags: Message Router attributes in definition order."""
    if not ADDR:
        dev = sim.Device(SPECS)
        for s in SPECS:
            ADDR[s['name']] = tuple(dev.device.resolve_tag(s['name']))
        dev.close()
    return ADDR


contexts = st.one_of(st.just('00' * 8), st.just('ff' * 8), st.just('0100000000000000'),
                     st.binary(min_size=8, max_size=8).map(lambda b: b.hex()))


@st.composite
def member_op(draw):
    op = draw(tagcheck.op_strategy(SPECS, draw(st.sampled_from(['valid', 'valid', 'edge']))))
    if op.get('unknown_object') and not op.get('unknown_attribute'):
        op = draw(tagcheck.op_strategy(SPECS, 'valid'))
    elif op['tag'] == 'NoSuchTag' and not op.get('unknown_object'):
        op = draw(tagcheck.op_strategy(SPECS, 'valid'))
    if op['svc'] == 'set_attr' and not op.get('values'):
        op = draw(tagcheck.op_strategy(SPECS, 'valid'))
    return op


FOREIGN_MEMBERS = [    # (service, path): Get Attributes All / Get Attribute Single on other objects, existing and not
    (0x01, [{'class': 1}, {'instance': 1}]), (0x01, [{'class': 0xF5}, {'instance': 1}]), (0x01, [{'class': 0x95}, {'instance': 1}]),
    (0x01, [{'class': 2}, {'instance': 9}]), (0x0E, [{'class': 1}, {'instance': 1}, {'attribute': 7}]),
    (0x0E, [{'class': 0x95}, {'instance': 1}, {'attribute': 1}]), (0x0E, [{'class': 1}, {'instance': 1}, {'attribute': 99}]),
    (0x03, [{'class': 1}, {'instance': 1}]), (0x03, [{'class': 0x95}, {'instance': 3}]),
]


@st.composite
def bundle_member(draw):
    if draw(st.integers(0, 5)) == 0:
        return {'foreign': draw(st.integers(0, len(FOREIGN_MEMBERS) - 1))}
    return draw(member_op())


@st.composite
def request(draw):
    kind = draw(st.sampled_from(['op', 'op', 'op', 'op', 'bundle', 'gaa', 'list_services', 'list_identity', 'list_interfaces', 'legacy',
                                 'fwd_open', 'fwd_close']))
    r = {'kind': kind, 'context': draw(contexts)}
    if kind == 'op':
        r['op'] = draw(member_op())
    elif kind == 'bundle':
        r['ops'] = draw(st.lists(bundle_member(), min_size=1, max_size=8))
    elif kind == 'gaa':
        r['wrap'] = draw(st.booleans())
    elif kind == 'fwd_open':
        r['large'] = draw(st.booleans())
        r['serial'] = draw(st.integers(1, 0xFFFF))
    elif kind == 'fwd_close':
        r['serial'] = draw(st.integers(1, 0xFFFF))
    return r


@st.composite
def cases(draw, max_len, routed=False, sized=None):
    reqs = draw(st.lists(request(), min_size=1, max_size=max_len))
    final = draw(st.sampled_from(['unregister', 'unregister', 'bad_service', 'unknown_tag', 'unknown_object', 'wrong_route'] +
                                 (['oversize'] * 3 if sized else [])))
    depth = draw(st.sampled_from([1, 2, 8, 1000]))
    return {'requests': reqs, 'final': {'kind': final, 'context': draw(contexts), 'how': draw(st.sampled_from(['port', 'link', 'longer', 'kind', 'other']))},
            'depth': depth, 'routed': routed, 'sized': sized, 'oversize_count': draw(st.integers(40, 110)),
            'register_context': draw(contexts)}


def encode_request(r, handle):
    """-> (frame bytes, expectation dict)"""
    frame, exp = _encode_request(r, handle)
    if r.get('oversize'):
        # the simulator was started with --size N and this frame's encapsulated payload is longer: refused as a whole
        exp = {'cmd': exp['cmd'], 'ok': False}
    return frame, exp


def _encode_request(r, handle):
    addr = _addresses()
    ctx = bytes.fromhex(r['context'])
    k = r['kind']

    def opmsg(op):
        if 'foreign' in op:
            svc, path = FOREIGN_MEMBERS[op['foreign']]
            return rc.mr_request(svc, path, b'\x02\x00\x01\x00\x02\x00' if svc == 0x03 else b'')
        if op.get('unknown_object'):
            return M.op_message(op, None, tuple(op['unknown_object']))
        s = [x for x in SPECS if x['name'].lower() == op['tag'].lower()][0]
        return M.op_message(op, s['type'], tuple(s['address']) if s['address'] else addr[s['name']])

    if k == 'op':
        op = r['op']
        msg = opmsg(op)
        wrap = op.get('wrap', True) or op['svc'] == 'read_frag'
        return rc.rr_frame(handle, rc.unconnected_send(msg, route_path=ROUTE[0]) if wrap else msg, ctx), {'cmd': 0x6F, 'service': msg[0] | 0x80, 'ok': True}
    if k == 'bundle':
        msgs = [opmsg(op) for op in r['ops']]
        msg = rc.req_multiple(msgs)
        return rc.rr_frame(handle, rc.unconnected_send(msg, route_path=ROUTE[0]), ctx), {'cmd': 0x6F, 'service': 0x8A, 'ok': True, 'members': len(r['ops']),
                                                                                      'member_services': [m[0] | 0x80 for m in msgs]}
    if k == 'gaa':
        msg = rc.req_get_attributes_all([{'class': 1}, {'instance': 1}])
        return rc.rr_frame(handle, rc.unconnected_send(msg, route_path=ROUTE[0]) if r.get('wrap') else msg, ctx), {'cmd': 0x6F, 'service': 0x81, 'ok': True}
    if k == 'fwd_open':
        # Connection Manager services: Forward Open (0x54) / Large Forward Open (0x5B) / Forward Close (0x4E), sent bare as clients do
        large = bool(r.get('large'))
        fo = {'priority': 0x0A, 'timeout_ticks': 0x0E, 'O_T_connection_ID': 0x20000002, 'T_O_connection_ID': 0x20000001,
              'connection_serial': r.get('serial', 1), 'O_vendor': 0x1337, 'O_serial': 42, 'connection_timeout_multiplier': 3,
              'O_T_RPI': 0x00201234, 'O_T_NCP': (0x42000000 | 4000) if large else (0x4200 | 500), 'T_O_RPI': 0x00204001,
              'T_O_NCP': (0x42000000 | 4000) if large else (0x4200 | 500), 'transport_class_triggers': 0xA3,
              'connection_path': [{'port': 1, 'link': 0}, {'class': 2}, {'instance': 1}]}
        msg = rc.enc_forward_open(fo, large=large)
        return rc.rr_frame(handle, msg, ctx), {'cmd': 0x6F, 'service': msg[0] | 0x80, 'ok': True}
    if k == 'fwd_close':
        msg = rc.enc_forward_close({'priority': 0x0A, 'timeout_ticks': 0x0E, 'connection_serial': r.get('serial', 1), 'O_vendor': 0x1337,
                                    'O_serial': 42, 'connection_path': [{'port': 1, 'link': 0}, {'class': 2}, {'instance': 1}]})
        return rc.rr_frame(handle, msg, ctx), {'cmd': 0x6F, 'service': msg[0] | 0x80, 'ok': True}
    if k in ('list_services', 'list_identity', 'list_interfaces', 'legacy'):
        return rc.encap(rc.CMD[k], handle, b'', ctx), {'cmd': rc.CMD[k], 'ok': True}
    if k == 'unregister':
        return rc.unregister(handle, ctx), {'cmd': 0x66, 'none': True}
    if k == 'bad_service':
        msg = rc.mr_request(0x4B, [{'symbolic': 'I16'}], b'\x01\x00')
        return rc.rr_frame(handle, rc.unconnected_send(msg, route_path=ROUTE[0]), ctx), {'cmd': 0x6F, 'ok': False}
    if k == 'unknown_tag':
        msg = rc.req_read_tag([{'symbolic': 'NoSuchTag'}], 1)
        return rc.rr_frame(handle, rc.unconnected_send(msg, route_path=ROUTE[0]), ctx), {'cmd': 0x6F, 'ok': False}
    if k == 'wrong_route':
        msg = rc.req_read_tag([{'symbolic': 'I16'}], 1)
        wrong = {'port': [{'port': 2, 'link': 0}], 'link': [{'port': 1, 'link': 1}], 'longer': [{'port': 1, 'link': 0}, {'port': 1, 'link': 1}],
                 'kind': [{'port': 1, 'link': '0'}], 'other': [{'port': 3, 'link': '10.0.0.1'}]}[r.get('how', 'link')]
        if ROUTE[0] is None:
            # an unconfigured simulator accepts any route path: this is then an ordinary request, followed by the session's end
            return rc.rr_frame(handle, rc.unconnected_send(msg, route_path=wrong), ctx), {'cmd': 0x6F, 'service': 0xCC, 'ok': True, 'then_eof': False}
        return rc.rr_frame(handle, rc.unconnected_send(msg, route_path=wrong), ctx), {'cmd': 0x6F, 'ok': False}
    if k == 'oversize':
        n = r.get('count', 100)
        msg = M.op_message({'svc': 'write_frag', 'tag': 'Big', 'form': 'sym', 'elem': 0, 'count': n, 'offset': 0, 'type': 'DINT',
                            'values': list(range(n))}, 'DINT', addr['Big'])
        return rc.rr_frame(handle, rc.unconnected_send(msg, route_path=ROUTE[0]), ctx), {'cmd': 0x6F, 'service': 0xD3, 'ok': True}
    if k == 'unknown_object':
        msg = rc.req_get_attribute_single([{'class': 0x95}, {'instance': 1}, {'attribute': 1}])
        return rc.rr_frame(handle, rc.unconnected_send(msg, route_path=ROUTE[0]), ctx), {'cmd': 0x6F, 'ok': False}
    raise AssertionError(k)


def judge_reply(i, r, exp, frame, handle, ctx):
    """-> list of (sig, detail)"""
    out = []
    try:
        e = rc.dec_encap(frame)
    except rc.RefDecodeError as exc:
        return [('reply-frame-malformed', {'index': i, 'error': str(exc)})]
    if e['context'] != ctx:
        out.append(('sender-context-not-echoed', {'index': i, 'sent': ctx.hex(), 'got': e['context'].hex(), 'kind': r['kind']}))
    if e['session'] != handle:
        out.append(('session-handle-not-echoed', {'index': i, 'sent': handle, 'got': e['session'], 'kind': r['kind']}))
    if e['command'] != exp['cmd']:
        out.append(('reply-command-differs', {'index': i, 'sent': exp['cmd'], 'got': e['command']}))
        return out
    if not exp['ok']:
        if e['status'] == 0:
            out.append(('unroutable-request-got-zero-encapsulation-status', {'index': i, 'kind': r['kind']}))
        return out
    if e['status'] != 0:
        out.append(('supported-request-got-encapsulation-error', {'index': i, 'kind': r['kind'], 'status': e['status'],
                                                                 'request': r}))
        return out
    if exp['cmd'] == 0x6F:
        try:
            _, msg = rc.dec_rr_reply(frame)
            mr = rc.dec_mr_reply(msg)
        except rc.RefDecodeError as exc:
            return out + [('reply-cpf-or-message-malformed', {'index': i, 'error': str(exc), 'frame': frame.hex()[:300]})]
        if mr['service'] != exp['service']:
            out.append(('reply-service-is-not-request-service-with-reply-bit', {'index': i, 'want': exp['service'], 'got': mr['service']}))
        if 'members' in exp and mr['status'] == 0:
            try:
                members = rc.dec_multiple_body(mr['data'])
                if len(members) != exp['members']:
                    out.append(('bundle-member-count', {'index': i, 'want': exp['members'], 'got': len(members)}))
                else:
                    for k, (m, want) in enumerate(zip(members, exp['member_services'])):
                        try:
                            got_svc = rc.dec_mr_reply(m)['service']
                        except rc.RefDecodeError as exc:
                            out.append(('bundle-member-reply-malformed', {'index': i, 'member': k, 'error': str(exc), 'reply': bytes(m).hex()}))
                            break
                        if got_svc != want:
                            out.append(('bundle-member-reply-service-is-not-request-service-with-reply-bit',
                                        {'index': i, 'member': k, 'want': want, 'got': got_svc, 'request': r['ops'][k]}))
                            break
            except rc.RefDecodeError as exc:
                out.append(('bundle-reply-malformed', {'index': i, 'error': str(exc)}))
    return out


def plan_groups(n, depth):
    groups, i = [], 0
    while i < n:
        groups.append(list(range(i, min(n, i + depth))))
        i += depth
    return groups


def classify(case, stats_classes):
    reqs = case['requests']
    failing_inside = False
    for j, r in enumerate(reqs[:-1] if case['final']['kind'] == 'unregister' else reqs):
        if r['kind'] == 'op':
            s = [x for x in SPECS if x['name'].lower() == r['op']['tag'].lower()]
            if r['op'].get('unknown_object') or (s and M.expect(M.Model(SPECS), r['op'])['kind'] in ('range', 'type', 'fail', 'noattr')):
                failing_inside = True
    depth2 = case['depth'] >= 2 and len(reqs) + 1 >= 2
    return depth2 and failing_inside


# -- the two transports


def run_tcp(server, case):
    """-> (replies [frames], trailing bytes, eof, handle)"""
    sock = server.connect(TIMEOUT)
    try:
        rctx = bytes.fromhex(case['register_context'])
        sock.sendall(rc.register(rctx))
        frames, left, eof = sim.recv_frames(sock, 1, TIMEOUT)
        if len(frames) != 1:
            raise common.HarnessError('no Register reply within %ss (eof=%r)' % (TIMEOUT, eof))
        reg = frames[0]
        handle = rc.dec_encap(reg)['session']
        allreq = case['requests'] + [case['final']]
        encoded = [encode_request(r, handle) for r in allreq]
        got = []
        buf = left
        groups = plan_groups(len(encoded), case['depth'])
        eof = False
        for gi, g in enumerate(groups):
            sock.sendall(b''.join(encoded[i][0] for i in g))
            expect_n = sum(1 for i in g if not encoded[i][1].get('none'))
            last = gi == len(groups) - 1
            if last:
                # read to end-of-stream; stop early only when the answer to the final frame already decides the case: a
                # request that must be refused at encapsulation level was answered with status 0 (the session then stays open)
                import time as _time
                deadline = _time.time() + TIMEOUT
                probed = False
                del SERVED_AFTER_UNREGISTER[:]
                total_expected = sum(1 for f, x in encoded if not x.get('none'))
                while True:
                    fr, _rest = rc.split_frames(buf)
                    if (len(got) + len(fr) >= total_expected and not encoded[-1][1].get('none') and not encoded[-1][1]['ok']
                            and rc.dec_encap(fr[-1])['status'] == 0):
                        eof = True          # not judged: the violation is the zero status itself
                        break
                    remaining = deadline - _time.time()
                    if (encoded[-1][1].get('none') and not probed and TIMEOUT - remaining > 3.0):
                        # Unregister Session sent, all replies in, and the connection is still open after 3 s: positive test --
                        # a further request on the same connection.  A reply to it shows the session was not ended.
                        probed = True
                        try:
                            sock.sendall(rc.encap(rc.CMD['list_services'], handle, b'', b'C06probe'))
                        except OSError:
                            pass
                    if probed and any(rc.dec_encap(f)['context'] == b'C06probe' for f in fr):
                        SERVED_AFTER_UNREGISTER.append(True)
                        eof = True
                        break
                    if remaining <= 0:
                        raise common.HarnessError('server did not close the connection within %ss after the final frame' % TIMEOUT)
                    sock.settimeout(min(remaining, 1.0) if encoded[-1][1].get('none') and not probed else remaining)
                    try:
                        chunk = sock.recv(65536)
                    except socket.timeout:
                        if encoded[-1][1].get('none') and _time.time() < deadline:
                            continue
                        raise common.HarnessError('server did not close the connection within %ss after the final frame' % TIMEOUT)
                    except (ConnectionResetError, BrokenPipeError):
                        chunk = b''
                    if not chunk:
                        eof = True
                        break
                    buf += chunk
            else:
                while True:
                    fr, rest = rc.split_frames(buf)
                    if len(fr) >= expect_n:
                        break
                    sock.settimeout(TIMEOUT)
                    try:
                        chunk = sock.recv(65536)
                    except socket.timeout:
                        raise common.HarnessError('timeout waiting for replies of group %d' % gi)
                    if not chunk:
                        eof = True
                        break
                    buf += chunk
                fr, rest = rc.split_frames(buf)
                got.extend(fr)
                buf = rest
                if eof:
                    break
        fr, rest = rc.split_frames(buf)
        got.extend(fr)
        return reg, got, rest, eof, handle, encoded
    finally:
        try:
            sock.close()
        except Exception:
            pass


def run_inproc(case):
    ucmm_class = None
    if case.get('routed'):
        from cpppo.server.enip import ucmm

        class UCMM(ucmm.UCMM):
            route_path = [{'port': 1, 'link': 0}]
        ucmm_class = UCMM
    dev = sim.Device(SPECS, ucmm_class=ucmm_class, size=case.get('sized'))
    try:
        addr = ('127.0.0.9', 4242)
        rctx = bytes.fromhex(case['register_context'])
        kind, reg = dev.process(addr, rc.register(rctx))
        handle = rc.dec_encap(reg)['session']
        allreq = case['requests'] + [case['final']]
        encoded = [encode_request(r, handle) for r in allreq]
        got = []
        closed = False
        for frame, exp in encoded:
            kind, rpy = dev.process(addr, frame)
            if kind == 'reply':
                got.append(rpy)
                if rc.dec_encap(rpy)['status'] != 0:
                    closed = True
                    break
            elif kind == 'closed':
                closed = True
                break
            else:
                closed = True       # exception: the server closes the connection without a reply
                break
        return reg, got, b'', closed, handle, encoded
    finally:
        dev.close()


def judge_sequence(case, transport, reg, got, rest, eof, handle, encoded):
    problems = []
    rctx = bytes.fromhex(case['register_context'])
    try:
        e = rc.dec_encap(reg)
        if e['command'] != 0x65 or e['status'] != 0 or e['session'] == 0 or e['context'] != rctx or e['payload'] != b'\x01\x00\x00\x00':
            problems.append(('register-reply', {'reply': reg.hex()}))
    except rc.RefDecodeError as exc:
        problems.append(('register-reply', {'error': str(exc)}))
    allreq = case['requests'] + [case['final']]
    expected_replies = [(i, r, x) for i, (r, (f, x)) in enumerate(zip(allreq, encoded)) if not x.get('none')]
    if len(got) != len(expected_replies):
        problems.append(('reply-count', {'requests_expecting_a_reply': len(expected_replies), 'reply_frames': len(got),
                                         'final': case['final']['kind']}))
    for (i, r, x), frame in zip(expected_replies, got):
        problems.extend(judge_reply(i, r, x, frame, handle, bytes.fromhex(r['context'])))
    if rest:
        problems.append(('trailing-bytes-after-last-reply', {'bytes': rest.hex()[:100]}))
    if not eof:
        problems.append(('connection-not-closed-after-final-frame', {'final': case['final']['kind']}))
    return [(transport + ':' + s, d) for s, d in problems]


_SERVER = [None]


def pred(case, stats):
    import os
    ROUTE[0] = [{'port': 1, 'link': 0}] if case.get('routed') else None
    sized = case.get('sized')
    key = 'c06-routed' if case.get('routed') else 'c06-sized-%d' % sized if sized else 'c06-plain'
    for other, have in list(sim._PER_PROCESS.items()):
        if other.startswith('c06-') and other != key and have[0] == os.getpid():
            raise common.HarnessError('this process already runs a simulator with another configuration (%s)' % other)
    argv = (['--route-path', '1/0'] if ROUTE[0] else []) + (['--size', str(sized)] if sized else [])
    _SERVER[0] = sim.per_process(key, lambda: sim.TcpServer(SPECS, extra_argv=argv))
    if case['final']['kind'] == 'oversize':
        case = dict(case, final=dict(case['final'], count=case.get('oversize_count', 100)))
    if ((case['final']['kind'] == 'wrong_route' and ROUTE[0] is None) or (case['final']['kind'] == 'oversize' and not sized)):
        case = dict(case, requests=case['requests'] + [case['final']], final={'kind': 'unregister', 'context': case['final']['context']})
    if sized:
        # the first frame whose encapsulated payload exceeds the configured size limit must be refused as a whole (non-zero
        # encapsulation status) and ends the session: it becomes the final frame, what follows it is dropped
        allreq = case['requests'] + [case['final']]
        for j, r in enumerate(allreq):
            if len(_encode_request(r, 0)[0]) - 24 > sized:
                case = dict(case, requests=allreq[:j], final=dict(r, oversize=True))
                stats.count('sized:oversize-frame-at:%d' % min(j, 5))
                break
    nt = classify(case, None)
    stats.case(case, nontrivial=nt, classes=['final:' + case['final']['kind'], 'depth:%d' % case['depth'],
                                             'len:%d' % min(len(case['requests']), 10)] +
               sorted({'kind:' + r['kind'] for r in case['requests']}))
    if not _SERVER[0].alive():
        stats.fail('sequence', 'tcp:server-thread-died', case, observed=repr(_SERVER[0].error), expected='server keeps running')
        return
    for transport, runner in (('tcp', lambda: run_tcp(_SERVER[0], case)), ('inproc', lambda: run_inproc(case))):
        del SERVED_AFTER_UNREGISTER[:]
        res = runner()
        if SERVED_AFTER_UNREGISTER:
            stats.fail('sequence', 'tcp:session-served-after-unregister', case, observed='a request sent after Unregister Session on the same connection was answered',
                       expected='Unregister Session returns nothing and ends the session')
            res = (res[0], [f for f in res[1] if rc.dec_encap(f)['context'] != b'C06probe'], res[2], True, res[4], res[5])
        for sig, detail in judge_sequence(case, transport, *res):
            stats.fail('sequence', sig, case, observed=detail, expected='one decodable reply per request, in order, echoing context and session')


# -- clause: the library's own client reports each collected reply under the sender context of its request

nul_biased_context = st.lists(st.sampled_from([0, 0, 0, 1, 0x41, 0x30, 0xFF, 7]), min_size=0, max_size=8).map(lambda l: bytes(l).hex())
client_contexts = st.lists(st.one_of(nul_biased_context, st.binary(min_size=0, max_size=8).map(lambda b: b.hex())), min_size=1, max_size=8)


def pred_client(case, stats):
    from cpppo.server.enip import client
    srv = _SERVER[0]
    if srv is None:
        srv = _SERVER[0] = sim.per_process('c06-plain', lambda: sim.TcpServer(SPECS))
    ctxs = [bytes.fromhex(c) for c in case['contexts']]
    stats.case(case, nontrivial=any(c[:1] == b'\0' and c.strip(b'\0') for c in ctxs) and len(ctxs) >= 2,
               classes=['client:leading-nul' if any(c[:1] == b'\0' and c.strip(b'\0') for c in ctxs) else 'client:plain',
                        'client:requests:%d' % len(ctxs)])
    got = []
    with client.connector(host=srv.address[0], port=srv.address[1], timeout=TIMEOUT) as conn:
        for i, c in enumerate(ctxs):
            conn.read('I16[%d]' % (i % 20), sender_context=c, timeout=TIMEOUT)       # all written before any reply is read
        collector = conn.collect(timeout=TIMEOUT)
        for c in ctxs:
            r = next(collector, None)
            if r is None:
                break
            got.append((bytes(r[0]), r[2]))
    want = [(c.rstrip(b'\0'), 0) for c in ctxs]        # contexts are NUL-padded on the right to 8 bytes (documented)
    norm = [(g[0], 0 if g[1] in (0, None) else g[1]) for g in got]
    if norm != want:
        first = [i for i, (a, b) in enumerate(zip(norm + [None] * len(want), want)) if a != b][:1]
        stats.fail('client-context', 'client:reply-reported-under-other-sender-context' if len(got) == len(want) else 'client:reply-count',
                   case, observed={'index': first, 'collected': [(g[0].hex(), g[1]) for g in got]},
                   expected={'contexts': [w[0].hex() for w in want], 'status': 0})


# -- clause: client-issue -- connector.issue() numbers its requests: every operation is reported with the index of the request frame
#    that carries it, and that frame carries the sender context derived from the same index


def pred_client_issue(case, stats):
    from . import c15
    cap = c15.capture_connector()
    del cap.frames[:]
    cops = []
    for k, (elem, write) in enumerate(case['ops']):
        d = {'path': [{'symbolic': 'I16'}, {'element': elem}], 'elements': 1}
        d.update(dict(method='write', data=[k], tag_type=rc.tcode('INT')) if write else dict(method='read'))
        cops.append(d)
    issued = list(cap.issue(cops, index=case['index0'], multiple=case['multiple']))
    stats.case(case, nontrivial=bool(case['multiple']) and len(cap.frames) >= 2, classes=['issue:multiple:%d' % case['multiple'], 'issue:frames:%d' % min(len(cap.frames), 4)])
    if len(issued) != len(cops):
        stats.fail('client-issue', 'issue:request-count', case, observed=len(issued), expected=len(cops))
        return
    pos = 0
    for fi, frame in enumerate(cap.frames):
        e = rc.dec_encap(frame)
        sd = rc.dec_send_data(e['payload'])
        us = rc.dec_unconnected_send(sd['items'][1][1])
        inner = rc.dec_mr_request(us['message'])
        n = len(rc.dec_multiple_body(inner['data'])) if inner['service'] == 0x0A else 1
        for _ in range(n):
            if pos >= len(issued):
                stats.fail('client-issue', 'issue:surplus-request-on-the-wire', case, observed={'frame': fi}, expected=len(cops))
                return
            index, ctx = issued[pos][0], issued[pos][1]
            want_ctx = cap.index_to_sender_context(index)
            carried = bytes(e['context']).rstrip(b'\0')
            if bytes(ctx) != bytes(want_ctx) or carried != bytes(ctx).rstrip(b'\0') or index != case['index0'] + fi:
                stats.fail('client-issue', 'issue:operation-reported-under-another-request-index', case,
                           observed={'operation': pos, 'reported_index': index, 'reported_context': bytes(ctx).hex(), 'frame_number': case['index0'] + fi,
                                     'frame_context': carried.hex()},
                           expected='index = number of the frame that carries the operation; context = index_to_sender_context(index) = the frame\'s context')
                return
            pos += 1
    if pos != len(issued):
        stats.fail('client-issue', 'issue:operations-not-all-on-the-wire', case, observed=pos, expected=len(issued))


issue_cases = st.builds(lambda ops, m, i0: {'ops': [list(o) for o in ops], 'multiple': m, 'index0': i0},
                        st.lists(st.tuples(st.integers(0, 19), st.booleans()), min_size=1, max_size=14),
                        st.sampled_from([0, 100, 150, 150, 250, 4000]), st.sampled_from([0, 0, 7, 99]))


# -- clause: routed requests (simulator A forwards Unconnected Sends for route-path hop 1/1 to a second simulator B)

_RIG = {}


def rig():
    import os
    from .. import router
    if _RIG.get('pid') != os.getpid():
        if any(k.startswith('c06-') and v[0] == os.getpid() for k, v in sim._PER_PROCESS.items()):
            raise common.HarnessError('this process already runs a C06 simulator')
        sim.TcpServer._started = False
        _RIG.clear()
        _RIG.update(pid=os.getpid(), rig=router.Rig())
        import atexit
        atexit.register(_RIG['rig'].close)
    return _RIG['rig']


def routed_frame(handle, req, ctx, ticks):
    from .. import router
    path = [{'symbolic': req['tag']}, {'element': req['elem']}]
    if req['kind'] == 'read':
        msg = rc.req_read_tag(path, req['count'])
    elif req['kind'] == 'readf':
        msg = rc.req_read_frag(path, req['count'], 0)
    else:
        msg = rc.req_write_tag(path, 'DINT' if req['tag'] == 'RB' else 'INT', req['values'])
    # Unconnected Send timeout = 2**priority * ticks ms: the router waits that long for the routed target
    return rc.rr_frame(handle, rc.unconnected_send(msg, route_path=[router.ROUTE_HOP], priority=5, timeout_ticks=ticks), ctx), msg[0] | 0x80


def pred_routed(case, stats):
    """case = {'before': [req...], 'stalled': req, 'after': [req...], 'hold': seconds}: requests routed through A to B.  The reply
    to `stalled` is held back by the relay longer than its Unconnected Send timeout; A must answer it with a non-zero encapsulation
    status -- and every later routed request, on any session, must still be answered with the reply to *itself*."""
    import time
    r = rig()
    b_vals = {k: list(v) for k, v in r.b_values.items()}
    stats.case(case, nontrivial=bool(case['after']), classes=['routed:before:%d' % len(case['before']), 'routed:after:%d' % len(case['after'])])

    def exchange(sess_sock, handle, req, ctx, ticks, wait):
        frame, want_service = routed_frame(handle, req, ctx, ticks)
        sess_sock.sendall(frame)
        fr, _, eof = sim.recv_frames(sess_sock, 1, wait)
        return fr[0] if fr else None, want_service, eof

    def judge(tag, req, rpy, want_service, ctx):
        if rpy is None:
            stats.fail('routed', 'routed:no-reply', case, observed={'at': tag, 'request': req}, expected='one reply frame')
            return False
        e = rc.dec_encap(rpy)
        if e['context'] != ctx:
            stats.fail('routed', 'routed:sender-context-not-echoed', case, observed={'at': tag, 'sent': ctx.hex(), 'got': e['context'].hex()}, expected='the request\'s context')
            return False
        if e['status'] != 0:
            stats.fail('routed', 'routed:request-refused', case, observed={'at': tag, 'status': e['status'], 'request': req}, expected='a routed reply')
            return False
        try:
            _, m = rc.dec_rr_reply(rpy)
            mr = rc.dec_mr_reply(m)
        except rc.RefDecodeError as exc:
            stats.fail('routed', 'routed:reply-undecodable', case, observed={'at': tag, 'error': str(exc)}, expected='a decodable reply')
            return False
        if mr['service'] != want_service:
            stats.fail('routed', 'routed:reply-answers-another-request', case,
                       observed={'at': tag, 'request': req, 'reply_service': mr['service'], 'reply_data': bytes(mr['data']).hex()[:60]},
                       expected={'service': want_service})
            return False
        if req['kind'] in ('read', 'readf') and mr['status'] == 0:
            t = 'DINT' if req['tag'] == 'RB' else 'INT'
            try:
                vals = rc.dec_read_reply(mr, t)[1]
            except rc.RefDecodeError as exc:
                vals = 'undecodable as %s: %s' % (t, exc)
            want = b_vals[req['tag']][req['elem']:req['elem'] + req['count']]
            if vals != want:
                stats.fail('routed', 'routed:reply-answers-another-request', case,
                           observed={'at': tag, 'request': req, 'values': vals}, expected={'values': want})
                return False
        if req['kind'] == 'write' and mr['status'] == 0:
            for i, v in enumerate(req['values']):
                b_vals[req['tag']][req['elem'] + i] = v
        return True

    s1 = sim.TcpSession(r.a)        # (the relay keeps its list of connections: the router's connection to it outlives a case)
    n = 0
    try:
        for req in case['before']:
            n += 1
            ctx = b'rt%06d' % n
            rpy, want, _ = exchange(s1.sock, s1.handle, req, ctx, 157, 10.0)
            if not judge('before', req, rpy, want, ctx):
                return
        # the reply to the next forwarded request is held back by the relay for longer than the request's own timeout (256 ms)
        if not r.relay.conns:
            # nothing was forwarded yet: one transparent exchange opens the route connection
            rpy, want, _ = exchange(s1.sock, s1.handle, {'kind': 'read', 'tag': 'RW', 'elem': 0, 'count': 1}, b'rtopen\0\0', 157, 10.0)
            if rpy is None:
                raise common.HarnessError('routed warm-up request not answered')
        live = [c for c in r.relay.conns if not c.done.is_set()]
        if not live:
            rpy, want, _ = exchange(s1.sock, s1.handle, {'kind': 'read', 'tag': 'RW', 'elem': 0, 'count': 1}, b'rtopen\0\0', 157, 10.0)
            live = [c for c in r.relay.conns if not c.done.is_set()]
            if rpy is None or not live:
                raise common.HarnessError('routed warm-up request did not open a route connection')
        rconn = live[-1]
        rconn.spec = {'dir': 's2c', 'kind': 'stall', 'at': len(rconn.s2c), 'hold': case['hold']}
        rconn.released.clear()
        n += 1
        ctx = b'rt%06d' % n
        rpy, want, eof = exchange(s1.sock, s1.handle, case['stalled'], ctx, 8, 10.0)
        if rpy is None:
            if not eof:
                raise common.HarnessError('router did not answer the timed-out routed request within 10 s (inconclusive)')
        else:
            e = rc.dec_encap(rpy)
            if e['status'] == 0:
                # the reply made it in time after all (slow machine): nothing was stalled from the router's point of view
                stats.count('routed:stall-not-effective')
                judge('stalled-but-in-time', case['stalled'], rpy, want, ctx)
                return
            stats.count('routed:timed-out-request-refused-with-status-0x%02X' % e['status'])
        rconn.released.wait(case['hold'] + 5.0)
        time.sleep(0.1)
        if case['stalled']['kind'] == 'write':
            for i, v in enumerate(case['stalled']['values']):           # B executed it although its reply came too late
                b_vals[case['stalled']['tag']][case['stalled']['elem'] + i] = v
    finally:
        s1.close()
    s2 = sim.TcpSession(r.a)
    try:
        for req in case['after']:
            n += 1
            ctx = b'rt%06d' % n
            rpy, want, _ = exchange(s2.sock, s2.handle, req, ctx, 157, 10.0)
            if not judge('after-a-timed-out-routed-request', req, rpy, want, ctx):
                return
    finally:
        s2.close()
        # restore B's values for the next case
        rb = sim.TcpSession(__import__('vp.router', fromlist=['_Addr'])._Addr(('127.0.0.1', r.b_port)))
        for name, vals in r.b_values.items():
            rb.send(rc.req_write_tag([{'symbolic': name}], 'DINT' if name == 'RB' else 'INT', vals))
        rb.close()


@st.composite
def routed_req(draw):
    tag = draw(st.sampled_from(['RB', 'RB', 'RW']))
    L = 8 if tag == 'RB' else 4
    e = draw(st.integers(0, L - 1))
    # (no Read Tag Fragmented: forwarded with an exhausted route path it travels bare, and a bare 0x52 is documented as
    #  indistinguishable from an Unconnected Send)
    kind = draw(st.sampled_from(['read', 'read', 'write']))
    if kind == 'write':
        k = draw(st.integers(1, min(2, L - e)))
        return {'kind': kind, 'tag': tag, 'elem': e, 'values': [draw(st.integers(-30000, 30000)) for _ in range(k)]}
    return {'kind': kind, 'tag': tag, 'elem': e, 'count': draw(st.integers(1, L - e))}


routed_cases = st.builds(lambda b, s_, a, h: {'before': b, 'stalled': s_, 'after': a, 'hold': h},
                         st.lists(routed_req(), max_size=2), routed_req(), st.lists(routed_req(), min_size=1, max_size=3),
                         st.sampled_from([0.8, 1.2]))


CLAUSES = {'sequence': pred, 'client-context': pred_client, 'routed': pred_routed, 'client-issue': pred_client_issue}
STRATEGIES = {'sequence': lambda key: cases(*key) if isinstance(key, (tuple, list)) else cases(key),
              'client-context': lambda key: st.fixed_dictionaries({'contexts': client_contexts}),
              'routed': lambda key: routed_cases, 'client-issue': lambda key: issue_cases}
SIZE_LIMIT = 150


def shard_routed(job):
    _, seed, i, n = job
    s = Stats()
    try:
        rig()
    except RuntimeError as exc:
        raise common.HarnessError('router rig: %s' % exc)
    try:
        common.hyp_run(s, routed_cases, pred_routed, n, common.shard_seed(seed, 800 + i), 'routed', PID, skey=None)
    finally:
        _RIG['rig'].close()
    return s


def shard(job):
    if job[0] == 'routed':
        return shard_routed(job)
    seed, i, n, k = job
    # every second shard runs against a simulator configured with --route-path 1/0 (requests then carry that route path)
    routed = i % 4 == 1
    sized = SIZE_LIMIT if i % 4 == 3 else None      # every fourth shard: a simulator started with --size 150
    s = Stats()
    s.count('shard:routed' if routed else 'shard:sized' if sized else 'shard:unconfigured')
    common.hyp_run(s, cases(k, routed, sized), pred, n, common.shard_seed(seed, i), 'sequence', PID, skey=(k, routed, sized))
    common.hyp_run(s, st.fixed_dictionaries({'contexts': client_contexts}), pred_client, max(5, n // 4), common.shard_seed(seed, 500 + i),
                   'client-context', PID, skey=None)
    common.hyp_run(s, issue_cases, pred_client_issue, max(10, n // 2), common.shard_seed(seed, 520 + i), 'client-issue', PID, skey=None)
    return s


def run(tier, seed):
    if tier == 'thorough':
        jobs = [('routed', seed, i, 25) for i in range(4)] + [(seed, i, 250, 40) for i in range(32)]
    else:
        jobs = [('routed', seed, i, 5) for i in range(2)] + [(seed, i, 60, 20) for i in range(16)]
    return common.parallel(shard, jobs)
