"""
C15 -- route-path filtering follows the configured device personality; textual route paths denote the
segments they spell.

Four clauses, all judged by oracles written from the property statement and the documented text forms:

  filter  in-process simulator (sim.Device) with a UCMM personality (none / simple / single segment with a
          numeric or an address link / multi-segment) x request route path (absent = no Unconnected Send wrapper,
          empty, equal, differing in port / link / link kind / length / order) x every Logix and attribute
          service incl. Multiple Service Packets.  Oracle = accept/refuse decision table of the statement.
          accept => reply and tag state equal the typed-array model (vp/model.py);
          refuse => exactly one reply frame with a non-zero encapsulation or CIP status, tag snapshot unchanged
          and an Attribute subclass with counting __getitem__/__setitem__ saw zero accesses.
  text    structured route [(port, link)...] rendered as 'p/l', chained 'p/l/p/l', JSON list (of dicts, of
          'p/l' strings, of [p,l] pairs, mixed), JSON dict, with IPv4 / IPv6 address links, optionally followed
          by a CIP path: parse_route_path / port_link / parse_connection_path must return exactly the segments
          spelled; EPATH / route_path produce and parse of those segments agree with refcodec; the JSON texts
          0 / false / null / [] must yield a Falsey route path.
  client  cpppo's own client.unconnected_send (frame captured, no network) given a textual / structured /
          Falsey route_path and a send_path: the frame, decoded by refcodec, carries the Unconnected Send
          wrapper iff the documentation says so and exactly the route path spelled; the frame is then served
          by a device whose personality was configured from text the way main() does it, and the
          accept/refuse decision must follow the table.
  stream  cpppo's own connector.issue() (frames captured, no network) given a stream of 2..10 operations, each
          with its own textual / structured route_path and send_path, with and without Multiple Service Packet
          bundling: every operation must travel, in order, in a frame whose Unconnected Send carries exactly the
          route path and send path that operation spells (a bundle never mixes paths).
  cli     enip.main.main() on a TCP socket, configured with --route-path <text> / -S / --simple / nothing,
          one forked process per configuration: same decision table, model replies, unchanged tags and zero
          counted accesses on refusal.
"""
from __future__ import annotations

import ipaddress
import json
import os
import pickle
import re
import traceback

from hypothesis import strategies as st

from .. import common, model as M, refcodec as rc, sim, tagcheck
from ..common import Stats

PID = 'C15'
LEVEL = 'exploration'
RULE = ('filter: case = tag configuration + UCMM personality (none | simple False/0 | one segment numeric link | one '
        'segment IPv4/IPv6 link | 2-3 segments; set as class attribute directly or through parse_route_path(text) as '
        'main() does) + 1..4 requests, each = route path kind (absent, empty, equal, port/link/link-kind changed, '
        'segment appended, dropped/prepended, swapped/other) x service (Read/Write Tag [Fragmented], Get/Set '
        'Attribute Single, Get Attributes All, Get Attribute List, Multiple Service Packet of reads / writes / mixed); '
        'the (personality x route kind x service) grid is enumerated completely (first request of a case), values and '
        'following requests are drawn; non-trivial = a case holding a request with a route path present and '
        'different from the configured one (or any present path on a simple device) that carries a write service; '
        'text: case = 1..4 (port, link) segments x text form x optional CIP path trailer, or a Falsey JSON text; '
        'client: case = server personality text x client route_path/send_path x request; stream: case = 2..10 client operations each with its own route path text (palette of 2-3 paths) x multiple in {0,100,150,250,500,4000}; cli: case = command line x '
        'requests over TCP')
ASSUMPTIONS = [
    'decision table (statement): no configuration => accept every route path; simple => accept iff the request has no '
    'Unconnected Send wrapper or an empty route path; configured P => accept iff absent/empty or segment-wise equal to P '
    '(same length, same ports, same links, a numeric link differs from a string link spelling the same digits)',
    'an accepted request must behave as the typed-array model says (valid in-bounds same-type requests only, so every '
    'accepted request succeeds); a refused request must produce exactly one reply frame whose encapsulation status or '
    'CIP general status is non-zero',
    '"tag access" = Attribute.__getitem__ / __setitem__ (every service reads through produce()/[] and writes through '
    '[]=), counted by a subclass injected through the public attribute_class parameter; direct .value reads are not counted',
    'a bare (unwrapped) Read Tag Fragmented is never sent: service 0x52 is documented as indistinguishable from an '
    'Unconnected Send; with an absent route path it is carried in a one-member Multiple Service Packet instead',
    'Get Attribute List reply layout is judged leniently (with or without the leading attribute count): its wire layout '
    'is not part of this property',
    'ports 1..65535, numeric links 0..255, address links are IPv4 dotted quads or IPv6 addresses; a non-canonical IPv6 '
    'spelling denotes its canonical form as computed by the standard library ipaddress module (trusted base)',
    'text forms generated: those documented in README.org / parse_route_path / port_link / parse_connection_path '
    'docstrings; trailing symbolic CIP paths contain no "/" or ":" and are not integers or addresses (documented ambiguity)',
    'configuration file: "[UCMM] Route Path" is documented (cpppo.cfg, ucmm.py) as a default used only when no personality is given '
    'at run time (null = any, false/0 = simple); exercised through --config <file> next to -S / --simple / --route-path',
    'main() restricts --route-path to one segment, so multi-segment personalities are exercised in-process only; '
    '--route-path 0 / false are documented (README.org, --help) as the simple personality; "null" is not used on the '
    'command line (main.py comment and ucmm.py comment disagree about it)',
    'client clause captures the frame by overriding client.send on a UDP client object that never transmits',
    'requests are encoded and replies decoded by the independent reference codec (vp/refcodec.py)',
]
MIN_EVALUATIONS = {'quick': 2500, 'thorough': 30000}

PERSONALITIES = ('none', 'simple', 'single_num', 'single_addr', 'multi')
ROUTE_KINDS = ('absent', 'empty', 'equal', 'port', 'link', 'linkkind', 'append', 'drop_or_prepend', 'swap_or_other')
SERVICES = ('read_tag', 'read_frag', 'write_tag', 'write_frag', 'get_attr', 'set_attr', 'get_attrs_all', 'get_attr_list',
            'multi_read', 'multi_write', 'multi_mixed')
WRITE_SERVICES = ('write_tag', 'write_frag', 'set_attr', 'multi_write', 'multi_mixed')
FALSEY_TEXTS = ('0', 'false', 'null', '[]')
CM_PATH = [{'class': 6}, {'instance': 1}]

# ------------------------------------------------------------------------------------------------
# structured route paths: [[port, link], ...]; link int (numeric) or str (address)


def segs_of(path):
    return [{'port': p, 'link': l} for p, l in path]


def same_path(a, b):
    """Segment-wise equality with link kinds kept apart (5 != '5')."""
    if len(a) != len(b):
        return False
    for (pa, la), (pb, lb) in zip(a, b):
        if pa != pb or type(la) is not type(lb) or la != lb:
            return False
    return True


def plain_segments(found):
    """cpppo result -> comparable [(sorted items with type names)] or a description of what is wrong."""
    out = []
    for s in found:
        if not isinstance(s, dict):
            out.append(('not-a-dict', repr(s)))
            continue
        out.append(tuple(sorted((str(k), type(v).__name__, v) for k, v in dict.items(s))))
    return out


def plain_expected(segments):
    return [tuple(sorted((k, type(v).__name__, v) for k, v in s.items())) for s in segments]


PORTS = [1, 1, 1, 2, 2, 3, 5, 14, 15, 16, 255, 256, 4660, 65535]
IPV4 = ['1.2.3.4', '192.168.1.2', '10.0.0.1', '255.255.255.255', '0.0.0.0', '127.0.0.1']
IPV6 = ['::1', '2001:db8::1', 'fe80::1:2:3', '::', '2001:db8:0:1:1:1:1:1', 'ff02::2']


def port_st():
    return st.one_of(st.sampled_from(PORTS), st.sampled_from(PORTS), st.integers(1, 14), st.integers(1, 65535))


def numeric_link_st():
    return st.one_of(st.integers(0, 15), st.integers(0, 255), st.sampled_from([0, 1, 255]))


def address_link_st():
    return st.one_of(st.sampled_from(IPV4), st.sampled_from(IPV6), st.ip_addresses(v=4).map(str),
                     st.ip_addresses(v=6).map(str))


def link_st():
    return st.one_of(numeric_link_st(), address_link_st())


def seg_st():
    return st.tuples(port_st(), link_st()).map(list)


@st.composite
def personality_st(draw, kind=None):
    kind = kind or draw(st.sampled_from(PERSONALITIES))
    pers = {'kind': kind, 'path': None, 'via': 'attr'}
    if kind == 'none':
        pers['via'] = draw(st.sampled_from(['default', 'attr']))      # no UCMM class at all / subclass with None
    elif kind == 'simple':
        pers['falsy'] = draw(st.sampled_from(['False', '0']))
    else:
        if kind == 'single_num':
            path = [[draw(port_st()), draw(numeric_link_st())]]
        elif kind == 'single_addr':
            path = [[draw(port_st()), draw(address_link_st())]]
        else:
            path = draw(st.lists(seg_st(), min_size=2, max_size=3))
        pers['path'] = path
        pers['via'] = draw(st.sampled_from(['attr', 'text']))
        if pers['via'] == 'text':
            forms = ['slash', 'json_dicts', 'json_strs', 'json_mixed'] + (['json_dict'] if len(path) == 1 else [])
            pers['form'] = draw(st.sampled_from(forms))
    return pers


@st.composite
def route_st(draw, pers, rk):
    """-> (wrap, route) for route kind rk relative to the personality's path (or to a drawn base path)."""
    if rk == 'absent':
        return False, None
    if rk == 'empty':
        return True, []
    base = pers['path']
    if base is None:
        base = draw(st.lists(seg_st(), min_size=1, max_size=2))
    path = [list(s) for s in base]
    i = draw(st.integers(0, len(path) - 1))
    if rk == 'equal':
        pass
    elif rk == 'port':
        path[i][0] = draw(port_st().filter(lambda p: p != path[i][0]))
    elif rk == 'link':
        old = path[i][1]
        if isinstance(old, int):
            path[i][1] = (old + draw(st.integers(1, 255))) % 256
        else:
            path[i][1] = draw(address_link_st().filter(lambda a: a != old))
    elif rk == 'linkkind':
        old = path[i][1]
        path[i][1] = str(old) if isinstance(old, int) else draw(numeric_link_st())
    elif rk == 'append':
        path.append(draw(st.one_of(seg_st(), st.just(list(path[-1])))))
    elif rk == 'drop_or_prepend':
        if len(path) > 1:
            path.pop(draw(st.sampled_from([0, len(path) - 1])))
        else:
            path.insert(0, draw(st.one_of(seg_st(), st.just(list(path[0])))))
    elif rk == 'swap_or_other':
        rev = path[::-1]
        path = rev if not same_path(rev, path) else draw(st.lists(seg_st(), min_size=1, max_size=3))
    else:
        raise AssertionError(rk)
    return True, path


def decide(pers, wrap, route):
    """The statement's decision table."""
    if pers['kind'] == 'none':
        return 'accept'
    if not wrap or not route:
        return 'accept'
    if pers['kind'] == 'simple':
        return 'refuse'
    return 'accept' if same_path(route, pers['path']) else 'refuse'


# ------------------------------------------------------------------------------------------------
# text rendering (harness side; the inverse direction of what is under test)


def seg_text(seg):
    return '%d/%s' % (seg[0], seg[1])


def render_route(path, form, compact=False, link_first=False):
    def d(seg):
        return {'link': seg[1], 'port': seg[0]} if link_first else {'port': seg[0], 'link': seg[1]}
    kw = {'separators': (',', ':')} if compact else {}
    if form == 'slash':
        return '/'.join(seg_text(s) for s in path)
    if form == 'json_dicts':
        return json.dumps([d(s) for s in path], **kw)
    if form == 'json_strs':
        return json.dumps([seg_text(s) for s in path], **kw)
    if form == 'json_pairs':
        return json.dumps([list(s) for s in path], **kw)
    if form == 'json_mixed':
        return json.dumps([d(s) if i % 2 else seg_text(s) for i, s in enumerate(path)], **kw)
    if form == 'json_dict':
        assert len(path) == 1
        return json.dumps(d(path[0]), **kw)
    raise AssertionError(form)


TRAILER_TAGS = ['Tag', 'SCADA', 'Motor.Speed', 'T1', 'q', 'scada_2', 'x.y.z', 'Caf\xe9']


@st.composite
def trailer_st(draw):
    if draw(st.booleans()):
        ids = [draw(st.sampled_from([1, 2, 6, 0x93, 0xFF, 0x100, 0x3E8, 0xFFFF])), draw(st.sampled_from([1, 2, 255, 256, 65535]))]
        if draw(st.booleans()):
            ids.append(draw(st.sampled_from([1, 7, 255])))
        return {'kind': 'num', 'ids': ids, 'hex': draw(st.booleans())}
    return {'kind': 'sym', 'tag': draw(st.sampled_from(TRAILER_TAGS)),
            'elem': draw(st.one_of(st.none(), st.sampled_from([0, 3, 255, 256, 70000])))}


def trailer_text(tr):
    if tr['kind'] == 'num':
        fmt = '0x%X' if tr['hex'] else '%d'
        return '@' + '/'.join(fmt % v for v in tr['ids'])
    return tr['tag'] + ('[%d]' % tr['elem'] if tr['elem'] is not None else '')


def trailer_segments(tr):
    if tr['kind'] == 'num':
        return [{k: v} for k, v in zip(('class', 'instance', 'attribute'), tr['ids'])]
    segs = [{'symbolic': part} for part in tr['tag'].split('.')]
    if tr['elem'] is not None:
        segs.append({'element': tr['elem']})
    return segs


def noncanonical(addr, how):
    """Another spelling of an IPv6 address (expanded / upper case); IPv4 stays as it is."""
    ip = ipaddress.ip_address(addr)
    if ip.version != 6 or how == 'canonical':
        return addr
    return ip.exploded if how == 'exploded' else addr.upper()


@st.composite
def text_case_st(draw):
    if draw(st.integers(0, 24)) == 0:
        return {'falsey': draw(st.sampled_from(FALSEY_TEXTS))}
    if draw(st.integers(0, 19)) == 0:
        lo = draw(st.integers(0, 250))
        return {'range': [draw(st.integers(1, 300)), lo, lo + draw(st.integers(0, 20))]}
    path = draw(st.lists(seg_st(), min_size=1, max_size=4))
    forms = ['slash', 'slash', 'json_dicts', 'json_strs', 'json_pairs', 'json_mixed'] + (['json_dict'] if len(path) == 1 else [])
    case = {'path': path, 'form': draw(st.sampled_from(forms)), 'compact': draw(st.booleans()),
            'link_first': draw(st.booleans()), 'ipv6': draw(st.sampled_from(['canonical', 'canonical', 'exploded', 'upper'])),
            'trailer': draw(st.one_of(st.none(), trailer_st())),
            'trailer_as': draw(st.sampled_from(['text', 'segments']))}
    return case


# ------------------------------------------------------------------------------------------------
# cpppo access (imported lazily: the import root is chosen by the wrapper)

_CP = {}


def cp():
    if not _CP:
        import cpppo
        from cpppo.server.enip import client, device, parser, ucmm
        _CP.update(cpppo=cpppo, client=client, device=device, parser=parser, ucmm=ucmm)

        class CountingAttribute(device.Attribute):
            """Records every element read / write made through the Attribute interface."""
            accesses = []

            def __getitem__(self, key):
                CountingAttribute.accesses.append(['get', self.name, repr(key)])
                return super(CountingAttribute, self).__getitem__(key)

            def __setitem__(self, key, value):
                CountingAttribute.accesses.append(['set', self.name, repr(key)])
                return super(CountingAttribute, self).__setitem__(key, value)

        _CP['counting'] = CountingAttribute
    return _CP


def take_accesses():
    ca = cp()['counting']
    out = list(ca.accesses)
    del ca.accesses[:]
    return out


def machine_parse(cls, raw):
    """Run a cpppo parser machine over raw -> (data, remaining symbol or None)"""
    c = cp()
    data = c['cpppo'].dotdict()
    source = c['cpppo'].peekable(bytes(raw))
    with cls(context='p') as machine:
        for _m, _s in machine.run(source=source, data=data):
            pass
    return data, source.peek()


def configured_route_path(pers):
    """The value of UCMM.route_path for a personality -- built directly, or from text exactly as main() does
    (device.parse_route_path( args.route_path )).  -> (value, text or None)"""
    if pers['kind'] == 'none':
        return None, None
    if pers['kind'] == 'simple':
        return (0 if pers.get('falsy') == '0' else False), None
    if pers.get('via') == 'text':
        text = render_route(pers['path'], pers.get('form', 'slash'))
        return cp()['device'].parse_route_path(text), text
    return segs_of(pers['path']), None


def ucmm_class_for(value, route=None):
    base = cp()['ucmm'].UCMM

    class UCMM(base):       # the class name selects the [UCMM] configuration section, as in main()
        route_path = value
    if route:
        UCMM.route = dict(route)        # a route table whose hops no generated request uses: it must not change any local decision
    return UCMM


# ------------------------------------------------------------------------------------------------
# tag configurations and requests


def _clean_names(names):
    keep = []
    for nm in names:
        low = nm.lower()
        if any(low == k.lower() or low.startswith(k.lower() + '.') or k.lower().startswith(low + '.') for k in keep):
            continue
        keep.append(nm)
    for extra in ('A', 'b', 'T1'):
        if len(keep) >= 3:
            break
        if all(extra.lower() != k.lower() for k in keep):
            keep.append(extra)
    return keep


@st.composite
def specs_st(draw, all_addressed=False):
    """3..5 tags; the first two share one object instance as attributes 1 and 2 (Get Attributes All / List
    target); the first has a fixed-size element type (Set Attribute Single target)."""
    names = _clean_names(draw(st.lists(st.sampled_from(tagcheck.NAME_POOL), min_size=3, max_size=5,
                                       unique_by=lambda s: s.lower())))
    cls = draw(st.sampled_from([0x93, 0x94, 0x104, 0x3E8]))
    ins = draw(st.sampled_from([1, 1, 2, 300]))
    specs = [{'name': names[0], 'type': draw(st.sampled_from(M.FIXED_TYPES)), 'length': draw(st.integers(1, 6)),
              'address': [cls, ins, 1]},
             {'name': names[1], 'type': draw(st.sampled_from(M.ALL_TYPES)), 'length': draw(st.integers(1, 4)),
              'address': [cls, ins, 2]}]
    used = set()
    for nm in names[2:]:
        address = None
        if all_addressed or draw(st.booleans()):
            addr = (draw(st.sampled_from([0xFE, 0xFFFF])), 1, draw(st.integers(1, 6)))
            if addr not in used:
                used.add(addr)
                address = list(addr)
        if all_addressed and address is None:
            continue
        specs.append({'name': nm, 'type': draw(st.sampled_from(M.ALL_TYPES)),
                      'length': draw(st.one_of(st.just(1), st.integers(2, 12))), 'address': address})
    return specs


def value_st(t):
    if t in M.STRING_TYPES:
        return st.one_of(st.sampled_from(['', 'a', 'ab', 'abc']),
                         st.text(st.characters(min_codepoint=1, max_codepoint=255), max_size=12))
    return tagcheck.value_of(t)


@st.composite
def op_st(draw, specs, svc):
    """One valid (in-bounds, same-type) request of service svc."""
    cands = [s for s in specs if s['type'] in M.FIXED_TYPES] if svc == 'set_attr' else list(specs)
    s = draw(st.sampled_from(cands))
    t, L = s['type'], s['length']
    op = {'svc': svc, 'tag': s['name'], 'form': draw(st.sampled_from(['sym', 'sym', 'num'])),
          'case': draw(st.sampled_from([0, 0, 0xFFFF, 0x5555]))}
    if svc in ('get_attr', 'set_attr'):
        op['form'] = 'num'
        op['elem'] = None
        if svc == 'set_attr':
            op['values'] = draw(st.lists(value_st(t), min_size=L, max_size=L))
        return op
    e = draw(st.integers(0, L - 1))
    n = draw(st.integers(1, L - e))
    op['elem'] = e if (e or draw(st.booleans())) else None
    op['count'] = n
    fixed = t in M.FIXED_TYPES
    if svc == 'read_frag':
        op['offset'] = draw(st.integers(0, n - 1)) * rc.tsize(t) if (fixed and n > 1 and draw(st.booleans())) else 0
    elif svc in ('write_tag', 'write_frag'):
        op['type'] = t
        nvals = n
        if svc == 'write_frag':
            k = draw(st.integers(0, n - 1)) if (fixed and n > 1) else 0
            op['offset'] = k * rc.tsize(t) if fixed else 0
            nvals = draw(st.integers(1, n - k))
        op['values'] = draw(st.lists(value_st(t), min_size=nvals, max_size=nvals))
    return op


@st.composite
def single_req_st(draw, specs, svc):
    if svc == 'get_attrs_all':
        return {'kind': 'gaa', 'addr': specs[0]['address'][:2]}
    if svc == 'get_attr_list':
        return {'kind': 'gal', 'addr': specs[0]['address'][:2],
                'attrs': draw(st.sampled_from([[1], [2], [1, 2], [2, 1]]))}
    return {'kind': 'op', 'op': draw(op_st(specs, svc))}


MULTI_MEMBERS = {
    'multi_read': ['read_tag', 'read_frag', 'get_attr', 'get_attrs_all', 'get_attr_list'],
    'multi_write': ['write_tag', 'write_frag', 'set_attr'],
    'multi_mixed': ['read_tag', 'read_frag', 'write_tag', 'write_frag', 'get_attr', 'set_attr', 'get_attrs_all'],
}


@st.composite
def req_st(draw, specs, svc, wrap):
    if svc in MULTI_MEMBERS:
        kinds = draw(st.lists(st.sampled_from(MULTI_MEMBERS[svc]), min_size=1, max_size=4))
        if svc == 'multi_mixed' and len(kinds) > 1 and not (set(kinds) & set(MULTI_MEMBERS['multi_write'])):
            kinds[0] = 'write_tag'
        return {'kind': 'bundle', 'members': [draw(single_req_st(specs, k)) for k in kinds]}
    req = draw(single_req_st(specs, svc))
    if svc == 'read_frag' and not wrap:
        # documented ambiguity of a bare service 0x52: carry it in a one-member Multiple Service Packet
        return {'kind': 'bundle', 'members': [req], 'because': 'bare-0x52'}
    return req


@st.composite
def step_st(draw, specs, pers, rk=None, svc=None):
    rk = rk or draw(st.sampled_from(ROUTE_KINDS))
    svc = svc or draw(st.sampled_from(SERVICES))
    wrap, route = draw(route_st(pers, rk))
    return {'rk': rk, 'svc': svc, 'wrap': wrap, 'route': route, 'req': draw(req_st(specs, svc, wrap))}


@st.composite
def filter_case_st(draw, skey=None):
    """skey: None (free) or [personality kind, route kind, service] forcing the first request."""
    pk, rk, svc = skey if skey else (None, None, None)
    specs = draw(specs_st())
    pers = draw(personality_st(pk))
    steps = [draw(step_st(specs, pers, rk, svc))]
    for _ in range(draw(st.integers(0, 3))):
        steps.append(draw(step_st(specs, pers)))
    return {'specs': specs, 'pers': pers, 'steps': steps, 'table': draw(st.integers(0, 2)) == 0}


# ------------------------------------------------------------------------------------------------
# building and judging requests against the model


def attr_table(mdl, addr):
    """{attribute number: tag name} of the object instance addr=(class, instance) according to the model."""
    out = {}
    for name, tag in mdl.tags.items():
        a = tag['address']
        if a is not None and tuple(a[:2]) == tuple(addr):
            out.setdefault(a[2], name)
    return out


def tag_wire(mdl, name):
    tag = mdl.tags[name]
    return M.wire(tag['type'], tag['values'])


def build_message(req, mdl):
    kind = req['kind']
    if kind == 'op':
        op = req['op']
        tag = mdl.tags[mdl.lower[op['tag'].lower()]]
        return M.op_message(op, tag['type'], tag['address'])
    path = None if kind == 'bundle' else [{'class': req['addr'][0]}, {'instance': req['addr'][1]}]
    if kind == 'gaa':
        return rc.req_get_attributes_all(path)
    if kind == 'gal':
        return rc.req_get_attribute_list(path, req['attrs'])
    if kind == 'bundle':
        return rc.req_multiple([build_message(m, mdl) for m in req['members']])
    raise AssertionError(kind)


def judge_request(req, mdl, out):
    """Accepted request: compare the outcome with the model (and update the model) -> [(sig, detail)], wrote?"""
    kind = req['kind']
    if kind == 'op':
        op = req['op']
        exp = M.expect(mdl, op)
        problems = M.judge(mdl, op, exp, out)
        if exp['kind'] not in ('read', 'write', 'attr_read', 'attr_write'):
            raise common.HarnessError('generator produced a request the model does not call valid: %r -> %r' % (op, exp))
        return problems, bool(exp.get('took'))
    failed = out['kind'] != 'reply' or out['enip_status'] not in (0, None) or out['reply'] is None
    if failed:
        return [('session-failed-on-%s' % kind, {'outcome': out['kind'], 'enip_status': out['enip_status'],
                                                  'error': out.get('error')})], False
    rpy = out['reply']
    want_service = {'gaa': 0x81, 'gal': 0x83, 'bundle': 0x8A}[kind]
    if rpy['service'] != want_service:
        return [('reply-service-mismatch', {'reply': M._r(rpy), 'want': want_service})], False
    if kind in ('gaa', 'gal'):
        table = attr_table(mdl, req['addr'])
        if rpy['status'] != 0:
            return [('%s-refused' % kind, {'reply': M._r(rpy)})], False
        data = bytes(rpy['data'])
        if kind == 'gaa':
            want = b''
            a = 1
            while a in table:
                want += tag_wire(mdl, table[a])
                a += 1
            if data != want:
                return [('get-attributes-all-data', {'got': data.hex(), 'want': want.hex()})], False
            return [], False
        body = b''.join(a.to_bytes(2, 'little') + b'\x00\x00' + tag_wire(mdl, table[a]) for a in req['attrs'])
        if data not in (body, len(req['attrs']).to_bytes(2, 'little') + body):
            return [('get-attribute-list-data', {'got': data.hex(), 'want': body.hex(),
                                                 'or_with_count_prefix': True})], False
        return [], False
    # Multiple Service Packet
    if rpy['status'] not in (0x00, 0x1E):
        return [('multiple-refused', {'reply': M._r(rpy)})], False
    try:
        members = [rc.dec_mr_reply(m) for m in rc.dec_multiple_body(rpy['data'])]
    except rc.RefDecodeError as exc:
        return [('multiple-reply-undecodable', {'reply': M._r(rpy), 'error': str(exc)})], False
    if len(members) != len(req['members']):
        return [('multiple-reply-count', {'got': len(members), 'want': len(req['members'])})], False
    problems, wrote = [], False
    for i, (mreq, mrpy) in enumerate(zip(req['members'], members)):
        p, w = judge_request(mreq, mdl, {'kind': 'reply', 'enip_status': 0, 'reply': mrpy})
        problems.extend(('member:' + sig, dict(detail, member=i)) for sig, detail in p)
        wrote = wrote or w
    if not problems and rpy['status'] != 0:
        problems.append(('multiple-status-with-all-members-ok', {'reply': M._r(rpy)}))
    return problems, wrote


def outcome_of(kind, rpy):
    """Decode the result of dev.process / one TCP frame the way sim.Session.send does."""
    out = {'kind': kind, 'enip_status': None, 'reply': None, 'raw': rpy}
    if kind == 'reply':
        e = rc.dec_encap(rpy)
        out['enip_status'] = e['status']
        if e['status'] == 0:
            _e, m = rc.dec_rr_reply(rpy)
            out['reply'] = rc.dec_mr_reply(m)
    elif kind == 'error':
        out['error'] = '%s: %s' % (type(rpy).__name__, str(rpy)[:200])
        out['raw'] = None
    return out


def brief(out):
    return {'outcome': out['kind'], 'enip_status': out['enip_status'], 'error': out.get('error'),
            'reply': M._r(out['reply']) if out.get('reply') else None}


def pers_group(pers):
    return {'none': 'none', 'simple': 'simple'}.get(pers['kind'], 'configured')


def diff_class(pers, wrap, route):
    """How the request's route path relates to the configured one (computed from the structures, independent of how
    the generator derived it): absent | empty | present (nothing configured) | equal | length | port / link /
    link-kind (joined with '+' when several fields differ)."""
    if not wrap:
        return 'absent'
    if not route:
        return 'empty'
    if pers.get('path') is None:
        return 'present'
    conf = pers['path']
    if same_path(route, conf):
        return 'equal'
    if len(route) != len(conf):
        return 'length'
    fields = set()
    for (pa, la), (pb, lb) in zip(route, conf):
        if pa != pb:
            fields.add('port')
        if type(la) is not type(lb):
            fields.add('link-kind')
        elif la != lb:
            fields.add('link')
    return '+'.join(sorted(fields))


def judge_step(clause, case, stats, pers, step_info, decision, req, mdl, out, before, after, accesses, wrap, route):
    """Shared by filter / client / cli: apply the decision table to one request's outcome.
    -> True if the model is still in step with the device."""
    label = diff_class(pers, wrap, route)

    def fail(sig, observed, expected):
        stats.fail(clause, sig, case, observed=dict(observed, step=step_info, personality=pers, route_vs_configured=label),
                   expected=expected)

    if decision == 'accept':
        refused = out['kind'] != 'reply' or out['enip_status'] not in (0, None)
        if refused:
            fail('acceptable-route-path-refused:%s:%s' % (pers_group(pers), label), brief(out),
                 'request accepted (reply as the model says): the personality admits this route path')
            return False
        problems, _wrote = judge_request(req, mdl, out)
        for sig, detail in problems:
            fail('accepted:' + sig, {'detail': detail}, 'reply of an accepted request equals the typed-array model')
        if after != mdl.snapshot():
            diff = [n for n in after if after[n] != mdl.snapshot().get(n)]
            fail('accepted:state-differs-from-model', {'tags': diff, 'impl': {n: after[n][:12] for n in diff},
                                                       'model': {n: mdl.snapshot()[n][:12] for n in diff}},
                 'tag state after an accepted request equals the model')
            return False
        return not problems
    # refuse
    ok = True
    if out['kind'] != 'reply':
        fail('refused-without-error-reply:%s' % pers_group(pers), brief(out),
             'a refused request receives (one) reply carrying an error status')
        ok = False
    else:
        status_bad = out['enip_status'] not in (0, None) or (out['reply'] is not None and out['reply']['status'] != 0)
        if not status_bad:
            fail('mismatching-route-path-accepted:%s:%s' % (pers_group(pers), label), brief(out),
                 'refusal: a reply with a non-zero encapsulation or CIP status')
            ok = False
    if after != before:
        changed = [n for n in after if after[n] != before[n]]
        fail('refused-request-changed-tags:%s' % pers_group(pers), {'changed': changed, 'reply': brief(out)},
             'a refused request performs no tag access: all tags unchanged')
        ok = False
    if accesses:
        fail('refused-request-accessed-tags:%s' % pers_group(pers), {'accesses': accesses[:8], 'reply': brief(out)},
             'a refused request performs no tag access: zero Attribute __getitem__/__setitem__ calls')
        ok = False
    return ok and after == mdl.snapshot()


def is_write_req(req):
    if req['kind'] == 'op':
        return req['op']['svc'] in ('write_tag', 'write_frag', 'set_attr')
    if req['kind'] == 'bundle':
        return any(is_write_req(m) for m in req['members'])
    return False


# ------------------------------------------------------------------------------------------------
# clause: filter


def pred_filter(case, stats):
    c = cp()
    specs, pers, steps = case['specs'], case['pers'], case['steps']
    classes = {'pers:' + pers['kind'], 'pers-via:' + pers.get('via', 'attr')}
    nontrivial = False
    value, text = configured_route_path(pers)
    if pers.get('via') == 'text':
        want = plain_expected(segs_of(pers['path']))
        got = plain_segments(value) if isinstance(value, list) else repr(value)
        if got != want:
            stats.case(case, classes=sorted(classes))
            stats.fail('filter', 'configuration-text-denotes-other-segments', case,
                       observed={'text': text, 'parsed': got}, expected={'segments': want})
            return
    table = None
    if case.get('table'):
        used = {(st_['route'][0][0], st_['route'][0][1]) for st_ in steps if st_.get('route')} | (
            {(pers['path'][0][0], pers['path'][0][1])} if pers.get('path') else set())
        hop = next((p, l) for p in (60000, 60001, 60002, 60003) for l in (250, 251) if (p, l) not in used and (p, str(l)) not in used)
        table = {'%d/%d' % hop: '127.0.0.1:9', '%d/%d-%d' % (hop[0] + 10, 1, 3): '127.0.0.1:9'}
        classes.add('pers:with-unrelated-route-table')
    ucls = None if (pers['kind'] == 'none' and pers.get('via') == 'default' and not table) else ucmm_class_for(value, table)
    dev = sim.Device(specs, ucmm_class=ucls, attribute_class=c['counting'])
    try:
        mdl = M.Model(specs)
        tagcheck.numeric_addresses(dev, mdl)
        sess, port = None, 10001
        for i, step in enumerate(steps):
            wrap, route, req = step['wrap'], step['route'], step['req']
            decision = decide(pers, wrap, route)
            label = step['rk']
            classes.update(('route:' + label, 'svc:' + step['svc'], '%s:%s:%s' % (decision, pers['kind'], label),
                            '%s-svc:%s' % (decision, step['svc'])))
            if decision == 'refuse' and is_write_req(req):
                nontrivial = True
                classes.add('NT:refused-write')
            if req.get('because'):
                stats.exclude('bare Read Tag Fragmented (0x52 ambiguity): sent as one-member Multiple Service Packet')
            msg = build_message(req, mdl)
            if sess is None or not sess.alive:
                port += 1
                sess = sim.Session(dev, ('127.0.0.1', port))
            before = dev.snapshot()
            take_accesses()
            out = sess.send(msg, wrap=wrap, route_path=segs_of(route) if route else None)
            accesses = take_accesses()
            after = dev.snapshot()
            info = {'index': i, 'rk': label, 'svc': step['svc'], 'wrap': wrap, 'route': route}
            if not judge_step('filter', case, stats, pers, info, decision, req, mdl, out, before, after, accesses, wrap, route):
                break
        stats.case(case, nontrivial=nontrivial, classes=sorted(classes))
    finally:
        dev.close()


# ------------------------------------------------------------------------------------------------
# clause: text

FALSEY_SIG = 'falsey-json-route-path-raises'


def pred_text(case, stats):
    c = cp()
    device, parser, dotdict = c['device'], c['parser'], c['cpppo'].dotdict
    if 'falsey' in case:
        text = case['falsey']
        stats.case(case, nontrivial=True, classes=['text:falsey:' + text])
        try:
            got = device.parse_route_path(text)
        except Exception as exc:
            stats.fail('text', '%s:%s' % (FALSEY_SIG, type(exc).__name__), case,
                       observed={'text': text, 'raised': '%s: %s' % (type(exc).__name__, exc)},
                       expected='parse_route_path(%r) returns a Falsey route path (docstring: "A route path is None/0/False, '
                                'or list of port/link segments"; README: --route-path false)' % text)
            return
        if got:
            stats.fail('text', 'falsey-json-route-path-is-truthy', case, observed={'text': text, 'parsed': repr(got)},
                       expected='a Falsey value')
        return

    if 'range' in case:
        # route-table keys: "p/a-b" spells the hops p/a .. p/b, both ends included (cpppo.cfg: "1/3-7", "1/1-15")
        p_, a_, b_ = case['range']
        stats.case(case, nontrivial=b_ > a_, classes=['text:route-table-range'])
        got = [k for k, _v in c['ucmm'].port_link_expand([('%d/%d-%d' % (p_, a_, b_), 'host:1')])]
        want = ['%d/%d' % (p_, l) for l in range(a_, b_ + 1)]
        if got != want:
            stats.fail('text', 'route-table-range-denotes-other-hops', case, observed={'hops': got[:6] + ['...'] + got[-2:] if len(got) > 8 else got},
                       expected={'first': want[0], 'last': want[-1], 'count': len(want)})
        return

    path, form, tr = case['path'], case['form'], case['trailer']
    spelled = [[p, noncanonical(l, case['ipv6']) if isinstance(l, str) else l] for p, l in path]
    want_route = segs_of(path)      # canonical addresses: what the spelling denotes
    text = render_route(spelled, form, case['compact'], case['link_first'])
    kinds = {('addr6' if ':' in l else 'addr4') if isinstance(l, str) else 'num' for _p, l in path}
    classes = ['text:form:' + form, 'text:segments:%d' % len(path), 'text:trailer:' + (tr['kind'] if tr else 'none')]
    classes += ['text:link:' + k for k in sorted(kinds)]
    if any(p >= 15 for p, _l in path):
        classes.append('text:extended-port')
    if case['ipv6'] != 'canonical' and 'addr6' in kinds:
        classes.append('text:ipv6-' + case['ipv6'])
    stats.case(case, nontrivial=len(path) > 1 or bool(tr) or 'num' not in kinds or len(kinds) > 1, classes=classes)

    def check(api, call, want):
        try:
            got = call()
        except Exception as exc:
            stats.fail('text', 'text:%s:%s:raises-%s' % (api, form, type(exc).__name__), case,
                       observed={'text': text, 'raised': '%s: %s' % (type(exc).__name__, str(exc)[:200])},
                       expected={'segments': want})
            return None
        if not isinstance(got, list) or plain_segments(got) != plain_expected(want):
            stats.fail('text', 'text:%s:%s:other-segments' % (api, form), case,
                       observed={'text': text, 'parsed': plain_segments(got) if isinstance(got, list) else repr(got)},
                       expected={'segments': plain_expected(want)})
            return None
        return got

    check('parse_route_path', lambda: device.parse_route_path(text), want_route)
    check('parse_connection_path', lambda: device.parse_connection_path(text), want_route)
    if len(path) == 1:
        if form == 'slash':
            arg = text
        elif form == 'json_pairs':
            arg = list(spelled[0])
        else:
            arg = {'port': spelled[0][0], 'link': spelled[0][1]}
        check('port_link', lambda: [device.port_link(arg)], want_route)
    full = want_route
    if tr is not None and form != 'json_dict':
        tsegs = trailer_segments(tr)
        full = want_route + tsegs
        if form == 'slash':
            ctext = text + '/' + trailer_text(tr)
        else:
            items = json.loads(text)
            items += tsegs if case['trailer_as'] == 'segments' else [trailer_text(tr)]
            ctext = json.dumps(items)
        saved, text = text, ctext
        check('parse_connection_path+cip', lambda: device.parse_connection_path(ctext), full)
        text = saved
    # EPATH produce / parse of the spelled segments agree with the reference codec
    segments = [dotdict(s) for s in full]
    ref_plain, ref_padded = rc.enc_epath(full), rc.enc_epath(want_route, padded=True)
    for name, cls, arg, ref in (('EPATH', parser.EPATH, segments, ref_plain),
                                ('route_path', parser.route_path, {'segment': [dotdict(s) for s in want_route]}, ref_padded)):
        try:
            got = bytes(cls.produce(arg))
        except Exception as exc:
            stats.fail('text', 'epath:%s:produce-raises-%s' % (name, type(exc).__name__), case,
                       observed={'segments': full, 'raised': str(exc)[:200]}, expected={'bytes': ref.hex()})
            continue
        if got != ref:
            stats.fail('text', 'epath:%s:produce-differs-from-reference' % name, case,
                       observed={'segments': full, 'bytes': got.hex()}, expected={'bytes': ref.hex()})
        try:
            data, rest = machine_parse(cls, ref)
            found = data.get('p.segment')
        except Exception as exc:
            stats.fail('text', 'epath:%s:parse-raises-%s' % (name, type(exc).__name__), case,
                       observed={'bytes': ref.hex(), 'raised': str(exc)[:200]}, expected={'segments': full})
            continue
        want = full if name == 'EPATH' else want_route
        if rest is not None or not isinstance(found, list) or plain_segments(found) != plain_expected(want):
            stats.fail('text', 'epath:%s:parse-differs-from-reference' % name, case,
                       observed={'bytes': ref.hex(), 'segments': plain_segments(found) if isinstance(found, list) else repr(found),
                                 'unconsumed': rest is not None}, expected={'segments': plain_expected(want)})
    # and the reference decoder reads back what the reference encoder wrote (harness self-check)
    if rc.dec_segments(ref_plain[1:]) != full:
        raise common.HarnessError('refcodec does not round-trip %r' % (full,))


# ------------------------------------------------------------------------------------------------
# clause: client

_CAP = []


def capture_client():
    if not _CAP:
        client = cp()['client']

        class Capture(client.client):
            """A client that never transmits: frames handed to send() are kept."""

            def __init__(self):
                super(Capture, self).__init__('127.0.0.1', port=9, udp=True)
                self.frames = []

            def send(self, request, timeout=None):
                self.frames.append(bytes(request))

        _CAP.append(Capture())
    return _CAP[0]


@st.composite
def client_case_st(draw):
    specs = draw(specs_st())
    kind = draw(st.sampled_from(['none', 'simple', 'single_num', 'single_addr', 'single_num', 'single_addr', 'multi']))
    pers = draw(personality_st(kind))
    if pers['path'] is not None:
        pers['via'] = 'text'
        pers.setdefault('form', 'slash')
    how = draw(st.sampled_from(['default', 'falsy', 'falsy', 'equal', 'equal', 'port', 'link', 'linkkind', 'append',
                                'drop_or_prepend', 'swap_or_other', 'own_default', 'own_default']))
    cli = {'how': how, 'send_path': draw(st.sampled_from([None, None, '@6/1']))}
    if how == 'default':
        cli['route'] = None
    elif how == 'own_default':
        # the connector's own route_path_default (documented attribute) decides when the caller names no route path
        cli['route'] = None
        cli['own_default'] = draw(st.sampled_from(['False', '0', '[]', '1/3', '2/10.0.0.7']))
        if cli['own_default'] in ('False', '0', '[]'):
            cli['send_path'] = draw(st.sampled_from([None, '', '@6/1']))
    elif how == 'falsy':
        cli['route'] = draw(st.sampled_from(['False', '0', '[]']))
        cli['send_path'] = draw(st.sampled_from([None, '', '', '@6/1']))
    else:
        _wrap, route = draw(route_st(pers, how))
        for seg in route:
            # a string link made of digits cannot be spelled in text (it denotes the numeric link): use an address
            if isinstance(seg[1], str) and seg[1].isdigit():
                seg[1] = draw(address_link_st())
        cli['path'] = route
        forms = ['slash', 'json_dicts', 'json_strs', 'json_mixed', 'structured'] + (['json_dict'] if len(route) == 1 else [])
        cli['form'] = draw(st.sampled_from(forms))
    svc = draw(st.sampled_from(['read_tag', 'write_tag', 'write_tag', 'write_frag', 'get_attr', 'set_attr']))
    return {'specs': specs, 'pers': pers, 'client': cli, 'req': {'kind': 'op', 'op': draw(op_st(specs, svc))}}


def pred_client(case, stats):
    c = cp()
    specs, pers, cli, req = case['specs'], case['pers'], case['client'], case['req']
    # what the documentation of client.unconnected_send says will be sent
    own = None
    if cli['how'] == 'own_default':
        own = {'False': False, '0': 0, '[]': [], '1/3': '1/3', '2/10.0.0.7': '2/10.0.0.7'}[cli['own_default']]
        arg, eff = None, {'1/3': [[1, 3]], '2/10.0.0.7': [[2, '10.0.0.7']]}.get(cli['own_default'], [])
    elif cli['how'] == 'default':
        arg, eff = None, [[1, 0]]           # "The default route_path is the CPU in chassis (link 0), port 1"
    elif cli['how'] == 'falsy':
        arg, eff = {'False': False, '0': 0, '[]': []}[cli['route']], []
    else:
        eff = cli['path']
        arg = segs_of(eff) if cli['form'] == 'structured' else render_route(eff, cli['form'])
    send_path = cli['send_path']
    eff_send = CM_PATH if send_path in (None, '@6/1') else []
    wrapper = bool(eff) or bool(eff_send)
    decision = decide(pers, wrapper, eff)
    label = cli['how']
    classes = ['client:route:' + label, 'client:send_path:%r' % (send_path,), 'client:wrapper:%s' % wrapper,
               'client:%s:%s' % (decision, pers['kind'])]
    nontrivial = decision == 'refuse' and is_write_req(req)

    value, text = configured_route_path(pers)
    if pers.get('via') == 'text':
        want = plain_expected(segs_of(pers['path']))
        got = plain_segments(value) if isinstance(value, list) else repr(value)
        if got != want:
            stats.case(case, classes=classes)
            stats.fail('client', 'configuration-text-denotes-other-segments', case,
                       observed={'text': text, 'parsed': got}, expected={'segments': want})
            return
    ucls = None if (pers['kind'] == 'none' and pers.get('via') == 'default') else ucmm_class_for(value)
    dev = sim.Device(specs, ucmm_class=ucls, attribute_class=c['counting'])
    try:
        mdl = M.Model(specs)
        tagcheck.numeric_addresses(dev, mdl)
        msg = build_message(req, mdl)
        sess = sim.Session(dev, ('127.0.0.1', 10002))
        cap = capture_client()
        cap.session = sess.handle
        del cap.frames[:]
        stats.case(case, nontrivial=nontrivial, classes=classes)
        try:
            if cli['how'] == 'own_default':
                cap.route_path_default = own
            try:
                cap.unconnected_send(request=msg, route_path=arg, send_path=send_path, sender_context=b'C15')
            finally:
                cap.__dict__.pop('route_path_default', None)
        except Exception as exc:
            stats.fail('client', 'client:unconnected_send-raises-%s' % type(exc).__name__, case,
                       observed={'route_path': arg, 'send_path': send_path, 'raised': str(exc)[:200]},
                       expected='a frame carrying route path %r' % (eff,))
            return
        if len(cap.frames) != 1:
            raise common.HarnessError('capture client produced %d frames' % len(cap.frames))
        frame = cap.frames[0]
        # 1. the frame spells what the text spells
        try:
            e = rc.dec_encap(frame)
            sd = rc.dec_send_data(e['payload'])
            item = sd['items'][1][1]
            if item != msg and item[:1] == b'\x52':
                us = rc.dec_unconnected_send(item)
                seen = {'wrapper': True, 'route_path': us['route_path'], 'send_path': us['send_path'],
                        'message': us['message'].hex()}
            else:
                seen = {'wrapper': False, 'message': item.hex()}
        except (rc.RefDecodeError, IndexError, KeyError) as exc:
            stats.fail('client', 'client:frame-undecodable', case,
                       observed={'frame': frame.hex(), 'error': str(exc)}, expected='a SendRRData frame')
            return
        want_seen = ({'wrapper': True, 'route_path': segs_of(eff), 'send_path': eff_send, 'message': msg.hex()}
                     if wrapper else {'wrapper': False, 'message': msg.hex()})
        if seen != want_seen:
            stats.fail('client', 'client:frame-carries-other-route-path', case,
                       observed=dict(seen, route_path_argument=arg), expected=want_seen)
            return
        # 2. served by the configured personality
        before = dev.snapshot()
        take_accesses()
        kind, rpy = dev.process(sess.addr, frame)
        out = outcome_of(kind, rpy)
        accesses = take_accesses()
        after = dev.snapshot()
        info = {'client_route_path': arg, 'send_path': send_path, 'on_the_wire': eff if wrapper else 'no wrapper'}
        judge_step('client', case, stats, pers, info, decision, req, mdl, out, before, after, accesses, wrapper, eff)
    finally:
        dev.close()


# ------------------------------------------------------------------------------------------------
# clause: stream (client operation streams with per-operation textual route paths)

_CAPC = []


def capture_connector():
    if not _CAPC:
        client = cp()['client']

        class CaptureConnector(client.connector):
            """A connector that never transmits or registers: frames handed to send() are kept."""

            def __init__(self):
                client.client.__init__(self, '127.0.0.1', port=9, udp=True)
                self.session = 0x0C15
                self.frames = []

            def send(self, request, timeout=None):
                self.frames.append(bytes(request))

        _CAPC.append(CaptureConnector())
    return _CAPC[0]


@st.composite
def stream_case_st(draw):
    # a small palette of route paths (so that neighbours both repeat and differ), spelled in any text form per operation
    palette = draw(st.lists(st.lists(st.tuples(port_st(), st.one_of(numeric_link_st(), address_link_st())).map(list),
                                     min_size=1, max_size=2), min_size=2, max_size=3, unique_by=lambda p: json.dumps(p)))
    ops = []
    for _ in range(draw(st.integers(2, 10))):
        which = draw(st.integers(-1, len(palette) - 1))
        op = {'tag': draw(st.sampled_from(['A', 'B', 'SCADA', 'Motor.Speed'])), 'index': draw(st.integers(0, 9)),
              'write': draw(st.booleans()), 'value': draw(st.integers(-100, 100)), 'code': draw(st.integers(0, 4)) == 0,
              'send_path': draw(st.sampled_from([None, None, None, '@6/1']))}     # (a route path with an empty send path is refused by the client: documented assertion)
        if which >= 0:
            route = palette[which]
            for seg in route:
                if isinstance(seg[1], str) and seg[1].isdigit():
                    seg[1] = draw(address_link_st())
            forms = ['slash', 'slash', 'json_dicts', 'json_strs', 'structured'] + (['json_dict'] if len(route) == 1 else [])
            op['route'] = route
            op['form'] = draw(st.sampled_from(forms))
        ops.append(op)
    return {'ops': ops, 'multiple': draw(st.sampled_from([0, 100, 150, 250, 500, 4000])), 'fragment': draw(st.booleans())}


def pred_stream(case, stats):
    c = cp()
    client = c['client']
    cap = capture_connector()
    del cap.frames[:]
    cops, want = [], []
    for op in case['ops']:
        d = {'path': [{'symbolic': t} for t in op['tag'].split('.')] + [{'element': op['index']}], 'elements': 1}
        if op.get('code'):
            # the generic Service Code operation (here: Get Attribute Single spelled by its code) addressed to the tag's element
            d = {'path': d['path'], 'method': 'service_code', 'code': 0x0E, 'data_size': 4}
        elif op['write']:
            d.update(data=[op['value']], tag_type=rc.tcode('INT'), method='write')
        else:
            d.update(method='read')
        if 'route' in op:
            d['route_path'] = segs_of(op['route']) if op['form'] == 'structured' else render_route(op['route'], op['form'])
            eff = op['route']
        else:
            eff = [[1, 0]]
        if op['send_path'] is not None:
            d['send_path'] = op['send_path']
        eff_send = CM_PATH if op['send_path'] in (None, '@6/1') else []
        cops.append(d)
        want.append({'route_path': segs_of(eff), 'send_path': eff_send})
    changes = sum(1 for a, b in zip(want, want[1:]) if a != b)
    stats.case(case, nontrivial=bool(case['multiple']) and changes >= 1 and len(case['ops']) >= 3,
               classes=['stream:multiple:%d' % case['multiple'], 'stream:path-changes:%d' % min(changes, 3)])
    try:
        issued = list(cap.issue(cops, multiple=case['multiple'], fragment=case['fragment']))
    except Exception as exc:
        stats.fail('stream', 'stream:issue-raises-%s' % type(exc).__name__, case, observed=str(exc)[:300],
                   expected='one request per operation')
        return
    if len(issued) != len(cops):
        stats.fail('stream', 'stream:request-count', case, observed=len(issued), expected=len(cops))
        return
    pos = 0
    for fi, frame in enumerate(cap.frames):
        try:
            e = rc.dec_encap(frame)
            sd = rc.dec_send_data(e['payload'])
            item = sd['items'][1][1]
            us = rc.dec_unconnected_send(item)
            inner = rc.dec_mr_request(us['message'])
            if inner['service'] == 0x0A:
                members = rc.dec_multiple_body(inner['data'])
            else:
                members = [us['message']]
            paths = [rc.dec_mr_request(m)['path'] for m in members]
        except (rc.RefDecodeError, IndexError, KeyError) as exc:
            stats.fail('stream', 'stream:frame-undecodable', case, observed={'frame': frame.hex(), 'error': str(exc)},
                       expected='an Unconnected Send in a SendRRData frame')
            return
        seen = {'route_path': us['route_path'], 'send_path': us['send_path']}
        for k, mp in enumerate(paths):
            if pos >= len(cops):
                stats.fail('stream', 'stream:surplus-request-on-the-wire', case, observed={'frame': fi}, expected=len(cops))
                return
            if mp != cops[pos]['path']:
                stats.fail('stream', 'stream:request-order-or-path-differs', case,
                           observed={'frame': fi, 'member': k, 'path': mp}, expected={'operation': pos, 'path': cops[pos]['path']})
                return
            if seen != want[pos]:
                stats.fail('stream', 'stream:operation-carried-with-other-route-path', case,
                           observed=dict(seen, frame=fi, member=k, operation=pos, members=len(paths),
                                         spelled=cops[pos].get('route_path'), spelled_send=cops[pos].get('send_path')),
                           expected=want[pos])
                return
            pos += 1
    if pos != len(cops):
        stats.fail('stream', 'stream:operations-not-all-on-the-wire', case, observed=pos, expected=len(cops))
    stats.count('stream:frames', len(cap.frames))
    stats.count('stream:bundles-with-2+-members', sum(1 for f in cap.frames if b'\x0a\x02\x20\x02\x24\x01' in f))


# ------------------------------------------------------------------------------------------------
# clause: cli (one forked child process per case: the simulator keeps its state in module globals)


def in_child(fn, arg):
    """Run fn(arg) in a forked child (os.fork works inside daemonic pool workers too) -> its return value."""
    r, w = os.pipe()
    pid = os.fork()
    if pid == 0:
        code = 0
        try:
            os.close(r)
            try:
                payload = pickle.dumps(('ok', fn(arg)))
            except BaseException:
                payload = pickle.dumps(('err', traceback.format_exc()))
            with os.fdopen(w, 'wb') as f:
                f.write(payload)
        except BaseException:
            code = 3
        finally:
            os._exit(code)
    os.close(w)
    with os.fdopen(r, 'rb') as f:
        blob = f.read()
    os.waitpid(pid, 0)
    if not blob:
        raise common.HarnessError('cli child process died without a result')
    kind, val = pickle.loads(blob)
    if kind == 'err':
        raise common.HarnessError('cli child failed:\n%s' % val)
    return val


def _cli_child(case):
    c = cp()
    stats = Stats()
    specs, argv, pers, steps = case['specs'], case['argv'], case['pers'], case['steps']
    classes = {'cli:argv:' + (' '.join(argv[:1]) if argv else '(none)'), 'cli:pers:' + pers['kind']}
    cfgdir = None
    run_argv = list(argv)
    if case.get('config_text') is not None:
        # a configuration file ([UCMM] Route Path = ...) next to the command line: the file only supplies a default
        import tempfile
        cfgdir = tempfile.mkdtemp(prefix='vp-c15-cfg-')
        with open(os.path.join(cfgdir, 'vp.cfg'), 'w') as fh:
            fh.write('[UCMM]\nRoute Path = %s\n' % case['config_text'])
        run_argv = ['--config', os.path.join(cfgdir, 'vp.cfg')] + run_argv
        classes.add('cli:config-file')
    kw = {}
    if 'ucmm_kw' in case:
        # personality handed to main() programmatically (UCMM_class=...), as the library's own simple-device simulators do
        rp = case['ucmm_kw']
        kw['UCMM_class'] = type('UCMM', (c['ucmm'].UCMM,), {'route_path': False if rp is False else segs_of(rp)})
        classes.add('cli:UCMM_class-keyword')
    try:
        srv = sim.TcpServer(specs, extra_argv=run_argv, attribute_class=c['counting'], no_config=cfgdir is None, **kw)
    except (RuntimeError, AssertionError) as exc:
        stats.case(case, classes=sorted(classes))
        m = re.search(r'did not start: (\w+)\(', str(exc))
        etype = m.group(1) if m else type(exc).__name__
        falsey = len(argv) == 2 and argv[0] == '--route-path' and argv[1] in FALSEY_TEXTS
        sig = '%s:%s' % (FALSEY_SIG, etype) if falsey else 'cli:simulator-did-not-start:%s' % etype
        stats.fail('cli', sig, case, observed={'argv': argv, 'error': str(exc)[:300]},
                   expected='the simulator starts with the %s personality' % pers['kind'])
        return stats
    try:
        nontrivial = _cli_steps(srv, case, stats, classes)
        stats.case(case, nontrivial=nontrivial, classes=sorted(classes))
        # reduce each failure to the single request that showed it (fresh tag values, same server); the smaller
        # case replaces the larger one under the same signature and is directly replayable
        if stats.fails and len(steps) > 1:
            idxs = sorted({f.observed['step']['index'] for f in stats.fails.values()
                           if isinstance(f.observed, dict) and isinstance(f.observed.get('step'), dict)})
            for i in idxs:
                for sp in specs:
                    dflt = sim.tag_default(sp['type'])
                    srv.set_values(sp['name'], [dflt] * sp['length'])
                _cli_steps(srv, dict(case, steps=[steps[i]]), stats, set())
    finally:
        srv.stop()
        if cfgdir:
            import shutil
            shutil.rmtree(cfgdir, ignore_errors=True)
    return stats


def _cli_steps(srv, case, stats, classes):
    specs, argv, pers, steps = case['specs'], case['argv'], case['pers'], case['steps']
    mdl = M.Model(specs)
    nontrivial = False
    for i, step in enumerate(steps):
        wrap, route, req = step['wrap'], step['route'], step['req']
        decision = decide(pers, wrap, route)
        label = step['rk']
        classes.update(('cli:route:' + label, 'cli:svc:' + step['svc'], 'cli:%s:%s' % (decision, pers['kind'])))
        if decision == 'refuse' and is_write_req(req):
            nontrivial = True
        msg = build_message(req, mdl)
        ts = sim.TcpSession(srv, timeout=20.0)
        try:
            before = srv.snapshot()
            take_accesses()
            res = ts.send(msg, wrap=wrap, route_path=segs_of(route) if route else None)
            accesses = take_accesses()
            after = srv.snapshot()
        finally:
            ts.close()
        if res['kind'] == 'timeout':
            raise common.HarnessError('no reply from the TCP simulator within its timeout (inconclusive)')
        out = {'kind': res['kind'], 'enip_status': res['enip_status'], 'reply': res['reply']}
        info = {'index': i, 'rk': label, 'svc': step['svc'], 'wrap': wrap, 'route': route, 'argv': argv}
        if not judge_step('cli', case, stats, pers, info, decision, req, mdl, out, before, after, accesses, wrap, route):
            break
    return nontrivial


def pred_cli(case, stats):
    stats.merge(in_child(_cli_child, case))


def cli_config(argv_kind, path=None, form='slash'):
    """-> (argv, personality the documentation promises)"""
    if argv_kind == 'none':
        return [], {'kind': 'none', 'path': None}
    if argv_kind in ('-S', '--simple'):
        return [argv_kind], {'kind': 'simple', 'path': None}
    if argv_kind == 'falsey':
        return ['--route-path', path], {'kind': 'simple', 'path': None}
    if argv_kind == 'kw':
        if path is None:
            return [], {'kind': 'simple', 'path': None, 'ucmm_kw': False}
        kind = 'single_num' if isinstance(path[0][1], int) else 'single_addr'
        return [], {'kind': kind, 'path': path, 'ucmm_kw': path}
    if argv_kind.startswith('config'):
        # form = [config file text, command line ...]: documented (cpppo.cfg, ucmm.py): the configured Route Path is used only
        # if none is supplied at run time; null = any, false/0 = simple
        cfg_text, cmd = form[0], list(form[1:])
        if cmd:
            argv, pers = cli_config(*cmd)
            return argv, dict(pers, config_text=cfg_text)
        if cfg_text == 'null':
            return [], {'kind': 'none', 'path': None, 'config_text': cfg_text}
        if cfg_text in ('false', '0'):
            return [], {'kind': 'simple', 'path': None, 'config_text': cfg_text}
        kind = 'single_num' if isinstance(path[0][1], int) else 'single_addr'
        return [], {'kind': kind, 'path': path, 'config_text': cfg_text}
    kind = 'single_num' if isinstance(path[0][1], int) else 'single_addr'
    return ['--route-path', render_route(path, form)], {'kind': kind, 'path': path}


@st.composite
def cli_steps_st(draw, specs, pers, sweep):
    steps = []
    if sweep:
        for rk in ROUTE_KINDS:
            svc = draw(st.sampled_from(SERVICES))
            steps.append(draw(step_st(specs, pers, rk, svc)))
        steps.append(draw(step_st(specs, pers, 'equal', 'read_tag')))
    for _ in range(draw(st.integers(1, 4))):
        steps.append(draw(step_st(specs, pers)))
    # numeric addressing needs the attribute number: only explicitly addressed tags are used over TCP
    return steps


@st.composite
def cli_case_st(draw, skey=None):
    """skey: None (drawn single-segment configuration) or a fixed [argv_kind, path, form]."""
    specs = draw(specs_st(all_addressed=True))
    config_text = None
    ucmm_kw = 'absent'
    if skey:
        argv, pers = cli_config(*skey)
        config_text = pers.pop('config_text', None)
        ucmm_kw = pers.pop('ucmm_kw', None) if 'ucmm_kw' in pers else 'absent'
    else:
        path = [[draw(port_st()), draw(link_st())]]
        form = draw(st.sampled_from(['slash', 'json_dicts', 'json_dict', 'json_strs']))
        argv, pers = cli_config('route', path, form)
    case = {'specs': specs, 'argv': argv, 'pers': pers, 'steps': draw(cli_steps_st(specs, pers, True))}
    if config_text is not None:
        case['config_text'] = config_text
    if ucmm_kw != 'absent':
        case['ucmm_kw'] = ucmm_kw
    return case


CLI_FIXED = [
    ['none', None, 'slash'],
    ['-S', None, 'slash'],
    ['--simple', None, 'slash'],
    ['falsey', 'false', 'slash'],
    ['falsey', '0', 'slash'],
    ['falsey', '[]', 'slash'],
    ['route', [[1, 0]], 'slash'],
    ['route', [[1, 0]], 'json_dicts'],
    ['route', [[2, '192.168.1.2']], 'slash'],
    ['route', [[2, '192.168.1.2']], 'json_dict'],
    ['route', [[300, 15]], 'json_strs'],
    ['route', [[3, '2001:db8::1']], 'slash'],
    # configuration file x command line: the file's Route Path is a default only
    ['config', [[1, 0]], ['1/0']],                                   # file alone: the configured route path
    ['config', [[1, 0]], ['1/0', '-S', None, 'slash']],              # file + -S: simple
    ['config', [[1, 0]], ['1/0', '--simple', None, 'slash']],
    ['config', [[1, 0]], ['1/0', 'falsey', 'false', 'slash']],       # file + --route-path false: simple
    ['config', [[1, 0]], ['1/0', 'route', [[2, 5]], 'slash']],       # file + --route-path 2/5: the command line's
    ['config', None, ['false']],                                     # file says simple
    ['config', None, ['null']],                                      # file says any
    ['kw', None, 'slash'],                                           # main(UCMM_class=<route_path False>): simple
    ['kw', [[1, 3]], 'slash'],                                       # main(UCMM_class=<route_path 1/3>)
]


# ------------------------------------------------------------------------------------------------
# running

CLAUSES = {'filter': pred_filter, 'text': pred_text, 'client': pred_client, 'cli': pred_cli, 'stream': pred_stream}
STRATEGIES = {
    'filter': lambda skey: filter_case_st(skey),
    'text': lambda skey: text_case_st(),
    'client': lambda skey: client_case_st(),
    'stream': lambda skey: stream_case_st(),
}
# (cli failures are not re-run under Hypothesis: every evaluation starts a TCP simulator in a forked process; the
#  predicate itself reduces a failing case to the single failing request)

GRID = [[pk, rk, svc] for pk in PERSONALITIES for rk in ROUTE_KINDS for svc in SERVICES]


def shard_grid(job):
    seed, idx, nsh, reps = job
    s = Stats()
    for g in range(idx, len(GRID), nsh):
        common.hyp_run(s, filter_case_st(GRID[g]), pred_filter, reps, common.shard_seed(seed, 1000 + g), 'filter', PID,
                       skey=GRID[g])
    return s


def shard_free(job):
    seed, idx, n_filter, n_text, n_client = job
    s = Stats()
    common.hyp_run(s, filter_case_st(None), pred_filter, n_filter, common.shard_seed(seed, idx), 'filter', PID, skey=None)
    common.hyp_run(s, text_case_st(), pred_text, n_text, common.shard_seed(seed, 100 + idx), 'text', PID, skey=None)
    common.hyp_run(s, client_case_st(), pred_client, n_client, common.shard_seed(seed, 200 + idx), 'client', PID, skey=None)
    common.hyp_run(s, stream_case_st(), pred_stream, n_client * 2, common.shard_seed(seed, 400 + idx), 'stream', PID, skey=None)
    return s


def shard_cli(job):
    seed, idx, skey, n = job
    s = Stats()
    common.hyp_run(s, cli_case_st(skey), pred_cli, n, common.shard_seed(seed, 300 + idx), 'cli', PID, skey=skey)
    return s


def shard_falsey(job):
    s = Stats()
    for t in FALSEY_TEXTS:
        common.run_pred(pred_text, {'falsey': t}, s, 'text')
    return s


def shard(job):
    return {'grid': shard_grid, 'free': shard_free, 'cli': shard_cli, 'falsey': shard_falsey}[job[0]](job[1])


def run(tier, seed):
    thorough = tier == 'thorough'
    stats = Stats()
    nsh = 32
    reps = 20 if thorough else 2
    # (the first case Hypothesis generates in every run is the all-minimal one: never fewer than 2 per grid cell /
    # 3 per command line)
    if thorough:
        free = [(seed, i, 400, 2500, 300) for i in range(32)]
        cli = [(seed, i, k, 6) for i, k in enumerate(CLI_FIXED)] + [(seed, 50 + i, None, 6) for i in range(20)]
    else:
        free = [(seed, i, 30, 100, 30) for i in range(16)]
        cli = [(seed, i, k, 3) for i, k in enumerate(CLI_FIXED)] + [(seed, 50 + i, None, 3) for i in range(4)]
    jobs = ([('cli', j) for j in cli] + [('falsey', 0)] + [('free', j) for j in free]
            + [('grid', (seed, i, nsh, reps)) for i in range(nsh)])
    common.parallel(shard, jobs, stats=stats)
    stats.exhaustive['filter-grid'] = ('every (personality kind, route path kind, service) triple of %d x %d x %d = %d is the '
                                       'first request of %d drawn cases (values, tags, ports, links drawn)'
                                       % (len(PERSONALITIES), len(ROUTE_KINDS), len(SERVICES), len(GRID), reps))
    stats.exhaustive['text-falsey'] = 'the JSON texts %s' % (', '.join(FALSEY_TEXTS),)
    stats.exhaustive['cli-fixed'] = 'command lines: %s' % ('; '.join(
        (('[config file Route Path = %s] ' % cli_config(*k)[1]['config_text']) if 'config_text' in cli_config(*k)[1] else '') +
        (' '.join(cli_config(*k)[0]) or '(none)') for k in CLI_FIXED),)
    return stats
