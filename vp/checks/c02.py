"""
C02 -- message framing ignores stream segmentation; an incomplete frame has no effect.

Three engines (DESIGN.md "### C02"):

(a) framer, in-process.  A stream of 1..5 frames encoded by the reference codec (payload lengths 0, 1, typical,
    > 4096) plus an optional partial trailing frame is fed to ONE enip_machine over ONE chainable source with
    exactly the protocol of enip_srv_tcp's receive loop: run() re-created per frame on the same source, the
    next received chunk chain()ed only when the engine yields a non-transition (and source.peek() is None, or --
    the zero-timeout recv the server performs when input is still pending -- eagerly), b'' chained once at
    end-of-stream.  Chunkings: every two-way split, byte-at-a-time, one chunk, recv()-sized blocks, and
    Hypothesis-drawn k-way splits biased to the length field / sender context / frame boundaries.
    Oracle: every parsed frame (all header fields, .input) equals refcodec.dec_encap of that frame, consumes
    exactly 24+length, source.sent is the running total; the partial tail never yields a completed parse.
(b) client side.  The same kind of streams (reply vocabulary a client can parse) are written chunk by chunk by a
    harness-owned listening socket to a real cpppo client.client, polled under its documented protocol
    (next() again after a None only once readable()).  Same oracle, plus the full parsed reply is identical to
    the one obtained when the stream arrives in one piece.
(c) server crash points over TCP.  A request stream of 1..4 Write Tag requests with distinct values is sent up
    to EVERY truncation offset k, the sender half-closes and reads until EOF.  Oracle: number of complete reply
    frames == number of request frames wholly inside stream[:k], each reply answers its own request in order,
    the tags (in-process inspection) equal the typed-array model after exactly those frames, an already open
    witness session then reads the affected tag correctly and a new session can register.
"""
from __future__ import annotations

import contextlib
import multiprocessing
import os
import socket
import time
import struct
import traceback

from hypothesis import strategies as st

from .. import common, model, sim
from .. import refcodec as rc
from ..common import HarnessError, Stats, hx, unhx

PID = 'C02'
LEVEL = 'fault_enumeration'
RULE = ('(a)/(b) case = byte stream of 1..5 reference-encoded encapsulation frames (payload 0, 1, 2..80, >4096 bytes; '
        'random header fields) + optional partial trailing frame x one chunking (each two-way split enumerated, '
        'byte-at-a-time, one chunk, 4096-byte blocks, Hypothesis k-way cuts biased to length field / sender context / '
        'frame boundaries) fed to enip_machine with the server\'s own receive-loop protocol, resp. written chunk by chunk '
        'to a real client.client; (c) case = stream of 1..4 Write Tag requests (distinct values/elements) x one truncation '
        'offset k (all k enumerated) sent over TCP to the simulator, then half-close.  Non-trivial = a chunk boundary '
        'falls inside an encapsulation header, or one chunk holds bytes of >= 2 frames; for (c) the truncation falls '
        'strictly inside a frame')
ASSUMPTIONS = [
    'expected frame content comes from vp.refcodec.dec_encap (struct only); a zero-length payload may be reported '
    'as an absent or an empty .input',
    'the in-process feeder re-implements the receive loop of enip_srv_tcp (main.py:732-785): it cannot see a defect '
    'in that loop itself -- engine (c) exercises the real loop over TCP',
    'client polling protocol: next() may be called again after a None result only when readable() reports input '
    '(await_response does exactly this); calling it without input mid-frame is documented misuse',
    'client reply vocabulary: Register reply, status-only frames without payload, Unregister-with-payload (the only '
    '1-byte payload the client CIP parser accepts), SendRRData replies (read/write/get-attribute/error, incl. a read '
    'reply > 4096 bytes); arbitrary payloads are used only against the framer, which does not look inside them',
    'kernel segmentation is emulated by send boundaries with the receiver drained in between (TCP_NODELAY both sides); '
    'coalescing by the kernel only reduces variety, the oracle does not depend on the chunking',
    'TCP: a socket timeout (30 s) is inconclusive (HarnessError), never a violation; tags are reset in-process with '
    'server.set_values between offsets; the encapsulation session handle comes from a completed Register exchange',
    'the end of the request stream after a partial frame may surface as any exception of the parser (the server '
    'closes the connection); only a completed parse / a reply / a tag change is a violation',
]
MIN_EVALUATIONS = {'quick': 8000, 'thorough': 100000}

TMO = 30.0                  # generous socket timeout; expiry => HarnessError (inconclusive)
RECV_BLOCK = 4096           # network.recv maxlen

# ------------------------------------------------------------------------------------------------
# streams


def payload_bytes(p):
    if 'hex' in p:
        return unhx(p['hex'])
    if 'pat' in p:
        start, step, n = p['pat']
        return bytes((start + step * i) & 0xFF for i in range(n))
    if 'tpat' in p:            # typed read data: type code + pattern
        t, start, step, n = p['tpat']
        return struct.pack('<H', rc.tcode(t)) + bytes((start + step * i) & 0xFF for i in range(n * rc.tsize(t)))
    raise HarnessError('bad payload spec %r' % (p,))


def build_frame(f):
    kind = f['k']
    ctx = unhx(f['ctx'])
    if kind == 'raw':
        return rc.encap(f['cmd'], f['sess'], payload_bytes(f['pay']), ctx, f['status'], f['opts'])
    if kind == 'register':      # Register reply: protocol version 1, options 0
        return rc.encap(rc.CMD['register'], f['sess'], struct.pack('<HH', 1, 0), ctx, 0, 0)
    if kind == 'rr':            # SendRRData reply carrying a Message Router reply
        msg = rc.mr_reply(f['svc'], f['st'], f['ext'], payload_bytes(f['pay']))
        return rc.encap(rc.CMD['send_rr_data'], f['sess'], rc.send_rr_data(msg), ctx, 0, 0)
    raise HarnessError('bad frame spec %r' % (f,))


def build_stream(case):
    frames = [build_frame(f) for f in case['frames']]
    tail = b''
    if case.get('tail') is not None:
        full = build_frame(case['tail'])
        n = case['tail_n']
        if not 0 < n < len(full):
            raise HarnessError('tail_n %r out of range for a %d byte frame' % (n, len(full)))
        tail = full[:n]
    return frames, tail


def chunks_of(stream, chunking):
    """-> list of non-empty chunks whose concatenation is stream"""
    n = len(stream)
    if chunking == 'one':
        cuts = []
    elif chunking == 'bytes':
        cuts = list(range(1, n))
    elif chunking == 'blocks':
        cuts = list(range(RECV_BLOCK, n, RECV_BLOCK))
    else:
        cuts = sorted(set(c for c in chunking['cuts'] if 0 < c < n))
    out = []
    p = 0
    for c in cuts + [n]:
        if c > p:
            out.append(stream[p:c])
        p = c
    return out, cuts


def classify_chunking(frames, tail, cuts, chunking, prefix):
    """-> (classes, nontrivial)"""
    classes = []
    bounds = []
    pos = 0
    for f in frames:
        bounds.append((pos, pos + len(f)))
        pos += len(f)
    if tail:
        bounds.append((pos, pos + len(tail)))
    total = pos + len(tail)
    in_header = in_length = in_ctx = at_boundary = in_payload = False
    for c in cuts:
        for (a, b) in bounds:
            if a < c < b:
                rel = c - a
                if rel < 24:
                    in_header = True
                    if rel == 3:
                        in_length = True
                    if 12 < rel < 20:
                        in_ctx = True
                elif rel > 24:
                    in_payload = True
            elif c == a and a > 0:
                at_boundary = True
    # a chunk holding bytes of >= 2 frames
    edges = [0] + list(cuts) + [total]
    coalesced = False
    for lo, hi in zip(edges, edges[1:]):
        if sum(1 for (a, b) in bounds if a < hi and b > lo and b > a) >= 2:
            coalesced = True
    if isinstance(chunking, str):
        classes.append('%s:chunking=%s' % (prefix, chunking))
    else:
        classes.append('%s:chunking=%s' % (prefix, '2-way' if len(cuts) == 1 else 'k-way(%s)' % (
            '2-4' if len(cuts) < 4 else '5-9' if len(cuts) < 9 else '>=10')))
    if in_length:
        classes.append(prefix + ':cut-splits-length-field')
    if in_ctx:
        classes.append(prefix + ':cut-in-sender-context')
    if in_header:
        classes.append(prefix + ':cut-in-header')
    if in_payload:
        classes.append(prefix + ':cut-in-payload')
    if at_boundary:
        classes.append(prefix + ':cut-at-frame-boundary')
    if coalesced:
        classes.append(prefix + ':chunk-holds>=2-frames')
    lens = [len(f) - 24 for f in frames]
    classes.append('%s:frames=%d' % (prefix, len(frames)))
    if 0 in lens:
        classes.append(prefix + ':payload=0')
    if 1 in lens:
        classes.append(prefix + ':payload=1')
    if any(1 < n <= 4096 for n in lens):
        classes.append(prefix + ':payload=typical')
    if any(n > 4096 for n in lens):
        classes.append(prefix + ':payload>4096')
    classes.append(prefix + (':partial-tail' if tail else ':no-tail'))
    return classes, bool(in_header or coalesced)


def flat(data):
    """dotdict -> {dotted key: JSON-able canonical value}"""
    out = {}
    for k, v in data.items():
        out[k] = _canon(v)
    return out


def _canon(v):
    if isinstance(v, (bytes, bytearray)):
        return {'hex': bytes(v).hex()}
    if hasattr(v, 'typecode') and hasattr(v, 'tobytes'):
        return {'hex': v.tobytes().hex()}
    if isinstance(v, bool) or v is None or isinstance(v, (int, str)):
        return v
    if isinstance(v, float):
        return repr(v)
    if isinstance(v, dict):
        return {str(k): _canon(x) for k, x in v.items()}
    if isinstance(v, (list, tuple)):
        return [_canon(x) for x in v]
    return type(v).__name__


def expected_fields(frame, prefix):
    e = rc.dec_encap(frame)
    return {
        prefix + 'command': e['command'], prefix + 'length': e['length'], prefix + 'session_handle': e['session'],
        prefix + 'status': e['status'], prefix + 'sender_context.input': {'hex': e['context'].hex()},
        prefix + 'options': e['options'], prefix + 'input': {'hex': e['payload'].hex()},
    }


def diff_fields(got, want, prefix, ignore=None):
    """Compare the framer's keys (prefix*) with the reference; -> list of differing keys (root-cause names).
    ignore: prefix of keys added by later parsing stages (the client's CIP parse of the payload)."""
    bad = []
    got = {k: v for k, v in got.items() if k.startswith(prefix) and not (ignore and k.startswith(ignore))}
    for k, v in want.items():
        if k == prefix + 'input' and v == {'hex': ''} and k not in got:
            continue
        if got.get(k, '<absent>') != v:
            bad.append(k[len(prefix):])
    for k in got:
        if k not in want:
            bad.append('unexpected:' + k[len(prefix):])
    return bad


def _short(v, n=160):
    s = common.canon(v)
    return s if len(s) <= n else s[:n] + '...'


# ------------------------------------------------------------------------------------------------
# (a) framer in-process: the receive loop of enip_srv_tcp


@contextlib.contextmanager
def quiet_finalizers():
    """Abandoning an engine in the middle of a frame (which the harness does when no EOF is delivered, and the
    client does after an error) finalizes cpppo's nested generators; their terminate() hooks may raise inside the
    finalizer, which CPython only reports on stderr ("Exception ignored in ...").  Not an observation: silenced."""
    import sys
    old = sys.unraisablehook
    sys.unraisablehook = lambda *a, **k: None
    try:
        yield
    finally:
        sys.unraisablehook = old


def run_framer(chunks, eager, eof, max_frames):
    with quiet_finalizers():
        return _run_framer(chunks, eager, eof, max_frames)


def _run_framer(chunks, eager, eof, max_frames):
    """-> (frames, tail)   frames: [(flat data, consumed, sent_total)]
    tail: ('clean', consumed) engine ended normally with empty data (server: clean end of session)
          ('blocked', flat data, consumed) engine waits for input that never came (no EOF delivered)
          ('error', type, text, consumed) engine raised (server: connection dropped, request processor not called)
          ('runaway',) more frames than the stream can hold"""
    import cpppo
    from cpppo.server.enip import parser
    pending = list(chunks)
    source = cpppo.rememberable()
    frames = []
    saw_eof = False
    budget = 64 * (sum(len(c) for c in chunks) + 64)
    with parser.enip_machine(name='vp_c02', context='enip') as machine:
        while True:
            if len(frames) > max_frames:
                return frames, ('runaway',)
            data = cpppo.dotdict()
            source.forget()
            sent0 = source.sent
            blocked = False
            try:
                with contextlib.closing(machine.run(path='request', source=source, data=data)) as engine:
                    for mch, sta in engine:
                        budget -= 1
                        if budget < 0:
                            return frames, ('error', 'NoTermination', 'engine step bound exceeded', source.sent - sent0)
                        if sta is not None:
                            continue
                        if saw_eof:
                            continue            # server: "while msg is None and not stats.eof" is skipped
                        if source.peek() is None or eager:
                            if pending:
                                source.chain(pending.pop(0))
                            elif source.peek() is None:
                                if eof:
                                    source.chain(b'')
                                    saw_eof = True
                                else:
                                    blocked = True
                                    break
            except Exception as exc:
                return frames, ('error', type(exc).__name__, str(exc)[:120], source.sent - sent0)
            consumed = source.sent - sent0
            if blocked:
                return frames, ('blocked', flat(data), consumed)
            if not data:
                return frames, ('clean', consumed)
            frames.append((flat(data), consumed, source.sent))
            if saw_eof:
                return frames, ('eof-after-frame', 0)


def framer_one(case, stats):
    frames, tail = build_stream(case)
    stream = b''.join(frames) + tail
    chunks, cuts = chunks_of(stream, case['chunking'])
    eager, eof = bool(case.get('eager')), bool(case.get('eof', True))
    classes, nontrivial = classify_chunking(frames, tail, cuts, case['chunking'], 'framer')
    classes.append('framer:end=' + ('eof' if eof else 'no-eof'))
    if eager:
        classes.append('framer:eager-chaining')
    stats.case(case, nontrivial=nontrivial, classes=classes)
    got, end = run_framer(chunks, eager, eof, len(frames) + 2)
    if not _judge_frames(stats, 'framer', case, frames, tail, got, 'request.enip.'):
        return
    # what happened after the last complete frame
    if end[0] == 'runaway':
        stats.fail('framer', 'framer:parse-completed-from-incomplete-frame', case, observed=end, expected='no further frame')
    elif end[0] == 'eof-after-frame':
        if len(got) < len(frames):
            stats.fail('framer', 'framer:stopped-before-all-complete-frames', case, observed={'frames': len(got), 'end': end},
                       expected='%d frames' % len(frames))
    elif len(got) < len(frames):
        stats.fail('framer', 'framer:complete-frame-not-parsed:%s' % end[0], case,
                   observed={'frames': len(got), 'end': _short(end)}, expected='%d frames' % len(frames))
    elif end[0] == 'clean':
        if tail or end[1] != 0:
            stats.fail('framer', 'framer:partial-frame-swallowed', case, observed=end,
                       expected='an incomplete frame is never consumed as a clean end of stream')
        elif not eof:
            stats.fail('framer', 'framer:terminated-without-input', case, observed=end, expected='blocked')
    elif end[0] == 'blocked':
        if eof:
            raise HarnessError('feeder reported blocked although EOF is delivered')
    elif end[0] == 'error':
        if not tail and end[1] != 'NoTermination' and not eof:
            stats.fail('framer', 'framer:error-without-input', case, observed=end, expected='blocked')
        elif not tail and end[3] != 0:
            stats.fail('framer', 'framer:consumed-beyond-last-frame', case, observed=end, expected='nothing consumed')
        elif end[1] == 'NoTermination':
            stats.fail('framer', 'framer:engine-does-not-terminate', case, observed=end, expected='termination')
        # (clean EOF raising instead of terminating is not required by the statement: tolerated when nothing is consumed)


def _judge_frames(stats, clause, case, frames, tail, got, prefix, ignore=None):
    """got: [(flat data, consumed|None, sent_total|None)] -> True when every delivered frame is as expected"""
    total = 0
    for i, (data, consumed, sent) in enumerate(got):
        if i >= len(frames):
            stats.fail(clause, clause + ':parse-completed-from-incomplete-frame', case,
                       observed={'extra_frame': _short(data), 'index': i},
                       expected='%d complete frames; the %d trailing bytes are an unfinished frame' % (len(frames), len(tail)))
            return False
        total += len(frames[i])
        bad = diff_fields(data, expected_fields(frames[i], prefix), prefix, ignore)
        if bad:
            where = sorted(set('payload' if b in ('input', 'length') else 'unexpected-key' if b.startswith('unexpected:')
                               else 'header' for b in bad))
            stats.fail(clause, '%s:frame-content-differs:%s' % (clause, '+'.join(where)), case,
                       observed={'frame': i, 'keys': bad[:8], 'got': _short({k: v for k, v in data.items() if k.startswith(prefix)}, 400)},
                       expected=_short(expected_fields(frames[i], prefix), 400))
            return False
        if consumed is not None and consumed != len(frames[i]):
            stats.fail(clause, clause + ':frame-consumes-wrong-byte-count', case, observed={'frame': i, 'consumed': consumed},
                       expected=len(frames[i]))
            return False
        if sent is not None and sent != total:
            stats.fail(clause, clause + ':source.sent-not-running-total', case, observed={'frame': i, 'sent': sent}, expected=total)
            return False
    return True


def sweep_positions(frames, tail, sampled, part):
    """Two-way split positions enumerated for a stream: every position 1..n-1, or (sampled, used by the quick
    tier for streams holding a > 4096 byte payload, where positions deep inside one payload are equivalent for the
    parser) every position within 40 (sparse: 8) bytes of a frame edge, within 2 of a multiple of the 4096-byte recv
    block, and every 61st (sparse: 509th) position.  part=(i, m): the i-th of m interleaved shares."""
    n = sum(map(len, frames)) + len(tail)
    if not sampled:
        pos = list(range(1, n))
    else:
        near, stride = (40, 61) if sampled == 1 else (8, 509)       # 2: sparse (client, ~0.35 s per case)
        edges = [0]
        for f in frames:
            edges.append(edges[-1] + len(f))
        edges.append(n)
        keep = set()
        for e in edges:
            keep.update(range(e - near, e + near + 1))
            keep.update(range(e + 24 - 2, e + 24 + 3))      # header / payload edge
        for b in range(RECV_BLOCK, n, RECV_BLOCK):
            keep.update(range(b - 2, b + 3))
        keep.update(range(stride, n, stride))
        pos = sorted(k for k in keep if 0 < k < n)
    i, m = part or (0, 1)
    return n, [k for j, k in enumerate(pos) if j % m == i], i == 0


def pred_framer(case, stats):
    if case['chunking'] == 'sweep':
        frames, tail = build_stream(case)
        n, positions, first = sweep_positions(frames, tail, case.get('sampled'), case.get('part'))
        todo = []
        if first:
            todo += [('one', True), ('one', False), ('bytes', True), ('bytes', False)]
            if n > RECV_BLOCK:
                todo.append(('blocks', True))
        for k in positions:
            todo.append(({'cuts': [k]}, True))
            if k % 7 == 0:
                todo.append(({'cuts': [k]}, False))
        base = {k: v for k, v in case.items() if k not in ('part', 'sampled')}
        for chunking, eof in todo:
            framer_one(dict(base, chunking=chunking, eof=eof, eager=False), stats)
        return
    framer_one(case, stats)


# ------------------------------------------------------------------------------------------------
# (b) a real client.client fed by a harness-owned socket

_LISTENER = {}


def listener():
    ent = _LISTENER.get(os.getpid())
    if ent is None:
        s = socket.socket(socket.AF_INET, socket.SOCK_STREAM)
        s.bind(('127.0.0.1', 0))
        s.listen(16)
        s.settimeout(TMO)
        ent = _LISTENER[os.getpid()] = s
    return ent


def run_client(chunks):
    with quiet_finalizers():
        return _run_client(chunks)


def _run_client(chunks):
    """Serve chunks to a fresh client.client; -> (replies [flat], end)
    end: ('eof-clean',) StopIteration after EOF | ('error', type, text) | ('runaway',)"""
    from cpppo.server.enip import client
    ls = listener()
    host, port = ls.getsockname()
    cli = client.client(host=host, port=port, timeout=TMO)
    conn = None
    replies = []
    try:
        try:
            conn, _ = ls.accept()
        except socket.timeout:
            raise HarnessError('harness listener: accept timed out')
        conn.setsockopt(socket.IPPROTO_TCP, socket.TCP_NODELAY, 1)
        conn.settimeout(TMO)
        limit = 8 + sum(len(c) for c in chunks)
        with cli:
            try:
                for chunk in chunks:
                    try:
                        conn.sendall(chunk)
                    except socket.timeout:
                        raise HarnessError('harness listener: send timed out')
                    if not cli.readable(timeout=TMO):
                        raise HarnessError('client socket did not become readable within %.0fs' % TMO)
                    while True:
                        limit -= 1
                        if limit < 0:
                            return replies, ('runaway',)
                        r = next(cli)
                        if r is not None:
                            replies.append(flat(r))
                            continue        # between frames: next() may be called at once (await_response does)
                        if not cli.readable(timeout=0):
                            break           # drained; the next chunk may be written
                conn.shutdown(socket.SHUT_WR)
                while True:
                    limit -= 1
                    if limit < 0:
                        return replies, ('runaway',)
                    if not cli.readable(timeout=TMO):
                        raise HarnessError('client socket did not see EOF within %.0fs' % TMO)
                    try:
                        r = next(cli)
                    except StopIteration:
                        return replies, ('eof-clean',)
                    if r is not None:
                        replies.append(flat(r))
            except HarnessError:
                raise
            except StopIteration:
                return replies, ('error', 'StopIteration', 'end of iteration before EOF was sent')
            except Exception as exc:
                if not _from_repo(exc):
                    raise
                return replies, ('error', type(exc).__name__, str(exc)[:120])
    finally:
        try:
            cli.close()
        except Exception:
            pass
        if conn is not None:
            conn.close()


def _from_repo(exc):
    frame, inner = common._innermost_repo_frame(exc.__traceback__)
    return frame is not None


_BASELINE = {}


def client_baseline(stream):
    key = common.chash(stream.hex())
    if key not in _BASELINE:
        if len(_BASELINE) > 8:
            _BASELINE.clear()
        _BASELINE[key] = run_client([stream] if stream else [])
    return _BASELINE[key]


def client_one(case, stats):
    frames, tail = build_stream(case)
    stream = b''.join(frames) + tail
    chunks, cuts = chunks_of(stream, case['chunking'])
    classes, nontrivial = classify_chunking(frames, tail, cuts, case['chunking'], 'client')
    stats.case(case, nontrivial=nontrivial, classes=classes)
    got, end = run_client(chunks)
    if not _judge_frames(stats, 'client', case, frames, tail, [(d, None, None) for d in got], 'enip.', 'enip.CIP'):
        return
    if len(got) < len(frames):
        stats.fail('client', 'client:complete-reply-not-delivered:%s' % (end[1] if end[0] == 'error' else end[0]), case,
                   observed={'replies': len(got), 'end': end}, expected='%d replies' % len(frames))
        return
    if end[0] == 'runaway':
        stats.fail('client', 'client:polling-does-not-terminate', case, observed=end, expected='EOF reported')
    elif end[0] == 'eof-clean' and tail:
        pass        # an unfinished frame dropped at EOF: no completed parse, nothing to object to
    elif end[0] == 'error' and not tail:
        stats.fail('client', 'client:error-at-clean-eof:%s' % end[1], case, observed=end,
                   expected='StopIteration at EOF between frames')
    # metamorphic: the complete parsed replies equal those of the stream delivered in one piece
    if case['chunking'] != 'one':
        base, bend = client_baseline(stream)
        strip = lambda d: {k: v for k, v in d.items() if k != 'peer' and not k.startswith('peer')}
        if [strip(d) for d in base] != [strip(d) for d in got]:
            idx = next((i for i, (x, y) in enumerate(zip(base, got)) if strip(x) != strip(y)), min(len(base), len(got)))
            stats.fail('client', 'client:parsed-reply-depends-on-chunking', case,
                       observed={'first_difference_at_reply': idx, 'n': len(got)}, expected={'n': len(base)})
        elif bend[0] != end[0]:
            stats.fail('client', 'client:end-of-stream-depends-on-chunking', case, observed=end, expected=bend)


def pred_client(case, stats):
    if case['chunking'] == 'sweep':
        frames, tail = build_stream(case)
        n, positions, first = sweep_positions(frames, tail, case.get('sampled'), case.get('part'))
        todo = (['one', 'bytes'] + (['blocks'] if n > RECV_BLOCK else [])) if first else []
        todo += [{'cuts': [k]} for k in positions]
        base = {k: v for k, v in case.items() if k not in ('part', 'sampled')}
        for chunking in todo:
            client_one(dict(base, chunking=chunking), stats)
        return
    client_one(case, stats)


# ------------------------------------------------------------------------------------------------
# (c) crash points over TCP

TCP_SPECS = [
    {'name': 'A', 'type': 'INT', 'length': 6},
    {'name': 'B', 'type': 'DINT', 'length': 4},
    {'name': 'C', 'type': 'SINT', 'length': 8},
    {'name': 'R', 'type': 'REAL', 'length': 3},
]
_TCP = {}


class Broken(Exception):
    """An observation that is a property violation (carried to the predicate)."""

    def __init__(self, sig, detail):
        Exception.__init__(self, sig)
        self.sig, self.detail = sig, detail


def tcp_server():
    ent = _TCP.get(os.getpid())
    if ent is None:
        try:
            srv = sim.TcpServer(TCP_SPECS)
        except (RuntimeError, AssertionError) as exc:
            raise HarnessError('cannot start the simulator: %s' % (exc,))
        ent = _TCP[os.getpid()] = {'srv': srv, 'witness': None, 'next': None}
    return ent


def open_session(srv, what):
    """Connect + Register -> (sock, handle).  Refusal / EOF / malformed reply => Broken; timeout => HarnessError."""
    try:
        sock = srv.connect(TMO)
    except socket.timeout:
        raise HarnessError('%s: connect timed out' % what)
    except OSError as exc:
        raise Broken('tcp:listener-not-accepting', {'what': what, 'error': '%s: %s' % (type(exc).__name__, exc)})
    try:
        sock.sendall(rc.register())
        frames, left, eof = sim.recv_frames(sock, 1, TMO)
    except socket.timeout:
        sock.close()
        raise HarnessError('%s: register timed out' % what)
    except OSError as exc:
        sock.close()
        raise Broken('tcp:new-session-cannot-register', {'what': what, 'error': '%s: %s' % (type(exc).__name__, exc)})
    if not frames:
        sock.close()
        if not eof:
            raise HarnessError('%s: no Register reply within %.0fs' % (what, TMO))
        raise Broken('tcp:new-session-cannot-register', {'what': what, 'observed': 'connection closed without a reply'})
    try:
        e = rc.dec_encap(frames[0])
        ok = e['command'] == rc.CMD['register'] and e['status'] == 0 and e['session'] != 0 and not left
    except rc.RefDecodeError:
        ok = False
    if not ok:
        sock.close()
        raise Broken('tcp:new-session-cannot-register', {'what': what, 'reply': frames[0].hex()})
    return sock, e['session']


def tcp_ops_messages(ops):
    msgs = []
    for op in ops:
        m = model.op_message(op)
        msgs.append(rc.unconnected_send(m) if op.get('wrap') else m)
    return msgs


def model_after(ops, count):
    m = model.Model(TCP_SPECS)
    for op in ops[:count]:
        exp = model.expect(m, op)
        if exp['kind'] != 'write' or not exp['must_accept']:
            raise HarnessError('generator produced a write the model does not accept: %r -> %r' % (op, exp))
        model.apply_write(m, exp)
    return m


def tcp_one(case, stats):
    ent = tcp_server()
    srv = ent['srv']
    ops = case['ops']
    k = case['k']
    register_only = bool(case.get('register_only'))
    # frame sizes do not depend on the session handle
    if register_only:
        sizes = [len(rc.register())]
    else:
        msgs = tcp_ops_messages(ops)
        sizes = [len(rc.rr_frame(0, m, unhx(op['ctx']))) for m, op in zip(msgs, ops)]
    total = sum(sizes)
    if not 0 <= k <= total:
        raise HarnessError('offset %r outside the %d byte stream' % (k, total))
    ends = []
    pos = 0
    for s in sizes:
        pos += s
        ends.append(pos)
    complete = sum(1 for e in ends if e <= k)
    inside = k not in [0] + ends
    classes = ['tcp:' + ('register-frame' if register_only else 'writes=%d' % len(ops)),
               'tcp:truncated-inside-frame' if inside else 'tcp:truncated-at-boundary',
               'tcp:complete-frames-before-cut=%d' % complete]
    if inside:
        rel = k - ([0] + ends)[complete]
        classes.append('tcp:cut-in-header' if rel < 24 else 'tcp:cut-in-payload')
        if rel == 3:
            classes.append('tcp:cut-splits-length-field')
    stats.case(case, nontrivial=inside, classes=classes)

    def fail(sig, observed, expected):
        stats.fail('tcp-truncation', sig, case, observed=observed, expected=expected)

    if not srv.alive():
        raise HarnessError('simulator thread is not running')
    # reset tags
    for s in TCP_SPECS:
        srv.set_values(s['name'], [model.default_value(s['type'])] * s['length'])
    held = None
    try:
        # the witness is opened before the faulty connection
        if ent['witness'] is None:
            ent['witness'] = open_session(srv, 'witness session')
        if register_only:
            try:
                sock = srv.connect(TMO)
            except socket.timeout:
                raise HarnessError('connect timed out')
            except OSError as exc:
                raise Broken('tcp:listener-not-accepting', {'error': str(exc)})
            stream = rc.register()
            ctxs = [b'\x00' * 8]
        else:
            if ent['next'] is not None:
                sock, handle = ent['next']
                ent['next'] = None
            else:
                sock, handle = open_session(srv, 'session under test')
            ctxs = [unhx(op['ctx']) for op in ops]
            stream = b''.join(rc.rr_frame(handle, m, c) for m, c in zip(msgs, ctxs))
        try:
            try:
                sock.settimeout(TMO)
                sock.sendall(stream[:k])
                # "acted upon if its final byte has been delivered": the replies to the complete frames must not
                # wait for the end of the stream (a missing reply shows only as a timeout => inconclusive)
                early = b''
                if complete and ent.get('wait_early', True):
                    fr, left, eof0 = sim.recv_frames(sock, complete, TMO)
                    if len(fr) < complete and not eof0:
                        held = (len(fr), complete)
                        ent['wait_early'] = False       # pay this timeout once per worker only
                    early = b''.join(fr) + left
                sock.shutdown(socket.SHUT_WR)
                buf, eof = sim.recv_until_eof(sock, TMO)
                buf = early + buf
            except socket.timeout:
                raise HarnessError('send timed out')
            except OSError as exc:
                buf, eof = b'', True
                fail('tcp:connection-reset-while-sending', {'error': '%s: %s' % (type(exc).__name__, exc)},
                     'the server reads until end of stream')
        finally:
            sock.close()
        if not eof:
            raise HarnessError('server did not close the half-closed connection within %.0fs (offset %d)' % (TMO, k))
        replies, left = rc.split_frames(buf)
        if len(replies) > complete or left:
            fail('tcp:reply-for-unfinished-frame', {'replies': len(replies), 'leftover_bytes': len(left),
                                                    'last': (replies[-1] if replies else left).hex()[:200]},
                 {'replies': complete})
        elif len(replies) < complete:
            fail('tcp:no-reply-for-complete-frame', {'replies': len(replies)}, {'replies': complete})
        for i, rpy in enumerate(replies[:complete]):
            try:
                e = rc.dec_encap(rpy)
                if register_only:
                    ok = e['command'] == rc.CMD['register'] and e['status'] == 0 and e['session'] != 0
                else:
                    e, m = rc.dec_rr_reply(rpy)
                    r = rc.dec_mr_reply(m)
                    want = {'write_tag': 0xCD, 'write_frag': 0xD3}[ops[i]['svc']]
                    ok = (e['status'] == 0 and e['context'] == ctxs[i] and e['session'] == handle
                          and r['service'] == want and r['status'] == 0)
            except rc.RefDecodeError:
                ok = False
            if not ok:
                fail('tcp:reply-does-not-answer-its-request', {'index': i, 'reply': rpy.hex()[:300]},
                     'success reply echoing sender context %s' % ctxs[i].hex())
                break
        # tags, inspected in-process
        if not register_only:
            want = model_after(ops, complete).snapshot()
            got = srv.snapshot()
            if got != want:
                # root cause: did only the slots the unfinished request addresses change?
                acted = False
                if complete < len(ops):
                    cut = ops[complete]
                    lo = cut['elem'] or 0
                    acted = all(got[n] == want[n] or (n == cut['tag'] and all(
                        got[n][j] == want[n][j] or lo <= j < lo + cut['count'] for j in range(len(want[n])))) for n in want)
                lost = any(got == model_after(ops, j).snapshot() for j in range(complete))
                fail('tcp:unfinished-frame-changed-tags' if acted else 'tcp:complete-frame-not-applied' if lost
                     else 'tcp:tags-differ-from-model',
                     {n: got[n] for n in got if got[n] != want[n]}, {n: want[n] for n in got if got[n] != want[n]})
            # the witness reads the tag the cut request addresses
            spec = next(s for s in TCP_SPECS if s['name'] == ops[min(complete, len(ops) - 1)]['tag'])
        else:
            want = model.Model(TCP_SPECS).snapshot()
            spec = TCP_SPECS[k % len(TCP_SPECS)]
        witness_read(ent, spec, want[spec['name']], fail)
        # and a new session can register (it becomes the next session under test)
        nxt = open_session(srv, 'new session after the truncated one')
        if ent['next'] is not None:
            ent['next'][0].close()
        ent['next'] = nxt
        if not srv.alive():
            fail('tcp:server-thread-died', 'simulator main thread ended', 'listener keeps running')
    except Broken as b:
        fail(b.sig, b.detail, 'other sessions and the listener keep working')
    if held is not None:
        # the timing observation alone is inconclusive; whatever the end of the stream then showed is recorded above
        raise HarnessError('only %d of %d complete requests were answered within %.0fs while the connection stayed open '
                           '(offset %d)' % (held[0], held[1], TMO, k))


def witness_read(ent, spec, want, fail):
    sock, handle = ent['witness']
    msg = rc.unconnected_send(rc.req_read_tag([{'symbolic': spec['name']}], spec['length']))
    try:
        sock.sendall(rc.rr_frame(handle, msg, b'witness!'))
        frames, left, eof = sim.recv_frames(sock, 1, TMO)
    except socket.timeout:
        raise HarnessError('witness session: send timed out')
    except OSError:
        frames, left, eof = [], b'', True
    if not frames:
        if not eof:
            raise HarnessError('witness session: no reply within %.0fs' % TMO)
        sock.close()
        ent['witness'] = None
        fail('tcp:witness-session-broken', 'connection closed', 'an already open session keeps working')
        return
    try:
        e, m = rc.dec_rr_reply(frames[0])
        r = rc.dec_mr_reply(m)
        t, vals = rc.dec_read_reply(r, spec['type']) if r['status'] == 0 else (None, None)
    except rc.RefDecodeError as exc:
        fail('tcp:witness-session-broken', {'reply': frames[0].hex()[:300], 'error': str(exc)}, 'a read reply')
        return
    if r['status'] != 0 or e['context'] != b'witness!':
        fail('tcp:witness-session-broken', {'status': r['status'], 'ext': r['ext'], 'context': e['context'].hex()}, 'status 0')
    elif [rc.canon_value(spec['type'], v) for v in vals] != want:
        fail('tcp:witness-reads-other-values', [rc.canon_value(spec['type'], v) for v in vals], want)


def tcp_split_tail(case, stats):
    """A complete request delivered in two pieces, the second one shorter than an encapsulation header (1..23 bytes), and then
    nothing more: the request is acted upon and answered once its final byte is there -- not only when more bytes arrive."""
    ent = tcp_server()
    srv = ent['srv']
    op = case['ops'][0]
    j = case['tail']
    for sp in TCP_SPECS:
        srv.set_values(sp['name'], [model.default_value(sp['type'])] * sp['length'])
    sock, handle = open_session(srv, 'session under test (split tail)')
    ctx = unhx(op['ctx'])
    frame = rc.rr_frame(handle, tcp_ops_messages([op])[0], ctx)
    j = max(1, min(j, 23, len(frame) - 1))
    stats.case(case, nontrivial=True, classes=['tcp:split-tail:%d' % j])
    try:
        sock.settimeout(TMO)
        sock.sendall(frame[:-j])
        time.sleep(0.05)
        sock.sendall(frame[-j:])
        fr, left, eof = sim.recv_frames(sock, 1, 15.0)
        if not fr and not eof:
            # no answer in 15 s while the connection is idle: confirm positively by delivering one more (complete, 24-byte) frame
            sock.sendall(rc.encap(rc.CMD['list_services'], handle, b'', b'nudge\0\0\0'))
            fr2, _, eof2 = sim.recv_frames(sock, 2, 10.0)
            if fr2:
                stats.fail('tcp-truncation', 'tcp:complete-request-answered-only-after-more-bytes-arrived', case,
                           observed={'final_piece_bytes': j, 'frames_after_the_extra_frame': len(fr2), 'waited_s': 15},
                           expected='the reply follows the delivery of the final byte of the request')
                return
            raise HarnessError('no reply to a split request within 15 s, none after a further frame either (inconclusive)')
        if not fr:
            stats.fail('tcp-truncation', 'tcp:no-reply-for-complete-frame', case, observed={'eof': True, 'final_piece_bytes': j}, expected={'replies': 1})
            return
        e, m = rc.dec_rr_reply(fr[0])
        r = rc.dec_mr_reply(m)
        if not (e['status'] == 0 and e['context'] == ctx and r['status'] == 0):
            stats.fail('tcp-truncation', 'tcp:reply-does-not-answer-its-request', case, observed={'reply': fr[0].hex()[:200]}, expected='success reply')
        want = model_after([op], 1).snapshot()
        got = srv.snapshot()
        if got != want:
            stats.fail('tcp-truncation', 'tcp:complete-frame-not-applied', case, observed={n: got[n] for n in got if got[n] != want[n]},
                       expected={n: want[n] for n in got if got[n] != want[n]})
    finally:
        sock.close()


def tcp_case(case, stats):
    if case.get('tail'):
        return tcp_split_tail(case, stats)
    if case['k'] == 'all':
        if case.get('register_only'):
            total = len(rc.register())
        else:
            total = sum(len(rc.rr_frame(0, m, b'\x00' * 8)) for m in tcp_ops_messages(case['ops']))
        for k in range(total + 1):
            tcp_one(dict(case, k=k), stats)
        return
    tcp_one(case, stats)


def pred_tcp(case, stats):
    """The simulator is hosted only by daemon shard workers or by a one-shot forked child -- never by the
    main process, which forks workers later."""
    if multiprocessing.current_process().daemon:
        return tcp_case(case, stats)
    ctx = multiprocessing.get_context('fork')
    rx, tx = ctx.Pipe(False)

    def target():
        s = Stats()
        try:
            tcp_case(case, s)
            tx.send(('ok', s, None))
        except HarnessError as exc:
            tx.send(('harness', s, str(exc)))
        except BaseException:
            tx.send(('harness', Stats(), traceback.format_exc()))

    p = ctx.Process(target=target, daemon=True)
    p.start()
    try:
        if not rx.poll(1800):
            raise HarnessError('one-shot simulator child did not answer')
        kind, val, err = rx.recv()
    finally:
        p.join(5)
        if p.is_alive():
            p.terminate()
    stats.merge(val)
    if kind != 'ok' and not val.fails:     # an inconclusive timing observation does not hide a recorded violation
        raise HarnessError(err)


CLAUSES = {'framer': pred_framer, 'client': pred_client, 'tcp-truncation': pred_tcp}

# ------------------------------------------------------------------------------------------------
# generators

u16 = st.one_of(st.sampled_from([0, 1, 0xFF, 0x100, 0x7FFF, 0x8000, 0xFFFF]), st.integers(0, 0xFFFF))
u32 = st.one_of(st.sampled_from([0, 1, 0xFFFF, 0x10000, 0x7FFFFFFF, 0x80000000, 0xFFFFFFFF]), st.integers(0, 0xFFFFFFFF))
ctx8 = st.one_of(st.just('00' * 8), st.binary(min_size=8, max_size=8).map(hx))
byte = st.integers(0, 255)


def big_len(huge):
    # (huge: the declared length is a 16-bit field; 0x7FFF / 0x8000 is where a signed reading of it changes sign)
    return st.one_of(st.sampled_from([4097, 4098, 8192, 8193] if not huge else [4097, 8193, 32767, 32768, 32769, 40000, 65535]),
                     st.integers(4097, 5200 if not huge else 20000))


@st.composite
def raw_frame(draw, size, huge=False):
    if size == '0':
        pay = {'hex': ''}
    elif size == '1':
        pay = {'hex': hx(draw(st.binary(min_size=1, max_size=1)))}
    elif size == 'typ':
        pay = {'hex': hx(draw(st.binary(min_size=2, max_size=80)))}
    else:
        pay = {'pat': [draw(byte), draw(st.sampled_from([0, 1, 7, 13, 255])), draw(big_len(huge))]}
    return {'k': 'raw', 'cmd': draw(st.one_of(st.sampled_from([0x65, 0x66, 0x6F, 0x70, 0x63, 0x64, 0x04, 0x01]), u16)),
            'sess': draw(u32), 'status': draw(u32), 'ctx': draw(ctx8), 'opts': draw(u32), 'pay': pay}


@st.composite
def reply_frame(draw, size):
    """Frames a client.client can parse completely."""
    sess, ctx = draw(u32), draw(ctx8)
    if size == '0':         # status-only frame: no payload, any command, non-zero status
        return {'k': 'raw', 'cmd': draw(st.sampled_from([0x6F, 0x65, 0x70, 0x63])), 'sess': sess,
                'status': draw(st.sampled_from([0x01, 0x03, 0x08, 0x64, 0x65, 0x69])), 'ctx': ctx, 'opts': 0, 'pay': {'hex': ''}}
    if size == '1':         # the only 1-byte payload the CIP parser takes
        return {'k': 'raw', 'cmd': 0x66, 'sess': sess, 'status': 0, 'ctx': ctx, 'opts': 0,
                'pay': {'hex': hx(draw(st.binary(min_size=1, max_size=1)))}}
    if size == 'big':       # Read Tag reply carrying > 4096 bytes
        t = draw(st.sampled_from(['INT', 'DINT', 'SINT']))
        n = draw(st.integers(4097, 5000)) // rc.tsize(t) + 1
        return {'k': 'rr', 'sess': sess, 'ctx': ctx, 'svc': 0x4C, 'st': 0, 'ext': [],
                'pay': {'tpat': [t, draw(byte), draw(st.sampled_from([1, 7, 13])), n]}}
    kind = draw(st.sampled_from(['register', 'read', 'read', 'write', 'error', 'getattr']))
    if kind == 'register':
        return {'k': 'register', 'sess': sess, 'ctx': ctx}
    if kind == 'read':
        t = draw(st.sampled_from(['INT', 'DINT', 'SINT']))
        return {'k': 'rr', 'sess': sess, 'ctx': ctx, 'svc': 0x4C, 'st': draw(st.sampled_from([0, 0, 6])), 'ext': [],
                'pay': {'tpat': [t, draw(byte), draw(st.sampled_from([1, 7, 13])), draw(st.integers(1, 30))]}}
    if kind == 'write':
        return {'k': 'rr', 'sess': sess, 'ctx': ctx, 'svc': draw(st.sampled_from([0x4D, 0x53])), 'st': 0, 'ext': [], 'pay': {'hex': ''}}
    if kind == 'error':
        return {'k': 'rr', 'sess': sess, 'ctx': ctx, 'svc': draw(st.sampled_from([0x4C, 0x4D, 0x53])), 'st': 0xFF,
                'ext': [draw(st.sampled_from([0x2105, 0x2107]))], 'pay': {'hex': ''}}
    return {'k': 'rr', 'sess': sess, 'ctx': ctx, 'svc': 0x0E, 'st': 0, 'ext': [],
            'pay': {'hex': hx(draw(st.binary(min_size=1, max_size=40)))}}


@st.composite
def stream_spec(draw, vocab, big, huge=False):
    """vocab 'raw'|'reply'|'mixed'; big: None (no >4096 frame) | 'one' (exactly one)"""
    n = draw(st.integers(1, 5))
    sizes = [draw(st.sampled_from(['0', '1', 'typ', 'typ', 'typ'])) for _ in range(n)]
    if big:
        sizes[draw(st.integers(0, n - 1))] = 'big'

    def one(size):
        v = vocab if vocab != 'mixed' else draw(st.sampled_from(['raw', 'reply']))
        return draw(raw_frame(size, huge)) if v == 'raw' else draw(reply_frame(size))

    frames = [one(s) for s in sizes]
    tail, tail_n = None, 0
    if draw(st.booleans()):
        tail = one(draw(st.sampled_from(['0', '1', 'typ', 'typ'])))
        full = len(build_frame(tail))
        tail_n = draw(st.one_of(st.sampled_from([1, 2, 3, 4, 12, 23]), st.integers(1, full - 1)))
        tail_n = max(1, min(tail_n, full - 1))
    return {'frames': frames, 'tail': tail, 'tail_n': tail_n}


def interesting_positions(case):
    frames, tail = build_stream(case)
    total = sum(map(len, frames)) + len(tail)
    out = []
    pos = 0
    for f in frames + ([tail] if tail else []):
        for rel in (0, 1, 2, 3, 4, 12, 13, 16, 19, 20, 23, 24, 25, len(f) - 1):
            p = pos + rel
            if 0 < p < total and rel <= len(f):
                out.append(p)
        pos += len(f)
    return sorted(set(out)), total


@st.composite
def kway_case(draw, vocab, big):
    case = draw(stream_spec(vocab, big))
    hot, total = interesting_positions(case)
    if total < 2:
        cuts = []
    else:
        ncuts = draw(st.one_of(st.integers(2, 8), st.integers(2, 40)))
        pick = st.one_of(st.sampled_from(hot), st.sampled_from(hot), st.integers(1, total - 1)) if hot else st.integers(1, total - 1)
        cuts = sorted(set(draw(st.lists(pick, min_size=min(2, total - 1), max_size=ncuts))))
    case['chunking'] = {'cuts': cuts}
    return case


def framer_strategy(skey):
    kind = skey[0]
    if kind == 'sweep':          # ('sweep', vocab, big, part, sampled)
        return stream_spec(skey[1], skey[2]).map(lambda c: dict(c, chunking='sweep', part=skey[3], sampled=skey[4]))
    if kind == 'kway':           # ('kway', vocab, big)
        return st.builds(lambda c, eager, eof: dict(c, eager=eager, eof=eof), kway_case(skey[1], skey[2]),
                         st.booleans(), st.booleans())
    if kind == 'huge':
        return st.builds(lambda c, ch: dict(c, chunking=ch, eof=True, eager=False), stream_spec('raw', 'one', huge=True),
                         st.sampled_from(['one', 'blocks', 'bytes']))
    raise HarnessError('unknown strategy key %r' % (skey,))


def client_strategy(skey):
    kind = skey[0]
    if kind == 'sweep':
        return stream_spec('reply', skey[2]).map(lambda c: dict(c, chunking='sweep', part=skey[3], sampled=skey[4]))
    if kind == 'kway':
        return kway_case('reply', skey[2])
    raise HarnessError('unknown strategy key %r' % (skey,))


TAG = {s['name']: s for s in TCP_SPECS}


@st.composite
def tcp_stream(draw, nwrites, salt=0):
    """nwrites Write Tag / Write Tag Fragmented requests on distinct (tag, element) slots with distinct non-zero values.
    salt rotates the preference order, so that the simplest example (the first one Hypothesis tries) differs per job."""
    slots = [(s['name'], i) for s in TCP_SPECS for i in range(s['length'])]
    slots = slots[(salt * 5) % len(slots):] + slots[:(salt * 5) % len(slots)]
    svcs = ['write_tag', 'write_frag', 'write_tag']
    svcs = svcs[salt % 3:] + svcs[:salt % 3]
    chosen = draw(st.lists(st.sampled_from(slots), min_size=nwrites, max_size=nwrites,
                           unique_by=lambda x: x[0] + str(x[1])))
    taken = set()
    used_values = set()
    ops = []
    for j, (name, elem) in enumerate(chosen):
        spec = TAG[name]
        room = 1
        while room < 3 and elem + room < spec['length'] and (name, elem + room) not in taken and (name, elem + room) not in chosen:
            room += 1
        n = draw(st.integers(1, room))
        for i in range(n):
            taken.add((name, elem + i))
        vals = []
        for i in range(n):
            if spec['type'] == 'REAL':
                v = float(draw(st.integers(1, 4000).filter(lambda x: x not in used_values))) + 0.5
                used_values.add(int(v))
            else:
                lo, hi = rc.INT_RANGES[spec['type']]
                v = draw(st.integers(max(lo, -100), min(hi, 30000)).filter(lambda x: x != 0 and x not in used_values))
                used_values.add(v)
            vals.append(v)
        svc = draw(st.sampled_from(svcs))
        ops.append({'svc': svc, 'tag': name, 'form': 'sym', 'case': 0, 'elem': elem if (elem or draw(st.booleans())) else None,
                    'count': n, 'offset': 0, 'type': spec['type'], 'values': vals, 'wrap': draw(st.booleans()) ^ bool((salt + j) & 1),
                    'ctx': hx(bytes([0xC0 + j]) + draw(st.binary(min_size=7, max_size=7)))})
    return {'ops': ops, 'k': 'all'}


def tcp_strategy(skey):
    return tcp_stream(skey[1], skey[2])


STRATEGIES = {'framer': framer_strategy, 'client': client_strategy, 'tcp-truncation': tcp_strategy}

# ------------------------------------------------------------------------------------------------
# run


def preload():
    """Import every cpppo module any engine uses *before* workers are forked.  Hypothesis (>= 6.13x) mixes constants
    collected from the already imported non-library modules into its draws, so the cases generated for a seed would
    otherwise depend on which job a pool worker happened to run before (measured: after a TCP or client job the
    framer k-way shards drew different cases)."""
    import cpppo                                                    # noqa: F401
    from cpppo.server import network                                # noqa: F401
    from cpppo.server.enip import parser, device, logix, ucmm, client, main   # noqa: F401


def shard(job):
    kind, seed, idx, n, skey = job
    preload()
    s = Stats()
    sd = common.shard_seed(seed, idx)
    if kind == 'framer':
        common.hyp_run(s, framer_strategy(skey), pred_framer, n, sd, 'framer', PID, skey=skey)
    elif kind == 'client':
        common.hyp_run(s, client_strategy(skey), pred_client, n, sd, 'client', PID, skey=skey)
    elif kind in ('tcp', 'tcp-register'):
        # a socket timeout is inconclusive; it must not hide what the other engines found in the same run (and
        # Hypothesis must not see it: it would re-execute the example and call the result flaky)
        state = {'err': None}

        def guarded(case, stats):
            if state['err'] is None:
                try:
                    pred_tcp(case, stats)
                except HarnessError as exc:
                    state['err'] = exc

        if kind == 'tcp':
            common.hyp_run(s, tcp_strategy(skey), guarded, n, sd, 'tcp-truncation', PID, skey=skey)
            # the same kind of request delivered whole but in two pieces, the last one 1..23 bytes long
            common.hyp_run(s, st.builds(lambda c, j: dict(c, ops=c['ops'][:1], k=0, tail=j), tcp_strategy(skey), st.integers(1, 23)),
                           guarded, max(4, n // 2), sd + 11, 'tcp-truncation', PID, skey=skey)
        else:
            common.run_pred(guarded, {'ops': [], 'register_only': True, 'k': 'all'}, s, 'tcp-truncation')
        if state['err'] is not None:
            s.extra['tcp_inconclusive_shards'] = 1
            s.notes.append('TCP shard inconclusive: %s' % (str(state['err']).strip().splitlines()[-1][:200],))
    else:
        raise HarnessError('unknown job %r' % (job,))
    return s


def run(tier, seed):
    thorough = tier == 'thorough'
    preload()
    jobs = []
    idx = [0]

    def add(kind, n, skey, parts=1):
        """parts > 1: the same Hypothesis run (same seed => same streams) in several workers, each enumerating an
        interleaved share of the split positions."""
        for p in range(parts):
            key = list(skey) if skey is not None else None
            if parts > 1:
                key[3] = [p, parts]
            jobs.append((kind, seed, idx[0], n, key))
        idx[0] += 1

    # (c) first: the longest jobs
    if thorough:
        for salt in range(4):
            for nw, n in ((4, 6), (3, 8), (2, 10), (1, 12)):
                add('tcp', n, ['tcp', nw, salt])
    else:
        for nw, n, salt in ((4, 2, 0), (4, 2, 1), (3, 2, 0), (3, 2, 1), (2, 3, 0), (2, 3, 1), (1, 4, 0)):
            add('tcp', n, ['tcp', nw, salt])
    add('tcp-register', 1, None)
    # (a)/(b) streams holding a > 4096 byte frame: the split positions of each stream dealt over several workers
    if thorough:
        for _ in range(3):
            add('framer', 3, ['sweep', 'mixed', 'one', None, False], parts=16)
        for _ in range(2):      # ~0.35 s per case: dense sampling instead of all positions
            add('client', 3, ['sweep', 'reply', 'one', None, 1], parts=16)
    else:
        add('framer', 3, ['sweep', 'mixed', 'one', None, 1], parts=8)
        add('client', 2, ['sweep', 'reply', 'one', None, 2], parts=8)
    # small streams: every two-way split
    for _ in range(12 if not thorough else 32):
        add('framer', 5 if not thorough else 40, ['sweep', 'mixed', None, None, False])
    for _ in range(8 if not thorough else 24):
        add('client', 3 if not thorough else 16, ['sweep', 'reply', None, None, False])
    # Hypothesis-drawn k-way chunkings
    for _ in range(4 if not thorough else 16):
        add('framer', 120 if not thorough else 1200, ['kway', 'mixed', None])
        add('framer', 12 if not thorough else 100, ['kway', 'mixed', 'one'])
        add('client', 60 if not thorough else 500, ['kway', 'reply', None])
        add('client', 6 if not thorough else 30, ['kway', 'reply', 'one'])
    for _ in range(4 if thorough else 2):
        add('framer', 6 if thorough else 4, ['huge'])
    stats = common.parallel(shard, jobs)
    if stats.extra.get('tcp_inconclusive_shards') and not stats.fails:
        raise HarnessError('%d TCP shard(s) inconclusive: %s' % (stats.extra['tcp_inconclusive_shards'],
                                                              '; '.join(n for n in stats.notes if n.startswith('TCP shard'))))
    sampled = ('positions within %d bytes of a frame edge, within 2 of the header/payload edge and of a 4096-byte block edge, and '
               'every %d-th position')
    big_f = 'all positions' if thorough else sampled % (40, 61) + ' (quick tier; thorough enumerates all)'
    big_c = sampled % ((40, 61) if thorough else (8, 509))
    stats.exhaustive['framer:two-way-splits'] = (
        'every cut position 1..len-1 of every generated stream without a > 4096 byte payload (EOF delivered; every 7th '
        'position also without EOF), plus byte-at-a-time, one chunk and 4096-byte blocks; streams holding a > 4096 byte '
        'payload: ' + big_f)
    stats.exhaustive['client:two-way-splits'] = (
        'every cut position 1..len-1 of every generated reply stream without a > 4096 byte payload, plus byte-at-a-time '
        'and one chunk; streams holding a > 4096 byte reply: ' + big_c)
    stats.exhaustive['tcp:truncation-offsets'] = ('every offset 0..len of every generated request stream (1..4 writes) and of the '
                                                  'Register frame of an unregistered connection')
    return stats
