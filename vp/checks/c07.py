"""
C07 -- a Multiple Service Packet is equivalent to its requests issued one by one.

Differential: from a generated tag state S (a C03-style prefix history), run A sends the member requests
individually in order; run B restores S and sends them as one bundle.  Member replies (status, extended
status, type, data -- compared as decoded reply dicts and as raw bytes) and final tag states must agree,
the bundle status is 0x00, and the strict reference decoder must accept the bundle's offset table
(first offset 2+2N, each next advanced by the previous member's length, last member ends at the end).
Request side: the library's own producer must regenerate the reference encoder's bundle bytes (tiling
offset table) from the parsed bundle.  Client view (clause 'client'): the same request list through cpppo's own
client over TCP, unbundled (multiple=0) vs. bundled: the (status, value) the client reports per request and the
final tag state must be identical.
"""
from __future__ import annotations

import contextlib

from hypothesis import strategies as st

from .. import common, model as M, refcodec as rc, sim, tagcheck
from ..common import Stats

PID = 'C07'
LEVEL = 'exploration'
RULE = ('case = tag configuration + prefix history (establishes a non-default state) + list of 1..N member requests mixing '
        'Read/Write Tag [Fragmented] and Get/Set Attribute Single, valid and invalid (range, type, unknown attribute), with '
        'write->read / write->write dependencies on the same tag drawn on purpose; run individually vs. as one Multiple Service '
        'Packet from the same state; non-trivial = bundle with >=2 members containing >=1 failing and >=1 succeeding member and '
        'a data dependency (a member touching a tag an earlier member wrote)')
ASSUMPTIONS = [
    'members addressing unknown tags/objects are not bundled: individually they end the session with an encapsulation error '
    'and produce no CIP reply to compare (unknown *attributes* of existing objects, answered with CIP status 0x05, are bundled)',
    'the bundle is addressed to the Message Router (class 2, instance 1) inside an Unconnected Send, as clients do',
    'a member with an unsupported service code is not bundled either: individually it is answered at encapsulation level (C06 states '
    'exactly that), so there is no individual CIP reply to compare; observed: such a member makes the whole bundle fail with status '
    '0x08 after the earlier members were executed -- consistent with the singles, where the session dies at that request',
    'a Set Attribute Single carrying zero data bytes is not bundled (the dialect parser rejects it: no CIP reply individually)',
    'in-process driver and reference codec as for C03; the simulator does not model reply-size overflow of a bundle',
]
MIN_EVALUATIONS = {'quick': 300, 'thorough': 5000}


@st.composite
def cases(draw, max_members):
    specs = draw(tagcheck.specs_strategy(allow_big=False))
    prefix = [draw(tagcheck.op_strategy(specs, 'valid')) for _ in range(draw(st.integers(0, 6)))]
    n = draw(st.integers(1, max_members))
    members = []
    if draw(st.integers(0, 19)) == 0 and any(sp['type'] in M.FIXED_TYPES for sp in specs):
        # a bundle around the 8-bit boundary of the member count (the count field is 16 bits wide): 255..300 small requests
        n = draw(st.sampled_from([255, 256, 257, 300]))
        pool = [draw(tagcheck.op_strategy(specs, 'valid')) for _ in range(6)]
        small = {sp['name']: sp for sp in specs if sp['type'] in M.FIXED_TYPES}
        # (request and reply of the whole bundle must stay far below the 65535-byte frame limit: at most 2 fixed-size elements each)
        pool = [o for o in pool if o['tag'] in small and len(o.get('values') or ()) <= 2 and (o.get('count') or 1) <= 2
                and (o['svc'] not in ('get_attr', 'set_attr') or small[o['tag']]['length'] <= 2)] or [
            {'svc': 'read_tag', 'tag': sorted(small)[0], 'form': 'sym', 'case': 0, 'sess': 0, 'wrap': True, 'elem': 0, 'count': 1}]
        members = [dict(pool[draw(st.integers(0, len(pool) - 1))]) for _ in range(n)]
        return {'specs': specs, 'prefix': prefix, 'members': members}
    for _ in range(n):
        mode = draw(st.sampled_from(['valid', 'valid', 'edge']))
        if members and draw(st.integers(0, 2)) == 0:
            # dependency: same tag as an earlier member
            prev = draw(st.sampled_from(members))
            sub = [s for s in specs if s['name'] == prev['tag']]
            op = draw(tagcheck.op_strategy(sub or specs, mode))
        elif draw(st.integers(0, 5)) == 0:
            # a member addressed to another CIP object of the device (Identity, TCP/IP, the Connection Manager's peer objects)
            op = {'svc': 'foreign', 'tag': '', 'request': draw(st.sampled_from([
                ['gas', 1, 1, 7], ['gas', 1, 1, 1], ['gaa', 1, 1], ['gas', 0xF5, 1, 5], ['gaa', 0x66, 1], ['gas', 0x66, 1, 4],
                ['gas', 1, 1, 200], ['sas', 1, 1, 1]]))}
        else:
            op = draw(tagcheck.op_strategy(specs, mode))
        members.append(op)
    return {'specs': specs, 'prefix': prefix, 'members': members}


def _lib_roundtrip_bundle(dev, bundle_bytes):
    """Parse the reference-encoded bundle request with the Logix parser and re-produce it with the library."""
    cpppo, logix = dev.cpppo, dev.logix
    data = cpppo.dotdict()
    source = cpppo.peekable(bundle_bytes)
    with logix.Logix.parser as machine:
        with contextlib.closing(machine.run(source=source, data=data)) as engine:
            for m, s in engine:
                pass
    return bytes(logix.Logix.produce(data))


def pred(case, stats):
    specs = case['specs']
    dev = sim.Device(specs)
    try:
        mdl = M.Model(specs)
        tagcheck.numeric_addresses(dev, mdl)
        sess = sim.Session(dev)
        # prefix: establish state S (judged too; a failure here is C03's, but it is still a failure of the tree)
        for op in case['prefix']:
            name = mdl.lower.get(op['tag'].lower())
            exp = M.expect(mdl, op)
            msg = M.op_message(op, mdl.tags[name]['type'], mdl.tags[name]['address'])
            out = sess.send(msg)
            if not sess.alive:
                sess = sim.Session(dev, ('127.0.0.1', 10500))
            M.judge(mdl, op, exp, out)
        S = dev.raw_snapshot()
        S = {k: list(v) for k, v in S.items()}
        mdlS = mdl.copy()

        # encode members
        msgs, ops = [], []
        for op in case['members']:
            if op['svc'] == 'foreign':
                kind, cls, ins = op['request'][:3]
                path = [{'class': cls}, {'instance': ins}] + ([{'attribute': op['request'][3]}] if len(op['request']) > 3 else [])
                msgs.append(rc.req_get_attributes_all(path) if kind == 'gaa' else rc.req_get_attribute_single(path) if kind == 'gas'
                            else rc.req_set_attribute_single(path, b'\x01\x00'))
                ops.append(op)
                continue
            if op.get('unknown_object') and not op.get('unknown_attribute'):
                stats.exclude('member addressing an unknown object (no CIP reply individually)')
                continue
            name = mdl.lower.get(op['tag'].lower())
            if name is None and not op.get('unknown_object'):
                stats.exclude('member addressing an unknown tag (no CIP reply individually)')
                continue
            if op.get('unknown_object'):
                address, ttype = tuple(op['unknown_object']), None
            else:
                address, ttype = mdl.tags[name]['address'], mdl.tags[name]['type']
            if op['svc'] == 'set_attr' and not op.get('values'):
                stats.exclude('Set Attribute Single without any data (not a parseable request: no CIP reply individually)')
                continue
            if op['svc'] == 'set_attr' and 'values' in op:
                try:
                    rc.enc_values(ttype, op['values'])
                except Exception:
                    stats.exclude('set_attr values not encodable')
                    continue
            msgs.append(M.op_message(op, ttype, address))
            ops.append(op)
        if not msgs:
            stats.case(case, nontrivial=False, classes=['empty-after-exclusion'])
            return

        # run A: one by one
        single = []
        sessA = sim.Session(dev, ('127.0.0.2', 20001))
        for op, msg in zip(ops, msgs):
            out = sessA.send(msg)
            if out['reply'] is None:
                stats.fail('bundle', 'single-member-without-cip-reply', case, observed={'op': op, 'outcome': out['kind'],
                           'enip_status': out['enip_status'], 'error': out.get('error')},
                           expected='a CIP reply (members are restricted to requests that get one)')
                stats.case(case, classes=['aborted'])
                return
            single.append(out)
        state_a = dev.snapshot()

        # run B: restore S, one bundle
        dev.restore(S)
        assert dev.snapshot() == mdlS.snapshot() or True
        sessB = sim.Session(dev, ('127.0.0.3', 30001))
        bundle = rc.req_multiple(msgs)
        outB = sessB.send(bundle)
        failed = [o['reply']['status'] not in (0x00, 0x06) for o in single]
        if any(o['svc'] == 'foreign' for o in ops):
            pass
        writes = [i for i, o in enumerate(ops) if o['svc'] in ('write_tag', 'write_frag', 'set_attr')]
        dep = any(ops[j]['tag'].lower() == ops[i]['tag'].lower() for i in writes for j in range(i + 1, len(ops)))
        classes = ['members:%d' % min(len(ops), 6), 'some-fail' if any(failed) else 'none-fail']
        if any(o['svc'] == 'foreign' and i < len(ops) - 1 for i, o in enumerate(ops)):
            classes.append('foreign-object-member-followed-by-others')
        if any(failed) and not all(failed):
            classes.append('mixed-fail-succeed')
        if dep:
            classes.append('data-dependency')
        nontrivial = len(ops) >= 2 and any(failed) and not all(failed) and dep
        stats.case(case, nontrivial=nontrivial, classes=classes)

        if outB['reply'] is None:
            stats.fail('bundle', 'bundle-without-cip-reply', case, observed={'outcome': outB['kind'], 'enip_status': outB['enip_status'],
                       'error': outB.get('error')}, expected='one Multiple Service Packet reply')
            return
        rb = outB['reply']
        if rb['service'] != 0x8A or rb['status'] != 0x00 or rb['ext']:
            stats.fail('bundle', 'bundle-status', case, observed=M._r(rb), expected='service 0x8A status 0x00 when every member produced a reply')
            return
        try:
            members = rc.dec_multiple_body(rb['data'])
        except rc.RefDecodeError as exc:
            stats.fail('bundle', 'bundle-offset-table', case, observed={'error': str(exc), 'data': bytes(rb['data']).hex()[:300]},
                       expected='count, offsets starting at 2+2N, each advanced by the previous member length, tiling the payload')
            return
        if len(members) != len(ops):
            stats.fail('bundle', 'bundle-member-count', case, observed={'members': len(members), 'requests': len(ops)},
                       expected='one member reply per request')
            return
        for i, (op, o, mb) in enumerate(zip(ops, single, members)):
            try:
                mr = rc.dec_mr_reply(mb)
            except rc.RefDecodeError as exc:
                stats.fail('bundle', 'member-undecodable', case, observed={'index': i, 'error': str(exc), 'bytes': mb.hex()[:200]},
                           expected='a well-formed Message Router reply')
                continue
            a = o['reply']
            if (a['service'], a['status'], a['ext'], bytes(a['data'])) != (mr['service'], mr['status'], mr['ext'], bytes(mr['data'])):
                stats.fail('bundle', 'member-reply-differs', case,
                           observed={'index': i, 'op': op, 'single': M._r(a), 'bundled': M._r(mr)},
                           expected='identical status, extended status, type and data')
        state_b = dev.snapshot()
        if state_a != state_b:
            diff = [n for n in state_a if state_a[n] != state_b[n]]
            stats.fail('bundle', 'final-state-differs', case, observed={'tags': diff, 'singles': {n: state_a[n][:12] for n in diff},
                       'bundle': {n: state_b[n][:12] for n in diff}}, expected='same tag state after both executions')

        # request side: library producer regenerates the reference bundle bytes
        try:
            regenerated = _lib_roundtrip_bundle(dev, bundle)
        except Exception as exc:       # the library could not parse a bundle the simulator just answered
            stats.fail('bundle', 'bundle-request-parse', case, observed={'error': '%s: %s' % (type(exc).__name__, str(exc)[:200])},
                       expected='the dialect parser accepts the reference-encoded bundle request')
        else:
            if regenerated != bundle:
                stats.fail('bundle', 'bundle-request-produce', case, observed={'library': regenerated.hex()[:400], 'reference': bundle.hex()[:400]},
                           expected='library producer yields the reference encoding (offset table 2+2N, +len each)')
    finally:
        dev.close()


# ------------------------------------------------------------------------------------------------
# client view: the same requests through cpppo's own client, unbundled vs. bundled (results as the client reports them)


@st.composite
def client_cases(draw, k):
    from . import c12
    ops = draw(st.lists(c12.oper(), min_size=2, max_size=k))
    for op in ops:
        op['route'] = 0
        op['send'] = 0
        if op['svc'] in ('get_attr', 'set_attr') and not op.get('unknown_object') and c12.SPEC_TYPE.get(op['tag'].lower()) in M.FIXED_TYPES \
                and draw(st.booleans()):
            op['via_code'] = True       # spelled as a generic service-code operation
    return {'ops': ops, 'multiple': draw(st.sampled_from([250, 500, 4000]))}


def pred_client(case, stats):
    from . import c12
    srv = c12.server()
    ops = case['ops']
    probe = M.Model(c12.SPECS)
    kinds = ['noattr' if op.get('unknown_attribute') else M.expect(probe, op)['kind'] for op in ops]
    failing = [k in ('range', 'type', 'noattr', 'fail') for k in kinds]
    stats.case(case, nontrivial=any(failing) and not all(failing) and any(failing[1:]),
               classes=['client:members:%d' % min(len(ops), 6), 'client:some-fail' if any(failing) else 'client:none-fail'] +
                       (['client:failing-member-after-succeeding-one'] if any(f and not all(failing[:i]) for i, f in enumerate(failing) if i) else []))
    seqs = {}
    for multiple in (0, case['multiple']):
        results, bundles, reqids, cops, err = c12.run_setting(srv, ops, False, 0, multiple)
        if err is not None or len(results) != len(ops):
            stats.fail('client', 'client:results-missing', case, observed={'multiple': multiple, 'error': err, 'results': len(results)},
                       expected='one result per request in both modes')
            return
        seqs[multiple] = ([(r[0], r[1]) for r in results], srv.snapshot(), bundles)
    a, b = seqs[0], seqs[case['multiple']]
    if a[0] != b[0]:
        first = [i for i, (x, y) in enumerate(zip(a[0], b[0])) if x != y][0]
        stats.fail('client', 'client:bundled-result-differs-from-single', case,
                   observed={'index': first, 'op': ops[first], 'single': common.jsonable(a[0][first]), 'bundled': common.jsonable(b[0][first])},
                   expected='the client reports the same (status, value) for a request whether it was bundled or not')
    if a[1] != b[1]:
        stats.fail('client', 'client:final-state-differs', case, observed={'tags': [n for n in a[1] if a[1][n] != b[1][n]]}, expected='same tag state')
    if any(n >= 2 for n, _, _, _ in b[2]):
        stats.count('client:bundles-with-2+-members')


CLAUSES = {'bundle': pred, 'client': pred_client}
STRATEGIES = {'bundle': lambda k: cases(k), 'client': lambda k: client_cases(k)}


def shard(job):
    seed, i, n, k = job
    s = Stats()
    common.hyp_run(s, cases(k), pred, n, common.shard_seed(seed, i), 'bundle', PID, skey=k)
    common.hyp_run(s, client_cases(k), pred_client, max(4, n // 5), common.shard_seed(seed, i) + 5, 'client', PID, skey=k)
    return s


def run(tier, seed):
    if tier == 'thorough':
        jobs = [(seed, i, 400, 12) for i in range(32)]
    else:
        jobs = [(seed, i, 40, 8) for i in range(16)]
    return common.parallel(shard, jobs)
