"""
C03 -- tags behave as typed arrays: a read returns the most recently written values.

Generated tag configurations x request histories (two sessions, symbolic / numeric addressing, name case
varied, Unconnected-Send wrapped or bare requests) executed against a fresh in-process simulator; every
reply and, after every step, every tag's Attribute value is compared with a typed-array reference model.
"""
from __future__ import annotations

from hypothesis import strategies as st

from .. import common, sim, tagcheck
from ..common import Stats

PID = 'C03'
LEVEL = 'exploration'
RULE = ('case = tag configuration (2..6 tags; 13 element types; scalar/array up to 40, occasionally 600; auto-allocated, '
        'explicit @class/instance/attribute incl. 16-bit ids, aliases sharing one attribute) + history of 1..N requests '
        '(Read/Write Tag [Fragmented], Get/Set Attribute Single; symbolic or numeric path; two sessions); non-trivial = '
        'the history contains a successful read covering an element last written through a different service family, '
        'address form or alias name (state compared with the model after every step, so untouched neighbours are '
        'verified each time); plus a few histories on one tag of 40000 elements (short reads/writes at start indices around 255/256 and '
        '32767/32768 and anywhere above, each write re-read through the other address form and session)')
ASSUMPTIONS = [
    'a second engine runs the same kind of histories over TCP against enip.main.main() itself (tags built by main() from its '
    'command line; one generated configuration per worker process, reset to the simulator\'s own initial values per history)',
    'in-process driver performs the same three steps as enip_srv_tcp (enip_machine framing, logix.process, enip_encode); '
    'tags are built the way enip.main.main() builds them from its command line',
    'requests are encoded and replies decoded by the independent reference codec (vp/refcodec.py)',
    'a bare (unwrapped) Read Tag Fragmented is not generated: its service code 0x52 is documented as indistinguishable '
    'from an Unconnected Send',
    'tag names where one is a dotted prefix of another are not generated (symbol resolution is by first known prefix)',
    'seven in eight requests are valid (in bounds, request type = tag type, values within the type\'s range); one in eight is '
    'drawn from C05\'s boundary generator (out of bounds, cross-type, wrong-size Set Attribute Single, unknown tag): the same '
    'model then demands a refusal that changes nothing -- "a write changes only the addressed elements of the addressed tag"',
]
MIN_EVALUATIONS = {'quick': 300, 'thorough': 5000}


def pred(case, stats):
    tagcheck.run_history(case, stats, PID, 'history')


@st.composite
def big_cases(draw, max_ops):
    """One tag of 40000 elements (start indices in the upper half of the 16-bit element segment) next to a small one; valid
    single-request reads and writes of short ranges anywhere in it, biased to the 255/256 and 32767/32768 index boundaries."""
    t = draw(st.sampled_from(['SINT', 'INT', 'DINT']))
    L = 40000
    specs = [{'name': 'Big', 'type': t, 'length': L, 'address': None}, {'name': 'Nb', 'type': 'INT', 'length': 3, 'address': None}]
    ops = []
    for _ in range(draw(st.integers(2, max_ops))):
        svc = draw(st.sampled_from(['read_tag', 'write_tag', 'write_tag', 'read_frag', 'write_frag']))
        e = draw(st.one_of(st.integers(32760, 32775), st.integers(250, 260), st.integers(0, L - 20), st.integers(32768, L - 20)))
        n = draw(st.integers(1, 12))
        op = {'svc': svc, 'tag': 'Big', 'form': draw(st.sampled_from(['sym', 'sym', 'num'])), 'case': 0, 'sess': draw(st.integers(0, 1)),
              'wrap': True, 'elem': e, 'count': n}
        if svc in ('read_frag', 'write_frag'):
            op['offset'] = 0
        if svc in ('write_tag', 'write_frag'):
            op['type'] = t
            op['values'] = draw(st.lists(tagcheck.value_of(t), min_size=n, max_size=n))
        ops.append(op)
        if svc.startswith('write'):
            ops.append(dict(op, svc='read_tag', sess=1 - op['sess'], form='num' if op['form'] == 'sym' else 'sym'))
            for k in ('type', 'values', 'offset'):
                ops[-1].pop(k, None)
    return {'specs': specs, 'ops': ops}


CLAUSES = {'history': pred, 'tcp-history': lambda case, stats: pred_tcp_replay(case, stats)}
STRATEGIES = {'history': lambda k: big_cases(k[1]) if isinstance(k, (tuple, list)) else tagcheck.case_strategy('mixed', k)}


# -- the same histories over TCP against enip.main.main() (one generated configuration per worker process): tagcheck.tcp_*


def pred_tcp(case, stats):
    tagcheck.pred_tcp(case, stats, PID)


def tcp_shard(job):
    _, seed, i, n, max_ops = job
    return tagcheck.tcp_shard(PID, 'mixed', seed, i, n, max_ops, pred_tcp)


def shard(job):
    if job[0] == 'tcp':
        return tcp_shard(job)
    if job[0] == 'big':
        _, seed, i, n, max_ops = job
        s = Stats()
        common.hyp_run(s, big_cases(max_ops), pred, n, common.shard_seed(seed, 100 + i), 'history', PID, skey=('big', max_ops))
        return s
    seed, i, n, max_ops = job
    s = Stats()
    common.hyp_run(s, tagcheck.case_strategy('mixed', max_ops), pred, n, common.shard_seed(seed, i), 'history', PID, skey=max_ops)
    return s


def pred_tcp_replay(case, stats):
    """Replay of a TCP failure: the case names its configuration; run it in-process and (if no server runs yet in this
    process) over TCP."""
    tagcheck.run_history(case, stats, PID, 'history')
    if not tagcheck._TCP:
        pred_tcp(case, stats)


def run(tier, seed):
    if tier == 'thorough':
        jobs = [(seed, i, 400, 60) for i in range(32)] + [('tcp', seed, i, 120, 40) for i in range(16)] + [('big', seed, i, 60, 12) for i in range(8)]
    else:
        jobs = [(seed, i, 40, 25) for i in range(16)] + [('tcp', seed, i, 10, 20) for i in range(8)] + [('big', seed, i, 6, 8) for i in range(4)]
    return common.parallel(shard, jobs)
