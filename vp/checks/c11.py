"""
C11 — regular-expression machines accept exactly the expression's language
(automata.py: state.from_regex, regex, regex_bytes, regex_bytes_promote and the dfa/state machinery).

Oracle: Brzozowski derivatives over an own regex AST (vp/regexref.py; no greenery, no re).  For an
expression r and an input w:   k = length of the longest prefix p of w that is still a prefix of some
sentence of L(r) (derivative not the empty language);  accepted = (k >= 1 and p in L(r)).
Expected from the machine (always built with terminal=True, driven the way echo.py / test_codecs drive
it: iterate run(); on a non-transition with no pending symbol chain the next non-empty chunk; iterate
to the end):
    source.sent == k;  data[<context>.input] == p  (absent or empty when k == 0);
    machine.terminal == accepted;  NonTerminal raised  <=>  not accepted;
    source.peek() == w[k] (None at end of input)  — the offending symbol is never absorbed;
    the same for every chunking.

Bytes machines (regex_bytes, regex_bytes_promote) — how the statement is read, per expression profile:
  ascii     no multi-byte symbol in the expression: the AST is lowered to bytes, a wildcard ('.', negated
            class) is exactly one byte; inputs are arbitrary byte strings.                        [exact]
  mb        exactly one distinct symbol, multi-byte, no wildcard: every literal becomes the sequence of
            its UTF-8 bytes; inputs are arbitrary byte strings (a prefix may end inside a character). [exact]
  mb+wild   one distinct multi-byte symbol S plus wildcards: from_regex documents a per-state
            approximation (an "anychar" is one byte, or the lead bytes of S followed by a byte that does
            not continue S).  On inputs that are a byte-prefix of the UTF-8 encoding of a text over
            {a,b,c,S,S'} (S' = S with the last byte changed, i.e. same lead bytes) that approximation
            coincides with ordinary character semantics, which is then the oracle — provided the
            expression has no alternation (greenery merges `S|.` into `.`, which removes S from the
            automaton's alphabet, so the approximation is then a different one).                   [exact]
            On any other input, or with an alternation, only the weak predicate (terminates; stored
            bytes == consumed prefix; NonTerminal <=> not terminal) is checked.                     [weak]
  (mode bytes-fsm: regex_bytes constructed from a greenery.fsm over exactly the expression's symbols, without
            the anything-else symbol — no state has a wildcard edge at all; profiles ascii / mb, exact.)
  refuse    a multi-byte symbol together with a second distinct symbol: regex_bytes documents that it
            cannot encode these; the construction must raise that AssertionError (or build, then weak).
"""
from __future__ import annotations

import array
import json

from hypothesis import strategies as st

from .. import common
from .. import regexref as R
from ..common import Stats

PID = 'C11'
LEVEL = 'exploration'
RULE = ('cases = (machine class str|bytes|promote|bytes-fsm, regex AST, input, chunking). Exhaustive tier: every AST up to '
        'the size bound over atoms {a, b, ., [^a], [ab]} with *, +, ?, {2}, {1,2}, {2,}, cat, alt  x  every string over '
        '{a,b,c} up to the length bound, on cpppo.regex (input in one piece) and on cpppo.regex_bytes (one symbol per '
        'chunk); and for S in {π, €}: every AST up to 3 (thorough 4) nodes over {S, ., [^S]} x every UTF-8 text over {a,S,S\',S\'\'} (S\' differs in the last byte, S\'\' shares only the lead byte) up to 4 '
        'characters (also cut inside the last character) and every AST over {S} x every short string over the bytes of S,S\', on '
        'cpppo.regex_bytes. Random tier: Hypothesis ASTs up to 12 nodes over {a,b,c,π,€} (str) or one of the bytes '
        'profiles (also regex_bytes built from a greenery.fsm without an anything-else symbol), inputs up to 24 symbols produced by a walk that mostly follows viable symbols of the reference '
        'derivative and then leaves the language, random chunkings (cuts inside multi-byte characters included). '
        'non-trivial = the expected consumed prefix is a proper non-empty prefix of the input, or a viable but '
        'non-accepting prefix extends beyond the longest accepting one')
ASSUMPTIONS = [
    'machines are constructed with terminal=True and a context; the caller iterates run() to its end, chaining the next '
    'chunk only on a non-transition with no symbol pending; chunks are non-empty (an empty read means EOF to every caller '
    'in the repository, and dfa documents that the caller must change the conditions after a non-transition)',
    'a machine instance is reused for successive inputs, as echo_server does; a disagreement is re-checked on a fresh instance',
    'expression syntax is limited to what the renderer emits: single letters, [..]/[^..] of letters, ., |, (), *, +, ?, {m}, {m,}, {m,n} with n>=1',
    'bytes machines: wildcard = one byte when the expression has no multi-byte symbol; with one multi-byte symbol and '
    'wildcards the exact oracle applies only to expressions without alternation on (byte-prefixes of) UTF-8 texts over {a,b,c,S,S\'} '
    '(elsewhere: weak predicate, counted as profile:mb+wild(weak)); expressions mixing a '
    'multi-byte symbol with another symbol are documented as not encodable (AssertionError at construction is accepted)',
    'trusted base: vp/regexref.py, self-tested at start against re.fullmatch on the shared syntax (accept and viability, str and bytes)',
]
MIN_EVALUATIONS = {'quick': 1700000, 'thorough': 44000000}

CTX = 'r'
EX_ATOMS = [['lit', 'a'], ['lit', 'b'], ['dot'], ['cls', ['a'], True], ['cls', ['a', 'b'], False]]
EX_REPS = [(2, 2), (1, 2), (2, None)]
EX_ALPHA = 'abc'
MB_SYMS = ['π', '€', '𐍈', 'é', 'ÿ']          # 2, 3 and 4 byte encodings; é and ÿ lie in U+0080..U+00FF (one Latin-1 byte, two UTF-8 bytes)
STEP_CAP = 4000


def sibling(ch):
    """The character whose UTF-8 encoding differs from ch's only in the last byte."""
    return chr(ord(ch) ^ 1)


def cousin(ch):
    """For a character of >= 3 UTF-8 bytes: a character sharing only the lead byte (second byte differs); else None."""
    enc = ch.encode('utf-8')
    if len(enc) < 3:
        return None
    other = bytes([enc[0], enc[1] ^ 0x06]) + enc[2:]
    try:
        out = other.decode('utf-8')
    except UnicodeDecodeError:
        return None
    return out if len(out) == 1 and out.encode('utf-8')[0] == enc[0] and out.encode('utf-8')[1] != enc[1] else None


# ------------------------------------------------------------------------------------------------
# plans: everything derived from (mode, ast), cached


class Plan(object):
    __slots__ = ('mode', 'rx', 'profile', 'matcher', 'sym', 'enc', 'universe', 'machine', 'refusal', 'feats', 'prev',
                 'fresh', 'rechecks', 'alt')


_PLANS = {}
_PLAN_ORDER = []
PLAN_CACHE = 6


def _classes():
    import cpppo
    return {'str': cpppo.regex, 'bytes': cpppo.regex_bytes, 'promote': cpppo.regex_bytes_promote, 'bytes-fsm': cpppo.regex_bytes,
            'strbytes': cpppo.string_bytes}      # the collecting wrapper without decode=: documented to hand back the raw bytes


def fsm_of(ast):
    """The expression as a complete greenery.fsm over exactly the symbols it mentions — no anything-else
    symbol, hence no state of the translated machine has a wildcard edge.  (Input construction for
    from_regex's documented fsm form; the automaton is the derivative automaton of the reference.)"""
    import greenery.fsm
    m = R.Matcher(ast)
    alphabet = sorted(R.symbols(ast))
    ids = {m.start: 0}
    todo = [m.start]
    table = {}
    while todo:
        node = todo.pop()
        row = table[ids[node]] = {}
        for c in alphabet:
            nxt = m.step(node, c)
            if nxt not in ids:
                ids[nxt] = len(ids)
                todo.append(nxt)
            row[c] = ids[nxt]
    finals = set(i for node, i in ids.items() if m.nullable(node))
    return greenery.fsm.fsm(alphabet=set(alphabet), states=set(table), initial=0, finals=finals, map=table)


def rctx_of(mode, rx):
    """Half of the machines (not the promoting ones) are built with a regex_context: the consumed prefix is then documented to be
    collected at <context>.<regex_context>.input instead of <context>.input."""
    import zlib
    return 'head' if mode not in ('promote', 'strbytes') and zlib.crc32(rx.encode('utf-8')) % 2 else None


def _build(mode, rx, ast):
    """-> (machine, None) or (None, exception)"""
    cls = _classes()[mode]
    kw = {'regex_context': rctx_of(mode, rx)} if rctx_of(mode, rx) else {}
    if mode == 'strbytes':
        kw = {'greedy': True}       # (the wrapper defaults to greedy=False; greedy=True is the longest-prefix machine of the statement)
    try:
        return cls(name='c11', context=CTX, initial=fsm_of(ast) if mode == 'bytes-fsm' else rx, terminal=True, **kw), None
    except AssertionError as exc:
        return None, exc


def plan_for(mode, ast):
    key = (mode, json.dumps(ast, ensure_ascii=False))
    p = _PLANS.get(key)
    if p is not None:
        return p
    p = Plan()
    p.mode = mode
    p.rx = R.render(ast)
    p.feats = sorted(R.features(ast))
    p.sym = p.enc = p.universe = None
    p.prev = None
    p.fresh = None
    p.rechecks = 0
    p.alt = False
    syms = R.symbols(ast)
    multi = sorted(s for s in syms if len(s.encode('utf-8')) > 1)
    if mode == 'str':
        p.profile = 'str'
        p.matcher = R.Matcher(ast)
    elif not multi:
        p.profile = 'ascii'
        p.matcher = R.Matcher(R.lower_bytes(ast))
    elif len(syms) > 1:
        p.profile = 'refuse'
        p.matcher = None
    else:
        p.sym = multi[0]
        p.enc = p.sym.encode('utf-8')
        if R.has_wildcard(ast):
            p.profile = 'mb+wild'
            p.universe = ['a', 'b', 'c', p.sym, sibling(p.sym)]
            if cousin(p.sym):
                # a character sharing only S's lead byte is, under the documented approximation, two "anychars": the lead
                # byte(s) of S followed by a byte that does not continue S, and then each remaining byte on its own
                ce, k = cousin(p.sym).encode('utf-8'), 1
                while ce[k] == p.enc[k]:
                    k += 1
                p.universe += [ce[:k + 1]] + [ce[j:j + 1] for j in range(k + 1, len(ce))]
            p.matcher = R.Matcher(R.lower_bytes(ast, set(p.universe)))
        else:
            p.profile = 'mb'
            p.matcher = R.Matcher(R.lower_bytes(ast))
    if mode == 'bytes-fsm' and R.has_wildcard(ast):
        raise common.HarnessError('bytes-fsm cases carry no wildcard')
    p.machine, p.refusal = _build(mode, p.rx, ast)
    _PLANS[key] = p
    _PLAN_ORDER.append(key)
    if len(_PLAN_ORDER) > PLAN_CACHE:
        _PLANS.pop(_PLAN_ORDER.pop(0), None)
    return p


# ------------------------------------------------------------------------------------------------
# driving the real machine


def pieces_of(inp, cuts):
    cuts = sorted(set(c for c in cuts if 0 < c < len(inp)))
    out, a = [], 0
    for c in cuts + [len(inp)]:
        out.append(inp[a:c])
        a = c
    return out            # [inp] when there are no cuts (also for the empty input)


def drive(machine, inp, cuts, rctx=None):
    import cpppo
    rest = pieces_of(inp, cuts)
    source = cpppo.chainable(rest.pop(0))
    data = cpppo.dotdict()
    exc = None
    steps = 0
    hung = False
    with machine:
        try:
            for _mch, sta in machine.run(source=source, data=data):
                steps += 1
                if steps > STEP_CAP:
                    hung = True
                    break
                if sta is None and rest and source.peek() is None:
                    source.chain(rest.pop(0))
        except cpppo.NonTerminal:
            exc = 'NonTerminal'
        terminal = bool(machine.terminal)
    promoted = data.get(CTX)
    if isinstance(promoted, (bytes, str)) and not isinstance(promoted, array.array):
        # the collecting wrapper stored its result (bytes for a bytes machine without decode=)
        peek = source.peek()
        return {'sent': source.sent, 'stored': promoted, 'stored_at': CTX, 'terminal': terminal, 'exc': exc, 'peek': peek, 'hung': hung,
                'unfed_chunks': len(rest)}
    if isinstance(promoted, array.array):
        stored, where = promoted, CTX
    else:
        where = CTX + ('.' + rctx if rctx else '') + '.input'
        stored = data.get(where)
        if stored is None and rctx and data.get(CTX + '.input') is not None:
            stored, where = data.get(CTX + '.input'), CTX + '.input (not under the regex_context %r given)' % rctx
    if stored is None:
        got = inp[:0]
    elif stored.typecode == 'B':
        got = stored.tobytes()
    else:
        got = stored.tounicode()
    peek = source.peek()
    return {'sent': source.sent, 'stored': got, 'stored_at': where if stored is not None else None,
            'terminal': terminal, 'exc': exc, 'peek': peek, 'hung': hung, 'unfed_chunks': len(rest)}


def show(v):
    return common.hx(v) if isinstance(v, (bytes, bytearray)) else v


def obs_json(o):
    return {k: show(v) for k, v in o.items()}


# ------------------------------------------------------------------------------------------------
# the predicate


def text_prefix_over(inp, universe):
    """inp (bytes) is a byte-prefix of the UTF-8 encoding of a text over `universe`?"""
    encs = [c if isinstance(c, bytes) else c.encode('utf-8') for c in universe]
    i = 0
    while i < len(inp):
        for e in encs:
            if inp.startswith(e, i):
                i += len(e)
                break
        else:
            tail = inp[i:]
            return any(e.startswith(tail) and len(tail) < len(e) for e in encs)
    return True


def _key(n):
    return json.dumps(n, ensure_ascii=False)


MULT = {'star': (0, None), 'plus': (1, None), 'opt': (0, 1)}


def power_profile(n):
    """(base, lo, hi) such that L(n) = union of L(base)^i for lo <= i <= hi (hi None = unbounded); the
    trivial answer is (n, 1, 1).  Multipliers are combined only where the product is a contiguous range:
    {p,p+q}*{r,r+s} = {pr,(p+q)(r+s)}  iff  s = 0 or q*r + 1 >= p   (with inf*0 = 0)."""
    t = n[0]
    if t in R.ATOMIC:
        return (_key(n), 1, 1)
    k, lo, hi = power_profile(n[1])
    if t == 'alt':                               # x{3,}|x{2,} = x{2,} when the ranges touch
        k2, lo2, hi2 = power_profile(n[2])
        if k2 == k and (hi is None or lo2 <= hi + 1) and (hi2 is None or lo <= hi2 + 1):
            return (k, min(lo, lo2), None if hi is None or hi2 is None else max(hi, hi2))
        return (_key(n), 1, 1)
    if t == 'cat':
        k2, lo2, hi2 = power_profile(n[2])
        if k2 != k:
            return (_key(n), 1, 1)
        return (k, lo + lo2, None if hi is None or hi2 is None else hi + hi2)
    r, rmax = MULT[t] if t in MULT else (n[2], n[3])
    if rmax is not None and rmax == r:
        ok = True
    elif hi is None:
        ok = (r >= 1) or lo <= 1
    else:
        ok = (hi - lo) * r + 1 >= lo
    if not ok:
        return (_key(n[1]), r, rmax)             # the operand itself is the base
    return (k, lo * r, None if hi is None or rmax is None else hi * rmax)


def canon_ast(n):
    """Same language, one spelling: every atom a class, unions of classes folded (as greenery's charclass does)."""
    t = n[0]
    if t == 'lit':
        return ['cls', [n[1]], False]
    if t == 'dot':
        return ['cls', [], True]
    if t == 'cls':
        return ['cls', sorted(n[1]), bool(n[2])]
    if t in ('cat', 'alt'):
        a, b = canon_ast(n[1]), canon_ast(n[2])
        if t == 'alt' and a == b:
            return a
        if t == 'alt' and a[0] == 'cls' and b[0] == 'cls':
            A, B = set(a[1]), set(b[1])
            if not a[2] and not b[2]:
                return ['cls', sorted(A | B), False]
            if a[2] and b[2]:
                return ['cls', sorted(A & B), True]
            return ['cls', sorted((A - B) if a[2] else (B - A)), True]
        return [t, a, b]
    return [t, canon_ast(n[1])] + list(n[2:])


def greenery_reading(ast):
    """The expression as greenery 2.1 reduces it: a multiplier with minimum 0 ( ? , * , {0,n} ) applied to
    x{p,} with p >= 2 (however spelled: xx+, (x{2,3})+, ...) becomes x*, because lego.bound.__mul__
    evaluates inf*0 as inf and multiplier.canmultiplyby({p,inf},{0,..}) therefore holds; likewise x|x{4,}, which
    greenery factors into x(x{3,})?, becomes x+.  Used only to *name* a disagreement: the signature is given
    only if the machine behaves exactly like the reference evaluated on this reading."""
    t = ast[0]
    if t in R.ATOMIC:
        return ast
    if t in ('cat', 'alt'):
        a, b = greenery_reading(ast[1]), greenery_reading(ast[2])
        if t == 'alt':
            # x{i,j}|x{p,} with p > j+1 is factored into x{i}(x{..}|x{p-i,})?-like pieces and hits the same product
            ka, la, ha = power_profile(a)
            kb, lb, hb = power_profile(b)
            if ka == kb and (ha is None) != (hb is None):
                lo_open, hi_closed = (la, hb) if ha is None else (lb, ha)
                if lo_open > hi_closed + 1:
                    return ['rep', json.loads(ka), min(la, lb), None]
        return [t, a, b]
    child = greenery_reading(ast[1])
    if t in ('opt', 'star') or (t == 'rep' and ast[2] == 0):
        k, lo, hi = power_profile(child)
        if lo >= 2 and hi is None:
            return ['star', json.loads(k)]
    return [t, child] + list(ast[2:])


def root_cause(p, ast, inp, k, o, aspect):
    """Name the root cause where the case and the observation identify it; else None."""
    sent = o['sent']
    enc = p.enc
    if enc is not None and p.mode != 'str':
        if aspect == 'consumed-too-long':
            extra = inp[k:sent]
            if len(extra) < len(enc) and enc.startswith(extra):
                return 'bytes:lead-bytes-of-multibyte-symbol-consumed-though-the-symbol-leads-to-a-dead-state'
        if aspect == 'consumed-too-short':
            for j in range(1, len(enc)):
                if sent - j >= 0 and inp[sent - j:sent] == enc[:j]:
                    if inp[sent] != enc[j]:
                        return 'bytes:wildcard-not-taken-after-lead-bytes-of-multibyte-symbol'
                    if len(enc) >= 3 and j == 1:
                        return 'bytes:chain-of-3+-byte-symbol-broken-after-its-first-byte'
        if (aspect == 'next-symbol' and len(enc) >= 3 and o['unfed_chunks'] and o['exc'] and sent >= 1
                and inp[sent - 1] == enc[0]):
            return 'bytes:chain-of-3+-byte-symbol-broken-after-its-first-byte'   # that state has no edges: never waits
    if p.alt is False:
        p.alt = None
        ast = canon_ast(ast)
        alt = greenery_reading(ast)
        if alt != ast:
            try:
                p.alt = R.Matcher(alt if p.mode == 'str' else
                                  R.lower_bytes(alt, None if p.universe is None else set(p.universe)))
            except ValueError:
                pass
    if p.alt is not None:
        k2, acc2, _ = p.alt.scan(inp)
        acc2 = acc2 and k2 >= 1
        if (sent, o['terminal'], o['exc']) == (k2, acc2, None if acc2 else 'NonTerminal'):
            return 'greenery-2.1:open-repetition-made-optional-is-reduced-to-star'
    return None


def classify(case, p, inp, k, acc, last, exact):
    n = len(inp)
    if n == 0:
        outcome = 'empty-input'
    elif k == 0:
        outcome = 'reject-at-first-symbol'
    elif acc:
        outcome = 'accept-all' if k == n else 'accept-proper-prefix'
    else:
        outcome = 'eof-while-not-accepting' if k == n else 'reject-midway'
    nontrivial = exact and ((0 < k < n) or (not acc and 1 <= last < k))
    cuts = case.get('cuts') or []
    classes = ['mode:' + p.mode, 'profile:' + p.profile + ('' if exact else '(weak)' if p.profile != 'refuse' else '(built)'), 'outcome:' + outcome,
               'chunks:' + ('1' if not cuts else 'per-symbol' if len(cuts) == n - 1 else 'some')]
    classes.append('len:' + ('0' if n == 0 else '1' if n == 1 else '2-5' if n <= 5 else '6-12' if n <= 12 else '13+'))
    if not acc and 1 <= last < k:
        classes.append('shape:viable-beyond-last-accepting')
    if k == 0 and last == 0 and n > 0:
        classes.append('shape:nullable-expression-rejects-first-symbol')
    if exact and p.enc is not None and k < n and any(k >= j and inp[k - j:k] == p.enc[:j] for j in range(1, len(p.enc))):
        classes.append('shape:refused-byte-follows-lead-bytes-of-symbol[%s]' % (
            'no-wildcard-in-state' if p.mode == 'bytes-fsm' else 'wildcard-dead' if p.profile == 'mb' else 'wildcard-live-or-dead'))
    if exact and p.profile == 'mb+wild' and sibling(p.sym).encode('utf-8') in inp[:k]:
        classes.append('shape:sibling-character-consumed-by-wildcard')
    classes.extend('expr:' + f for f in p.feats)
    if p.mode != 'str' and cuts and p.enc is not None:
        pos, inside = 0, set()
        while True:
            pos = inp.find(p.enc, pos)
            if pos < 0:
                break
            inside.update(range(pos + 1, pos + len(p.enc)))
            pos += len(p.enc)
        if inside & set(cuts):
            classes.append('chunks:cut-inside-multibyte-symbol')
    return nontrivial, classes


def evaluate(p, machine, inp, cuts, k, acc, exact):
    """Run and compare; -> (observation, problem or None) where problem = (aspect, expected)"""
    o = drive(machine, inp, cuts, rctx_of(p.mode, p.rx))
    if o['hung']:
        return o, ('no-termination', 'run() ends within %d yields' % STEP_CAP)
    if o['stored_at'] and 'not under' in o['stored_at']:
        return o, ('prefix-stored-outside-the-given-regex_context', {'stored_at': '%s.%s.input' % (CTX, rctx_of(p.mode, p.rx))})
    if exact:
        if o['sent'] != k:
            return o, ('consumed-too-' + ('long' if o['sent'] > k else 'short'), {'sent': k})
        if o['stored'] != inp[:k]:
            return o, ('stored-differs-from-consumed-prefix', {'stored': show(inp[:k])})
        if o['terminal'] != acc:
            return o, ('terminal-flag', {'terminal': acc})
        if (o['exc'] == 'NonTerminal') != (not acc):
            return o, ('nonterminal-exception', {'exc': None if acc else 'NonTerminal'})
        want = inp[k] if k < len(inp) else None
        if o['peek'] != want:
            return o, ('next-symbol', {'peek': want})
        return o, None
    if o['sent'] > len(inp) or o['stored'] != inp[:o['sent']]:
        return o, ('stored-differs-from-consumed-prefix', {'stored': show(inp[:o['sent']])})
    if (o['exc'] == 'NonTerminal') != (not o['terminal']):
        return o, ('nonterminal-exception', 'NonTerminal raised <=> not terminal')
    return o, None


def pred_run(case, stats):
    mode, ast = case['mode'], case['ast']
    inp = case['input'] if mode == 'str' else common.unhx(case['input'])
    cuts = case.get('cuts') or []
    p = plan_for(mode, ast)

    # construction
    if p.machine is None:
        stats.case(case, nontrivial=False, classes=['mode:' + mode, 'profile:' + p.profile, 'build:refused'])
        msg = str(p.refusal)
        if p.profile == 'refuse' and (msg.startswith('Can only expand') or msg.startswith('If 2 transitions')):
            return
        stats.fail('run', '%s:construction-refused' % ('str' if mode == 'str' else 'bytes'), case,
                   observed={'regex': p.rx, 'exception': repr(p.refusal)[:300]},
                   expected='an expression of profile %r constructs' % p.profile)
        return

    exact = p.profile in ('str', 'ascii', 'mb') or (
        p.profile == 'mb+wild' and 'alt' not in p.feats and text_prefix_over(inp, p.universe))
    if exact:
        k, acc, last = p.matcher.scan(inp)
        acc = acc and k >= 1
    else:
        k, acc, last = 0, False, -1
    nontrivial, classes = classify(case, p, inp, k, acc, last, exact)
    stats.case(case, nontrivial=nontrivial, classes=classes)

    o, problem = evaluate(p, p.machine, inp, cuts, k, acc, exact)
    prev, p.prev = p.prev, case['input']
    if problem is None:
        return
    family = 'str' if mode == 'str' else 'bytes'
    # a disagreement must not depend on what the instance did before: re-check on a fresh instance
    # (a newly constructed one for the first disagreements of an expression, afterwards the last of those)
    if p.rechecks < 2:
        p.fresh, err = _build(mode, p.rx, ast)
        if p.fresh is None:
            raise common.HarnessError('second construction of %r failed: %r' % (p.rx, err))
    p.rechecks += 1
    o2, problem2 = evaluate(p, p.fresh, inp, cuts, k, acc, exact)
    if problem2 is None:
        stats.fail('run', family + ':reused-instance-behaves-differently', dict(case, previous_input=prev),
                   observed=obs_json(o), expected={'fresh_instance': obs_json(o2), 'regex': p.rx})
        return
    aspect, expected = problem2
    sig = root_cause(p, ast, inp, k, o2, aspect) if exact else None
    if sig is None:
        sig = '%s:%s' % (family if p.profile in ('str', 'ascii') else 'bytes-' + p.profile, aspect)
    want = {'regex': p.rx, 'sent': k, 'stored': show(inp[:k]), 'terminal': acc, 'exc': None if acc else 'NonTerminal',
            'peek': (inp[k] if k < len(inp) else None)} if exact else {'regex': p.rx, 'weak': expected}
    stats.fail('run', sig, case, observed=obs_json(o2), expected=want)


CLAUSES = {'run': pred_run}


# ------------------------------------------------------------------------------------------------
# exhaustive tier


def shard_exhaustive(job):
    size, length, idx, nsh = job
    s = Stats()
    asts = R.enum_upto(size, EX_ATOMS, EX_REPS)
    words = [''.join(w) for w in R.strings_upto(EX_ALPHA, length)]
    hexes = [common.hx(w.encode()) for w in words]
    each = [list(range(1, len(w))) for w in words]
    for i in range(idx, len(asts), nsh):
        ast = asts[i]
        for w in words:
            common.run_pred(pred_run, {'mode': 'str', 'ast': ast, 'input': w, 'cuts': []}, s, 'run')
        for h, cuts in zip(hexes, each):
            common.run_pred(pred_run, {'mode': 'bytes', 'ast': ast, 'input': h, 'cuts': cuts}, s, 'run')
    return s


def shard_exhaustive_mb(job):
    """Multi-byte symbol S: every AST up to `size` nodes over atoms {S, ., [^S]} x every text over {a, S, S'} up to
    `length` characters (UTF-8, also with the last byte cut off), and every AST over {S} alone x every byte string over
    the bytes of S and S' up to length+1; regex_bytes, one byte per chunk and in one piece alternately."""
    sym, size, length, idx, nsh = job
    s = Stats()
    sib = sibling(sym)
    wild = R.enum_upto(size, [['lit', sym], ['dot'], ['cls', [sym], True]], EX_REPS)
    pure = R.enum_upto(size, [['lit', sym]], EX_REPS)
    texts = set()
    letters = ['a', sym, sib] + ([cousin(sym)] if cousin(sym) else [])      # S', S'': same lead bytes / same lead byte only
    for w in R.strings_upto(letters, length):
        b = ''.join(w).encode('utf-8')
        texts.add(b)
        if b:
            texts.add(b[:-1])
    texts = sorted(texts)
    raw = [bytes(w) for w in R.strings_upto(sorted(set(sym.encode('utf-8') + sib.encode('utf-8'))), length + 1)]
    n = 0
    for asts, inputs in ((wild, texts), (pure, raw)):
        for i, ast in enumerate(asts):
            if i % nsh != idx:
                continue
            for b in inputs:
                n += 1
                cuts = list(range(1, len(b))) if n % 2 else []
                common.run_pred(pred_run, {'mode': 'bytes', 'ast': ast, 'input': common.hx(b), 'cuts': cuts}, s, 'run')
    return s


# ------------------------------------------------------------------------------------------------
# random tier


def tame(ast, limit=48):
    """Keep the unrolled size bounded (construction cost), deterministically."""
    if R.weight(ast) <= limit:
        return ast

    def soften(n):
        t = n[0]
        if t in R.ATOMIC:
            return n
        if t in ('cat', 'alt'):
            return [t, soften(n[1]), soften(n[2])]
        if t == 'rep':
            return ['rep', soften(n[1]), min(n[2], 1), None if n[3] is None else 2]
        return [t, soften(n[1])]
    ast = soften(ast)
    while R.weight(ast) > limit and ast[0] not in R.ATOMIC:
        ast = ast[1]
    return ast


def trim(ast, n=12):
    while R.size(ast) > n:
        ast = ast[1]
    return ast


def ast_strategy(lits, wild, neg_pool):
    leaves = [st.sampled_from(lits).map(lambda c: ['lit', c]),
              st.lists(st.sampled_from(lits), min_size=1, max_size=3, unique=True).map(lambda m: ['cls', sorted(m), False])]
    if wild:
        leaves.append(st.just(['dot']))
        leaves.append(st.lists(st.sampled_from(neg_pool), min_size=1, max_size=2, unique=True).map(lambda m: ['cls', sorted(m), True]))
    reps = st.tuples(st.integers(0, 3), st.one_of(st.none(), st.integers(0, 2))).map(
        lambda mn: (mn[0], None if mn[1] is None else max(1, mn[0] + mn[1])))

    def extend(ch):
        return st.one_of(
            st.tuples(ch, ch).map(lambda ab: ['cat', ab[0], ab[1]]),
            st.tuples(ch, ch).map(lambda ab: ['cat', ab[0], ab[1]]),
            st.tuples(ch, ch).map(lambda ab: ['alt', ab[0], ab[1]]),
            ch.map(lambda r: ['star', r]), ch.map(lambda r: ['plus', r]), ch.map(lambda r: ['opt', r]),
            st.tuples(ch, reps).map(lambda rm: ['rep', rm[0], rm[1][0], rm[1][1]]))
    return st.recursive(st.one_of(leaves), extend, max_leaves=6).map(trim).map(tame)


class Tape(object):
    """Choices for the input and its chunking, drawn *before* the expression (Hypothesis tends to minimise the
    tail of a draw sequence; this way a minimised tail gives a simple expression with a long input rather
    than any expression with a one-symbol input)."""

    def __init__(self, draw):
        self.n = 0 if draw(st.integers(0, 24)) == 13 else draw(st.integers(1, 24))    # empty input ~4%
        self.stay = draw(st.integers(5, 10))
        self.picks = draw(st.lists(st.integers(0, 9999), min_size=self.n, max_size=self.n))
        self.cut_kind = draw(st.sampled_from(['some', 'each', 'some', 'whole', 'some']))
        self.cut_at = draw(st.lists(st.integers(0, 9999), min_size=1, max_size=6))
        self.trunc = draw(st.sampled_from([0, 0, 0, 1, 2, 3]))

    def walk(self, matcher, pool, maxlen):
        """A string that mostly follows viable symbols of the reference, so that long viable prefixes,
        acceptance, and rejection after progress all occur."""
        i = matcher.start
        out = []
        for r in self.picks[:maxlen]:
            viable = [c for c in pool if matcher.step(i, c) != matcher.EMPTY]
            src = viable if (viable and r % 10 < self.stay) else pool
            c = src[(r // 10) % len(src)]
            out.append(c)
            i = matcher.step(i, c)
        return out

    def free(self, pool, maxlen):
        return [pool[(r // 10) % len(pool)] for r in self.picks[:maxlen]]

    def cuts(self, n):
        if n < 2 or self.cut_kind == 'whole':
            return []
        if self.cut_kind == 'each':
            return list(range(1, n))
        return sorted(set(1 + r % (n - 1) for r in self.cut_at))


@st.composite
def random_cases(draw):
    kind = draw(st.sampled_from(['str', 'str', 'ascii', 'mb', 'mb', 'mb+wild', 'mb+wild', 'refuse', 'arbitrary']))
    mode = draw(st.sampled_from(['bytes', 'bytes', 'promote', 'strbytes']))
    via_fsm = draw(st.integers(0, 3)) == 3
    sym = draw(st.sampled_from(MB_SYMS))
    other = draw(st.sampled_from(['a', sibling(sym)]))
    via_fsm = via_fsm and kind in ('ascii', 'mb')
    if kind == 'str':
        ast_st = ast_strategy(['a', 'b', 'π', '€'], True, ['a', 'b', 'π', '€'])
    elif kind == 'ascii':
        ast_st = ast_strategy(['a', 'b'], not via_fsm, ['a', 'b'])
    elif kind == 'mb':
        ast_st = ast_strategy([sym], False, [])
    elif kind in ('mb+wild', 'arbitrary'):
        ast_st = ast_strategy([sym], True, [sym])
    else:
        ast_st = ast_strategy([sym, other], draw(st.booleans()), [sym, other])
    if draw(st.booleans()):                      # either the expression or the input is drawn last (see Tape)
        ast = draw(ast_st)
        tape = Tape(draw)
    else:
        tape = Tape(draw)
        ast = draw(ast_st)
    if kind == 'str':
        text = ''.join(tape.walk(R.Matcher(ast), ['a', 'b', 'c', 'π', '€'], 20))
        return {'mode': 'str', 'ast': ast, 'input': text, 'cuts': tape.cuts(len(text))}
    if via_fsm:
        # the same machine class built from an fsm without an anything-else symbol: no wildcard edge anywhere
        pool = [0x61, 0x62, 0x63, 0xCF] if kind == 'ascii' else sorted(set(sym.encode('utf-8') + sibling(sym).encode('utf-8') + b'a'))
        data = bytes(tape.walk(R.Matcher(R.lower_bytes(ast)), pool, 20))
        return {'mode': 'bytes-fsm', 'ast': ast, 'input': common.hx(data), 'cuts': tape.cuts(len(data))}
    if kind == 'ascii':
        data = bytes(tape.walk(R.Matcher(R.lower_bytes(ast)), [0x61, 0x62, 0x63, 0x00, 0xFF, 0xCF, 0x80], 20))
    elif kind == 'mb':
        pool = sorted(set(sym.encode('utf-8') + sibling(sym).encode('utf-8') + b'a'))
        data = bytes(tape.walk(R.Matcher(R.lower_bytes(ast)), pool, 24))
    elif kind in ('mb+wild', 'arbitrary'):
        if not R.has_wildcard(ast):
            ast = ['cat', [['dot'], ['cls', [sym], True], ['star', ['dot']], ['star', ['cls', [sym], True]]][tape.stay % 4], ast]
        if kind == 'mb+wild':
            text = ''.join(tape.walk(R.Matcher(ast), ['a', 'b', 'c', sym, sibling(sym)], 12))
            data = text.encode('utf-8')
            data = data[:max(1, len(data) - tape.trunc)] if data else data
        else:       # arbitrary bytes: weak predicate only (unless it happens to be a text prefix)
            data = bytes(tape.free(sorted(set(sym.encode('utf-8') + '€é'.encode('utf-8') + b'ab')), 12))
    else:           # refuse: a multi-byte symbol and a second symbol
        if len(R.symbols(ast)) < 2:
            ast = ['cat', ['lit', sym], ['cat', ['lit', other], ast]]
        data = bytes(tape.free(sorted(set(sym.encode('utf-8') + b'a')), 6))
    return {'mode': mode, 'ast': ast, 'input': common.hx(data), 'cuts': tape.cuts(len(data))}


def shard_random(job):
    seed, shard, n = job
    s = Stats()
    common.hyp_run(s, random_cases(), pred_run, n, common.shard_seed(seed, shard), 'run', PID)
    return s


# ------------------------------------------------------------------------------------------------


def run(tier, seed):
    thorough = tier == 'thorough'
    stats = Stats()
    try:
        stats.extra['oracle_selftest_comparisons'] = R.selftest()
    except AssertionError as exc:
        raise common.HarnessError('regexref self-test against re.fullmatch failed: %r' % (exc,))
    size, length = (5, 6) if thorough else (4, 5)
    nsh = 64 if thorough else 16
    common.parallel(shard_exhaustive, [(size, length, i, nsh) for i in range(nsh)], stats=stats)
    n_ast = len(R.enum_upto(size, EX_ATOMS, EX_REPS))
    stats.exhaustive['small-expressions'] = (
        'all %d ASTs with <= %d nodes (atoms a b . [^a] [ab]; * + ? {2} {1,2} {2,}; cat; alt) x all %d strings over {a,b,c} '
        'of length <= %d, on cpppo.regex (input in one piece) and on cpppo.regex_bytes (one symbol per chunk)'
        % (n_ast, size, sum(3 ** i for i in range(length + 1)), length))
    mb_size, mb_len = (4, 4) if thorough else (3, 4)
    common.parallel(shard_exhaustive_mb, [(sym, mb_size, mb_len, i, 8) for sym in ('π', '€') for i in range(8)], stats=stats)
    stats.exhaustive['multi-byte-symbol'] = (
        'for S in {π (2 bytes), € (3 bytes)}: all ASTs with <= %d nodes over atoms {S, ., [^S]} x all texts over {a,S,S\'} of <= %d '
        'characters as UTF-8 (whole and with the last byte removed), and all ASTs over {S} x all strings over the bytes of S,S\' '
        'of length <= %d; cpppo.regex_bytes, alternately in one piece / one byte per chunk' % (mb_size, mb_len, mb_len + 1))
    n = 6000 if thorough else 700
    shards = 32 if thorough else 16
    common.parallel(shard_random, [(seed, i, n) for i in range(shards)], stats=stats)
    return stats
