"""
model -- typed-array reference model of the simulator's tags, the request vocabulary shared by the
simulator checks (C03 C05 C07 C09 C12 C14 C15), and the reply judge.

Everything here is written from the property statements (C03/C04/C05) and the CIP service tables; it
imports nothing from cpppo.  An *op* is a JSON-able dict:

  {'svc': 'read_tag'|'read_frag'|'write_tag'|'write_frag'|'get_attr'|'set_attr',
   'tag': <name>, 'form': 'sym'|'num', 'case': <int>, 'elem': None|<int>,
   'count': <int>,            # the 'elements' field of tag services
   'offset': <int>,           # byte offset (fragmented services)
   'type': <CIP type name>,   # request data type (writes)
   'values': [...],           # data carried (writes); set_attr: list of values of the tag's type
   'raw': <hex>}              # set_attr only, optional: raw payload instead of values
"""
from __future__ import annotations

import struct

from . import refcodec as rc

INT_TYPES = ('SINT', 'USINT', 'INT', 'UINT', 'DINT', 'UDINT', 'LINT', 'ULINT')
FLOAT_TYPES = ('REAL', 'LREAL')
STRING_TYPES = ('SSTRING', 'STRING')
FIXED_TYPES = ('BOOL',) + INT_TYPES + FLOAT_TYPES
ALL_TYPES = FIXED_TYPES + STRING_TYPES

# Which request data types a tag of a given type documents as acceptable (logix.py: "allow data payloads
# of more restricted signed types into Attributes of a more spacious signed type").  The oracle does NOT
# require this exact table: for a (tag type, request type) pair outside 'same type' the judge accepts
# either refusal with 0x2107 or acceptance with a readable converted value (C05 statement).
SAME_ONLY = STRING_TYPES


def default_value(t):
    return 0.0 if t in FLOAT_TYPES else '' if t in STRING_TYPES else 0


def f32(x):
    try:
        return struct.unpack('<f', struct.pack('<f', x))[0]
    except OverflowError:
        return float('inf') if x > 0 else float('-inf')


def fits(t, v):
    lo, hi = rc.INT_RANGES[t]
    return lo <= v <= hi


def convert(tag_type, req_type, v):
    """The written value 'as represented in the tag's type' -> (value, exact?)  exact False means the
    value does not fit the tag's type (unsigned into signed of the same width): the statement allows
    refusal or a wrapped representation, see judge."""
    if tag_type == req_type:
        if tag_type == 'REAL':
            return f32(v), True
        if tag_type == 'BOOL':
            return bool(v), True
        return v, True
    if req_type == 'BOOL':
        v = 1 if v else 0
    if req_type == 'REAL':
        v = f32(v)          # the request carries the value as a 32-bit float
    if tag_type in FLOAT_TYPES:
        fv = float(v)
        return (f32(fv) if tag_type == 'REAL' else fv), True
    if tag_type in INT_TYPES:
        if req_type in FLOAT_TYPES:
            return None, False
        if fits(tag_type, v):
            return int(v), True
        lo, hi = rc.INT_RANGES[tag_type]
        width = hi - lo + 1
        return ((int(v) - lo) % width) + lo, False
    if tag_type == 'BOOL':
        return bool(v), True
    return None, False


def wire(t, values):
    return rc.enc_values(t, values)


def same_values(t, a, b):
    """Compare two value lists of CIP type t by their wire representation."""
    try:
        return wire(t, a) == wire(t, b)
    except (struct.error, TypeError, ValueError, OverflowError, AttributeError):
        return False


class Model(object):
    def __init__(self, specs):
        self.specs = [dict(s) for s in specs]
        self.tags = {}
        by_addr = {}
        for s in self.specs:
            addr = tuple(s['address']) if s.get('address') else None
            if addr is not None and addr in by_addr:
                vals = by_addr[addr]
            else:
                vals = [default_value(s['type'])] * s['length']
                if addr is not None:
                    by_addr[addr] = vals
            self.tags[s['name']] = {'type': s['type'], 'length': s['length'], 'values': vals, 'address': addr}
        self.lower = {n.lower(): n for n in self.tags}

    def copy(self):
        m = Model(self.specs)
        done = {}
        for n, t in self.tags.items():
            key = id(t['values'])
            if key not in done:
                done[key] = list(t['values'])
            m.tags[n]['values'] = done[key]         # tags sharing one attribute keep sharing one list
            m.tags[n]['address'] = t['address']
        return m

    def snapshot(self):
        return {n: [rc.canon_value(t['type'], v) for v in t['values']] for n, t in self.tags.items()}

    def set_numeric_address(self, name, addr):
        self.tags[name]['address'] = tuple(addr)


# ------------------------------------------------------------------------------------------------
# building request bytes for an op (reference encoder)


def case_variant(name, k):
    """Deterministic case variant k of a tag name that stays ISO-8859-1 and case-equivalent."""
    if not k:
        return name
    out = []
    for i, ch in enumerate(name):
        if (k >> (i % 16)) & 1:
            sw = ch.swapcase()
            try:
                sw.encode('iso-8859-1')
                ok = len(sw) == 1 and sw.lower() == ch.lower()
            except UnicodeEncodeError:
                ok = False
            out.append(sw if ok else ch)
        else:
            out.append(ch)
    return ''.join(out)


def op_path(op, address=None):
    if op.get('form', 'sym') == 'num':
        cls, ins, att = address
        segs = [{'class': cls}, {'instance': ins}, {'attribute': att}]
    else:
        segs = [{'symbolic': part} for part in case_variant(op['tag'], op.get('case', 0)).split('.')]
    if op.get('elem') is not None:
        segs.append({'element': op['elem']})
    return segs


def op_message(op, tag_type=None, address=None):
    """Message Router request bytes for op."""
    svc = op['svc']
    path = op_path(op, address)
    if svc == 'read_tag':
        return rc.req_read_tag(path, op['count'])
    if svc == 'read_frag':
        return rc.req_read_frag(path, op['count'], op.get('offset', 0))
    if svc == 'write_tag':
        return rc.req_write_tag(path, op['type'], op['values'], op['count'])
    if svc == 'write_frag':
        return rc.req_write_frag(path, op['type'], op['values'], op['count'], op.get('offset', 0))
    if svc == 'get_attr':
        return rc.req_get_attribute_single(path)
    if svc == 'gaa':        # Get Attributes All addresses class/instance
        return rc.req_get_attributes_all([p for p in path if 'attribute' not in p and 'element' not in p])
    if svc == 'gal':        # Get Attribute List of the addressed attribute number
        return rc.req_get_attribute_list([p for p in path if 'attribute' not in p and 'element' not in p],
                                         [p['attribute'] for p in path if 'attribute' in p] or [1])
    if svc == 'set_attr':
        raw = bytes.fromhex(op['raw']) if 'raw' in op else rc.enc_values(tag_type, op['values'])
        return rc.req_set_attribute_single(path, raw)
    raise AssertionError(svc)


# ------------------------------------------------------------------------------------------------
# expectation


def expect(model, op):
    """What the statement requires for op against the current model state.  Does not mutate.

    -> dict(kind=..., ...) with kind in:
       'read'      data = the expected element values (the reply may be a non-empty prefix with 0x06)
       'write'     plan = [(index, value, exact)], all exact -> must be accepted (status 0)
       'attr_read' data = all elements
       'attr_write' values
       'range'     refused: 0xFF / 0x2105
       'type'      refused: 0xFF / 0x2107
       'unknown'   unknown tag/object: some failure indication
       'fail'      some failure indication (CIP status != 0 or encapsulation status != 0), unchanged
       'unspecified'  the statement does not say (e.g. zero counts): refusal w/o change or success
    """
    name = model.lower.get(op['tag'].lower())
    if name is None:
        return {'kind': 'unknown'}
    tag = model.tags[name]
    t, L = tag['type'], tag['length']
    svc = op['svc']
    if op.get('form') == 'num' and tag['address'] is None:
        return {'kind': 'unknown'}
    if svc in ('get_attr', 'set_attr'):
        if op.get('elem') is not None:
            return {'kind': 'unspecified'}
        if svc == 'get_attr':
            return {'kind': 'attr_read', 'name': name, 'type': t, 'data': list(tag['values'])}
        if 'raw' in op:
            raw = bytes.fromhex(op['raw'])
            if t in STRING_TYPES:
                return {'kind': 'unspecified'}
            if len(raw) != rc.tsize(t) * L:
                return {'kind': 'fail'}
            return {'kind': 'attr_write', 'name': name, 'type': t, 'values': rc.dec_values(t, raw)}
        if t in STRING_TYPES:
            return {'kind': 'unspecified'}
        if len(op['values']) != L:
            return {'kind': 'fail'}
        return {'kind': 'attr_write', 'name': name, 'type': t, 'values': list(op['values'])}

    e = op.get('elem') or 0
    n = op['count']
    if svc in ('read_tag', 'read_frag'):
        off = op.get('offset', 0) if svc == 'read_frag' else 0
        if e >= L or e + n > L or n > L:
            return {'kind': 'range'}
        if n == 0:
            return {'kind': 'unspecified'}
        if t in STRING_TYPES:
            if off:
                return {'kind': 'unspecified'}
            skip = 0
        else:
            size = rc.tsize(t)
            if off % size:
                return {'kind': 'unspecified'}
            skip = off // size
            if skip >= n:
                return {'kind': 'range'} if e + skip >= L else {'kind': 'unspecified'}
        return {'kind': 'read', 'name': name, 'type': t, 'start': e + skip, 'data': list(tag['values'][e + skip:e + n])}

    # writes
    rt = op['type']
    vals = op['values']
    off = op.get('offset', 0) if svc == 'write_frag' else 0
    if t in STRING_TYPES or rt in STRING_TYPES:
        if rt != t:
            return {'kind': 'type'}
    type_ok = None
    if rt == t:
        type_ok = True
    elif t == 'BOOL' or rt in STRING_TYPES or t in STRING_TYPES:
        type_ok = False
    elif t in INT_TYPES and rt in FLOAT_TYPES:
        type_ok = False
    elif t == 'REAL' and rt == 'LREAL':
        type_ok = False
    elif t in INT_TYPES and rt in INT_TYPES and rc.tsize(rt) > rc.tsize(t):
        type_ok = False                      # wider type into narrower tag: "a data type the tag cannot hold"
    elif t in FLOAT_TYPES and rt in ('LINT', 'ULINT'):
        type_ok = None                       # not in the documented table; statement silent: either
    elif t in ('USINT', 'UINT', 'UDINT', 'ULINT') and rt in ('SINT', 'INT', 'DINT', 'LINT'):
        type_ok = None if all(v >= 0 for v in vals) else False
    else:
        type_ok = None                       # narrower or same-width into wider/other: either refusal (0x2107) or converted
    if type_ok is False:
        return {'kind': 'type'}
    # range
    if t in STRING_TYPES:
        skip = 0
        if off:
            return {'kind': 'unspecified'}
    else:
        size = rc.tsize(rt)
        if off % size or (off and rc.tsize(rt) != rc.tsize(t)):
            # a byte offset is only meaningful when request and tag elements have the same size
            return {'kind': 'unspecified', 'may_change': True}
        skip = off // size
    if e >= L or e + n > L or n > L:
        return {'kind': 'range', 'type_either': type_ok is None}
    if e + skip >= L or e + skip + len(vals) > L:
        return {'kind': 'range', 'type_either': type_ok is None}
    if n == 0 or len(vals) == 0:
        return {'kind': 'unspecified'}
    if skip >= n:
        return {'kind': 'range', 'type_either': type_ok is None}
    surplus = skip + len(vals) > n
    if svc == 'write_tag' and len(vals) < n:
        return {'kind': 'unspecified', 'may_change': True}
    plan = []
    for i, v in enumerate(vals[:n - skip]):
        cv, exact = convert(t, rt, v)
        if cv is None:
            return {'kind': 'type'}
        plan.append((e + skip + i, cv, exact))
    # more data than the declared element count: the statement does not say whether this is refused; if it is
    # acknowledged, exactly the declared elements may change (never a neighbour, never the tag's length)
    return {'kind': 'write', 'name': name, 'type': t, 'plan': plan, 'must_accept': type_ok is True and not surplus,
            'exact': all(p[2] for p in plan), 'surplus': surplus}


def apply_write(model, exp):
    tag = model.tags[exp['name']]
    if exp['kind'] == 'write':
        for idx, v, _ in exp['plan']:
            tag['values'][idx] = v
    elif exp['kind'] == 'attr_write':
        tag['values'][:] = [convert(exp['type'], exp['type'], v)[0] for v in exp['values']]


# ------------------------------------------------------------------------------------------------
# judging a reply

RANGE = (0xFF, [0x2105])
TYPE = (0xFF, [0x2107])


def judge(model, op, exp, out, member=False):
    """Compare the outcome of op with the expectation and update the model when a write took effect.

    out: dict(kind, enip_status, reply) as produced by sim.Session.send; for bundle members
         kind='reply', enip_status=0, reply=decoded member reply.
    -> list of (signature, detail) problems (empty = conforms).  Also returns in exp['took'] whether
       the model was updated.
    """
    problems = []
    kind = exp['kind']
    failed_encap = out['kind'] != 'reply' or out['enip_status'] not in (0, None) or out['reply'] is None
    rpy = out['reply']
    svc = op['svc']
    want_service = {'read_tag': 0x4C, 'read_frag': 0x52, 'write_tag': 0x4D, 'write_frag': 0x53, 'get_attr': 0x0E,
                    'set_attr': 0x10, 'gaa': 0x01, 'gal': 0x03}[svc] | 0x80

    def p(sig, detail):
        problems.append((sig, detail))

    if kind == 'unknown':
        if not failed_encap and rpy['status'] == 0:
            p('unknown-target-accepted', {'reply': _r(rpy)})
        return problems
    if failed_encap:
        if kind in ('fail',):
            return problems
        if kind == 'unspecified':
            return problems     # an encapsulation-level failure is a failure indication too
        p('session-failed-on-%s' % kind, {'outcome': out['kind'], 'enip_status': out['enip_status'], 'error': out.get('error')})
        return problems
    if rpy['service'] != want_service:
        p('reply-service-mismatch', {'reply': _r(rpy), 'want': want_service})
    st, ext = rpy['status'], rpy['ext']
    if kind == 'noattr':
        if st != 0x05:
            p('unknown-attribute-status', {'reply': _r(rpy), 'want': 'status 0x05'})
        return problems
    if kind == 'range':
        if (st, ext) != RANGE and not (exp.get('type_either') and (st, ext) == TYPE):
            p('range-error-status', {'reply': _r(rpy), 'want': 'status 0xFF ext 0x2105'})
        return problems
    if kind == 'type':
        if (st, ext) != TYPE:
            p('type-error-status', {'reply': _r(rpy), 'want': 'status 0xFF ext 0x2107'})
        return problems
    if kind == 'fail':
        if st == 0:
            p('invalid-request-accepted', {'reply': _r(rpy)})
        return problems
    if kind == 'unspecified':
        exp['unspecified_status'] = st
        return problems
    if kind == 'read':
        if st not in (0x00, 0x06):
            p('read-refused', {'reply': _r(rpy)})
            return problems
        try:
            t, vals = rc.dec_read_reply(rpy)
        except rc.RefDecodeError as exc:
            p('read-reply-undecodable', {'reply': _r(rpy), 'error': str(exc)})
            return problems
        if t != exp['type']:
            p('read-reply-type', {'got': t, 'want': exp['type']})
            return problems
        want = exp['data']
        if st == 0x00:
            if not same_values(t, vals, want):
                p('read-data', {'got': _v(vals), 'want': _v(want)})
        else:
            if not (0 < len(vals) < len(want)) or not same_values(t, vals, want[:len(vals)]):
                p('read-partial-data', {'got': _v(vals), 'want_prefix_of': _v(want), 'status': st})
            exp['partial'] = len(vals)
        return problems
    if kind == 'attr_read':
        if st != 0:
            p('get-attribute-refused', {'reply': _r(rpy)})
            return problems
        if bytes(rpy['data']) != wire(exp['type'], exp['data']):
            p('get-attribute-data', {'got': bytes(rpy['data']).hex(), 'want': wire(exp['type'], exp['data']).hex()})
        return problems
    if kind == 'attr_write':
        if st != 0:
            p('set-attribute-refused', {'reply': _r(rpy)})
            return problems
        apply_write(model, exp)
        exp['took'] = True
        return problems
    if kind == 'write':
        if st == 0:
            apply_write(model, exp)
            exp['took'] = True
            return problems
        if exp['must_accept']:
            p('write-refused', {'reply': _r(rpy)})
        elif exp.get('surplus'):
            pass        # refusing a request that carries more data than it declares is fine, with any error status
        elif (st, ext) != TYPE:
            p('cross-type-write-refused-with-wrong-status', {'reply': _r(rpy), 'want': 'accept, or 0xFF/0x2107'})
        return problems
    raise AssertionError(kind)


def _r(rpy):
    return {'service': rpy['service'], 'status': rpy['status'], 'ext': rpy['ext'], 'data': bytes(rpy['data']).hex()[:200]}


def _v(vals):
    return [v if not isinstance(v, float) else repr(v) for v in vals][:40]
