"""
Coverage-guided stage of C08 (atheris / libFuzzer), run as a subprocess by vp/checks/c08.py (thorough tier):

    python -m vp.fuzz_c08 <outdir> <corpusdir> -runs=N -seed=S -max_len=600 ...

Each input is one connection's byte stream: byte 0 bit 0 = register a session first, the rest is fed to the
in-process connection loop.  The semantic oracle of C08 (vp.checks.c08.pred: step bound, per-frame tag-change
judgement against the model, witness session, fresh registration) runs inside the target; every *new* failure
signature is written to <outdir>/<sig>.json (the case, replayable with ./check C08 --replay) and fuzzing goes on.
"""
import json
import logging
import os
import sys


def main():
    outdir, corpus = sys.argv[1], sys.argv[2]
    argv = [sys.argv[0]] + sys.argv[3:] + [corpus]
    logging.disable(logging.CRITICAL)
    os.environ['VP_C08_NO_WATCHDOG'] = '1'
    import atheris
    with atheris.instrument_imports(include=['cpppo']):
        import cpppo                                  # noqa
        from cpppo.server.enip import parser, device, logix, ucmm      # noqa
    from vp import common
    from vp.checks import c08
    seen = set()
    counter = {'n': 0}

    def TestOneInput(data):
        if len(data) < 2:
            return
        counter['n'] += 1
        if counter['n'] % 100 == 0:         # atheris leaves through os._exit: keep the count on disk
            with open(os.path.join(outdir, 'executions.%d' % os.getpid()), 'w') as fh:
                fh.write(str(counter['n']))
        case = {'register_first': bool(data[0] & 1), 'segments': [{'kind': 'random', 'bytes': bytes(data[1:]).hex()}]}
        st = common.Stats()
        common.run_pred(c08.pred, case, st, 'stream')
        for sig, f in st.fails.items():
            if sig not in seen:
                seen.add(sig)
                safe = ''.join(ch if ch.isalnum() or ch in '-_.' else '_' for ch in sig)[:100]
                with open(os.path.join(outdir, safe + '.json'), 'w') as fh:
                    json.dump(f.as_dict('C08'), fh)

    atheris.Setup(argv, TestOneInput)
    try:
        atheris.Fuzz()
    finally:
        with open(os.path.join(outdir, 'executions.%d' % os.getpid()), 'w') as fh:
            fh.write(str(counter['n']))


if __name__ == '__main__':
    main()
