"""
c01gen -- Hypothesis strategies over the refcodec_full message model, the feature classifier and the
deterministic boundary enumeration of the C01 check.
"""
from __future__ import annotations

import collections
import struct

from hypothesis import strategies as st

from . import refcodec as rc
from . import refcodec_full as rf

BIG = {'on': False}         # thorough tier: 64 KiB strings, larger bundles

# Known findings (set by checks/c01.py from known_findings.json): constructs that are known to be broken are not
# embedded in composites, so the search continues behind them; every rejected draw is counted.
AVOID = set()
AVOIDED = collections.Counter()


def bad_typed(t):
    if t.get('type') == 'STRUCT':
        if 'struct-handle-0' in AVOID and t['structure_tag'] == 0:
            return 'struct-handle-0'
        if 'struct-empty' in AVOID and t['raw'] == '':
            return 'struct-empty'
    return None


def bad_mr_self(m):
    if 'ga-list-reply' in AVOID and m['svc'] == 'get_attribute_list' and m['dir'] == 'rpy' and m['status'] == 0:
        return 'ga-list-reply'
    if 'struct-write' in AVOID and m['svc'] in ('write_tag', 'write_frag') and m['dir'] == 'req' and m['data']['type'] == 'STRUCT':
        return 'struct-write'
    return None


def bad_mr_deep(m):
    if isinstance(m.get('data'), dict):
        r = bad_typed(m['data'])
        if r:
            return r
    for x in m.get('members', ()):
        r = bad_mr_self(x) or bad_mr_deep(x)
        if r:
            return r
    return None


def _count(reason):
    AVOIDED['known finding (%s): construct not embedded in a composite' % reason] += 1
    return False


def ok_member(M):
    if 'svc' not in M:
        return True
    r = bad_mr_self(M) or bad_mr_deep(M)
    return True if r is None else _count(r)


def ok_top_mr(m):
    r = bad_mr_deep(m)
    return True if r is None else _count(r)


def bad_items(items):
    return any(it['t'] == 'unknown' and it['data'] for it in items[:-1])


def ok_items(items):
    if 'cpf-unknown-item-not-last' in AVOID and bad_items(items):
        return _count('cpf-unknown-item-not-last')
    return True


# ------------------------------------------------------------------------------------------------
# scalars


def uint(bits):
    hi = (1 << bits) - 1
    edge = sorted({0, 1, 2, hi - 1, hi, hi >> 1, (hi >> 1) + 1} | {x for x in (0xFE, 0xFF, 0x100, 0xFFFF, 0x10000) if x <= hi})
    return st.one_of(st.sampled_from(edge), st.integers(0, hi))


def sint(bits):
    lo, hi = -(1 << (bits - 1)), (1 << (bits - 1)) - 1
    return st.one_of(st.sampled_from([lo, lo + 1, -2, -1, 0, 1, 2, hi - 1, hi]), st.integers(lo, hi))


INT_BITS = {'SINT': 8, 'INT': 16, 'DINT': 32, 'LINT': 64, 'USINT': 8, 'UINT': 16, 'UDINT': 32, 'ULINT': 64}


def is_snan32(bits):
    return (bits & 0x7F800000) == 0x7F800000 and (bits & 0x007FFFFF) != 0 and not (bits & 0x00400000)


def f32_to_model(bits):
    return rf.from_float(struct.unpack('<f', struct.pack('<I', bits))[0])


F32_EDGE = [0x00000000, 0x80000000, 0x00000001, 0x807FFFFF, 0x00800000, 0x7F7FFFFF, 0xFF7FFFFF, 0x7F800000,
            0xFF800000, 0x7FC00000, 0xFFC00001, 0x3F800000, 0x3DCCCCCD]
F64_INEXACT = [0.1, 1.0 / 3.0, 1e-46, 1e-39, 3.4e38, -2.5e-45, 16777217.0, 1.0000000596046448]


@st.composite
def real_value(draw):
    k = draw(st.integers(0, 9))
    if k < 3:
        return f32_to_model(draw(st.sampled_from(F32_EDGE)))
    if k < 5:
        return rf.from_float(draw(st.sampled_from(F64_INEXACT)))        # not float32-exact: the encoder rounds
    bits = draw(st.integers(0, 0xFFFFFFFF))
    if is_snan32(bits):
        bits |= 0x00400000      # signalling NaN: the C float<->double conversion quiets it (platform, not cpppo)
    return f32_to_model(bits)


F64_EDGE = [0, 1 << 63, 1, 0x000FFFFFFFFFFFFF, 0x0010000000000000, 0x7FEFFFFFFFFFFFFF, 0xFFEFFFFFFFFFFFFF,
            0x7FF0000000000000, 0xFFF0000000000000, 0x7FF8000000000000, 0x7FF0000000000001, 0xFFFFFFFFFFFFFFFF,
            0x3FF0000000000000]


def lreal_value():
    return st.one_of(st.sampled_from(F64_EDGE), st.integers(0, (1 << 64) - 1)).map(lambda b: 'f64:%016x' % b)


LATIN1 = st.characters(min_codepoint=0, max_codepoint=255)


def latin1_text(lengths):
    """exact-length ISO-8859-1 text; long strings are a short drawn chunk repeated (Hypothesis cannot draw 64 KiB)"""
    def of(n):
        if n <= 300:
            return st.text(LATIN1, min_size=n, max_size=n)
        return st.text(LATIN1, min_size=1, max_size=24).map(lambda c: (c * (n // len(c) + 1))[:n])
    return lengths.flatmap(of)


def sstring_len():
    return st.one_of(st.sampled_from([0, 1, 2, 3, 4, 254, 255]), st.integers(0, 40), st.integers(0, 255))


def string_len():
    big = [65534, 65535] if BIG['on'] else []
    return st.one_of(st.sampled_from([0, 1, 2, 3, 254, 255, 256, 257] + big), st.integers(0, 40), st.integers(0, 600))


def value_of(t):
    if t == 'BOOL':
        return st.sampled_from([False, True, 0, 1, 255, 128])
    if t in INT_BITS:
        return uint(INT_BITS[t]) if t.startswith('U') else sint(INT_BITS[t])
    if t == 'REAL':
        return real_value()
    if t == 'LREAL':
        return lreal_value()
    if t == 'SSTRING':
        return latin1_text(sstring_len())
    if t == 'STRING':
        return latin1_text(string_len())
    raise AssertionError(t)


SCALAR_TYPES = [t for t in rf.TYPE_NAMES if t != 'STRUCT']


@st.composite
def typed(draw, allow_struct=True, max_bytes=440):
    t = draw(st.sampled_from(rf.TYPE_NAMES + ['STRUCT'] if allow_struct else SCALAR_TYPES))
    if t == 'STRUCT':
        tag = draw(uint(16))
        n = draw(st.one_of(st.sampled_from([1, 2, 3, 0]), st.integers(1, 64)))
        return {'type': t, 'structure_tag': tag, 'raw': draw(st.binary(min_size=n, max_size=n)).hex()}
    n = draw(st.one_of(st.sampled_from([1, 1, 2, 3]), st.integers(1, 12), st.integers(1, 60)))
    if t in ('STRING', 'SSTRING'):
        n = min(n, 4)
    vals = draw(st.lists(value_of(t), min_size=n, max_size=n))
    out = {'type': t, 'values': vals}
    while len(out['values']) > 1 and len(rf.enc_typed(out)) > max_bytes:
        out['values'] = out['values'][:len(out['values']) // 2]
    if t in ('STRING', 'SSTRING') and len(rf.enc_typed(out)) > max_bytes:
        out['values'] = [out['values'][0][:max(0, max_bytes - 4)]]
    return out


def raw_bytes(lo=1, hi=40):
    return st.one_of(st.binary(min_size=lo, max_size=4), st.binary(min_size=lo, max_size=hi)).map(lambda b: b.hex())


# ------------------------------------------------------------------------------------------------
# EPATH

LOGICAL16 = ['class', 'instance', 'attribute', 'connection']
SEG_EDGE16 = [0, 1, 0xFE, 0xFF, 0x100, 0x101, 0x7FFF, 0x8000, 0xFFFE, 0xFFFF]
SEG_EDGE32 = SEG_EDGE16 + [0x10000, 0x10001, 0x7FFFFFFF, 0x80000000, 0xFFFFFFFE, 0xFFFFFFFF]


def symbol_len():
    return st.one_of(st.sampled_from([1, 2, 3, 4, 5, 254, 255]), st.integers(1, 24), st.integers(1, 255))


@st.composite
def segment(draw, widths=False):
    k = draw(st.integers(0, 9))
    if k < 4:
        kind = draw(st.sampled_from(LOGICAL16))
        v = draw(st.one_of(st.sampled_from(SEG_EDGE16), st.integers(0, 0xFFFF)))
        seg = {kind: v}
        if widths and v <= 0xFF and draw(st.booleans()):
            seg['_width'] = 16
        return seg
    if k < 6:
        v = draw(st.one_of(st.sampled_from(SEG_EDGE32), st.integers(0, 0xFFFFFFFF), st.integers(0, 300)))
        seg = {'element': v}
        if widths and v <= 0xFFFF and draw(st.booleans()):
            seg['_width'] = 32 if (v > 0xFF or draw(st.booleans())) else 16
        return seg
    if k < 8:
        return {'symbolic': draw(latin1_text(symbol_len()))}
    port = draw(st.one_of(st.integers(1, 14), st.sampled_from([15, 16, 255, 256, 0xFFFE, 0xFFFF]), st.integers(15, 0xFFFF)))
    if draw(st.booleans()):
        link = draw(st.one_of(st.sampled_from([0, 1, 254, 255]), st.integers(0, 255)))
    else:
        link = draw(st.one_of(st.sampled_from(['1.2.3.4', '10.0.0.12', '123.123.123.123', 'a']),
                              latin1_text(st.one_of(st.integers(1, 20), st.sampled_from([254, 255])))))
    return {'port': port, 'link': link}


def fit(segments, limit=508):
    segs = list(segments)
    while segs and len(rc.enc_segments(segs)) > limit:
        segs.pop()
    return segs


def segments(widths=False, max_n=8):
    return st.lists(segment(widths), min_size=0, max_size=max_n).map(fit)


@st.composite
def tag_path(draw):
    segs = [{'symbolic': draw(latin1_text(symbol_len()))}]
    for _ in range(draw(st.integers(0, 3))):
        if draw(st.booleans()):
            segs.append({'element': draw(st.one_of(st.sampled_from(SEG_EDGE32), st.integers(0, 0xFFFFFFFF)))})
        else:
            segs.append({'symbolic': draw(latin1_text(st.integers(1, 12)))})
    return fit(segs)


@st.composite
def numeric_path(draw):
    v16 = st.one_of(st.sampled_from(SEG_EDGE16), st.integers(0, 0xFFFF))
    segs = [{'class': draw(v16)}, {draw(st.sampled_from(['instance', 'connection'])): draw(v16)}]
    if draw(st.booleans()):
        segs.append({'attribute': draw(v16)})
        if draw(st.booleans()):
            segs.append({'element': draw(st.one_of(st.sampled_from(SEG_EDGE32), st.integers(0, 0xFFFFFFFF)))})
    return segs


def request_path(widths=False):
    return st.one_of(tag_path(), numeric_path(), segments(widths, 5))


CM_PATH = [{'class': 6}, {'instance': 1}]
MR_PATH = [{'class': 2}, {'instance': 1}]


def route_path():
    return st.one_of(st.just([{'port': 1, 'link': 0}]), st.just([]), segments(False, 4))


# ------------------------------------------------------------------------------------------------
# status


@st.composite
def status_fields(draw, kinds=('ok', 'fail'), partial=False, allow0ext=False):
    k = draw(st.sampled_from(kinds))
    if k == 'ok':
        s = 6 if (partial and draw(st.integers(0, 3)) == 0) else 0
    else:
        s = draw(st.one_of(st.sampled_from([1, 4, 5, 8, 0x0F, 0x10, 0x1E, 0xFE, 0xFF]), st.integers(1, 255)))
        if partial and s in (0, 6):
            s = 5
    ext = []
    if s != 0 or allow0ext:
        n = draw(st.sampled_from([0, 0, 0, 1, 1, 2, 3, 4]))
        ext = draw(st.lists(uint(16), min_size=n, max_size=n))
    return s, ext


# ------------------------------------------------------------------------------------------------
# Message Router services

LOGIX_SVCS = ['read_tag', 'read_frag', 'write_tag', 'write_frag', 'get_attribute_single', 'set_attribute_single',
              'get_attributes_all', 'get_attribute_list']


@st.composite
def mr_simple(draw, dirs=('req', 'rpy'), parse_only=False, svcs=LOGIX_SVCS, max_bytes=440):
    svc = draw(st.sampled_from(svcs))
    d = draw(st.sampled_from(dirs))
    m = {'svc': svc, 'dir': d}
    if d == 'req':
        m['path'] = draw(request_path(parse_only))
        if svc == 'read_tag':
            m['elements'] = draw(uint(16))
        elif svc == 'read_frag':
            m['elements'] = draw(uint(16))
            m['offset'] = draw(uint(32))
        elif svc in ('write_tag', 'write_frag'):
            m['data'] = draw(typed(max_bytes=max_bytes))
            if m['data'].get('raw') == '':      # a write without any data octet is not generated
                m['data']['raw'] = '00'
            n = len(m['data'].get('values', ())) or 1
            m['elements'] = draw(st.one_of(st.just(n), uint(16)))
            if svc == 'write_frag':
                m['offset'] = draw(uint(32))
        elif svc == 'set_attribute_single':
            m['raw'] = draw(raw_bytes())
        elif svc == 'get_attribute_list':
            m['attributes'] = draw(st.lists(uint(16), min_size=1, max_size=6))
        return m
    partial = svc in ('read_tag', 'read_frag')
    m['status'], m['ext'] = draw(status_fields(partial=partial, allow0ext=parse_only))
    if partial and m['status'] in rf.READ_DATA_STATUS:
        m['data'] = draw(typed(max_bytes=max_bytes))
    elif svc in ('get_attribute_single', 'get_attributes_all') and m['status'] == 0:
        m['raw'] = draw(raw_bytes())
    elif svc == 'get_attribute_list' and m['status'] == 0:
        n = draw(st.integers(1, 4))
        m['items'] = [[draw(uint(16)), draw(st.sampled_from([0, 0, 0x14, 0x16])), '']
                      for _ in range(n)]
        for it in m['items']:
            if it[1] == 0:
                it[2] = draw(st.sampled_from(['05', '0500', '03b280c5', '0000', 'ff', '0102030405060708']))
    return m


@st.composite
def mr_multiple(draw, dirs=('req', 'rpy'), parse_only=False, members=None):
    d = draw(st.sampled_from(dirs))
    hi = 12 if BIG['on'] else 6
    n = draw(st.one_of(st.sampled_from([1, 2, 2, 3]), st.integers(1, hi)))
    member = (members if members is not None else mr_simple(dirs=(d,), parse_only=parse_only, max_bytes=120)).filter(ok_member)
    m = {'svc': 'multiple', 'dir': d}
    if d == 'req':
        m['path'] = list(MR_PATH)
        m['members'] = draw(st.lists(member, min_size=n, max_size=n))
        return m
    m['status'], m['ext'] = draw(status_fields(kinds=('ok', 'ok', 'ok', 'fail'), allow0ext=False))
    if m['status'] == 0 and draw(st.booleans()):
        m['status'] = 0x1E
        k = draw(st.sampled_from([0, 0, 1]))
        m['ext'] = draw(st.lists(uint(16), min_size=k, max_size=k))
    if m['status'] in rf.MULTI_DATA_STATUS:
        m['members'] = draw(st.lists(member, min_size=n, max_size=n))
    return m


@st.composite
def connection(draw, large):
    size = draw(st.one_of(st.sampled_from([1, 2, 0x1FE, 0x1FF]), st.integers(1, 0x1FF)))
    if large and draw(st.booleans()):
        size = draw(st.one_of(st.sampled_from([0x200, 4000, 0xFFFE, 0xFFFF]), st.integers(0x200, 0xFFFF)))
    return {'connection_ID': draw(uint(32)), 'RPI': draw(uint(32)), 'size': size, 'variable': draw(st.integers(0, 1)),
            'priority': draw(st.integers(0, 3)), 'type': draw(st.integers(0, 3)), 'redundant': draw(st.integers(0, 1))}


def conn_path():
    return st.one_of(st.just([{'port': 1, 'link': 0}, {'class': 2}, {'instance': 1}]), segments(False, 5))


@st.composite
def mr_forward(draw, dirs=('req', 'rpy'), ambiguous=False):
    svc = draw(st.sampled_from(['forward_open', 'forward_open', 'forward_close']))
    d = draw(st.sampled_from(dirs))
    m = {'svc': svc, 'dir': d}
    ids = {'connection_serial': draw(uint(16)), 'O_vendor': draw(uint(16)), 'O_serial': draw(uint(32))}
    if svc == 'forward_open':
        m['large'] = True if ambiguous else draw(st.booleans())
    if d == 'req':
        m['path'] = draw(st.one_of(st.just(list(CM_PATH)), numeric_path()))
        m['priority_time_tick'] = draw(uint(8))
        m['timeout_ticks'] = draw(uint(8))
        m.update(ids)
        m['connection_path'] = draw(conn_path())
        if svc == 'forward_open':
            m['O_T'] = draw(connection(m['large']))
            m['T_O'] = draw(connection(m['large']))
            m['connection_timeout_multiplier'] = draw(uint(8))
            m['transport_class_triggers'] = draw(uint(8))
        return m
    if svc == 'forward_open':
        m['status'], m['ext'] = draw(status_fields())
        m.update(ids)
        if m['status'] == 0:
            m.update(O_T_connection_ID=draw(uint(32)), T_O_connection_ID=draw(uint(32)), O_T_API=draw(uint(32)),
                     T_O_API=draw(uint(32)))
            n = draw(st.sampled_from([0, 0, 1, 2, 5]))
            m['application'] = draw(st.binary(min_size=2 * n, max_size=2 * n)).hex()
        else:
            m['remaining_path_size'] = draw(st.one_of(st.none(), uint(8)))
        return m
    m['status'], m['ext'] = draw(status_fields())
    if draw(st.integers(0, 3)) == 0:
        m['body'] = None
    else:
        n = draw(st.sampled_from([0, 0, 1, 3]))
        m['body'] = dict(ids, application=draw(st.binary(min_size=2 * n, max_size=2 * n)).hex())
    return m


def canonical_large(m):
    """a Large Forward Open whose NCPs are both > 0xFFFF (distinguishable from Small)"""
    return all(rf.enc_ncp(m[k], True) > 0xFFFF for k in ('O_T', 'T_O'))


@st.composite
def mr_forward_canonical(draw, dirs=('req', 'rpy')):
    m = draw(mr_forward(dirs))
    if m['svc'] == 'forward_open' and m['dir'] == 'req' and m['large']:
        for k in ('O_T', 'T_O'):
            if rf.enc_ncp(m[k], True) <= 0xFFFF:
                m[k]['type'] = draw(st.integers(1, 3))
    return m


@st.composite
def mr_forward_ambiguous(draw):
    m = draw(mr_forward(('req',), ambiguous=True).filter(lambda x: x['svc'] == 'forward_open'))
    k = draw(st.sampled_from(['O_T', 'T_O', 'both']))
    for key in (('O_T', 'T_O') if k == 'both' else (k,)):
        m[key].update(variable=0, priority=0, type=0, redundant=0)
    return m


def mr_any(dirs=('req', 'rpy'), parse_only=False, max_bytes=440):
    return st.one_of(mr_simple(dirs, parse_only, max_bytes=max_bytes), mr_simple(dirs, parse_only, max_bytes=max_bytes),
                     mr_multiple(dirs, parse_only), mr_forward_canonical(dirs))


def mr_logix(dirs=('req', 'rpy'), parse_only=False):
    return st.one_of(mr_simple(dirs, parse_only), mr_simple(dirs, parse_only), mr_multiple(dirs, parse_only))


# ------------------------------------------------------------------------------------------------
# wrappers, CPF items, frames


def message(strategy):
    return st.one_of(strategy, strategy, strategy, raw_bytes(1, 30).map(lambda h: {'raw': h})).filter(ok_member)


@st.composite
def wrapper(draw, parse_only=False):
    k = draw(st.sampled_from(['usend', 'usend', 'usend', 'bare', 'bare', 'usend_error']))
    if k == 'usend':
        return {'k': k, 'send_path': draw(st.one_of(st.just(list(CM_PATH)), segments(parse_only, 4))),
                'priority': draw(uint(8)), 'timeout_ticks': draw(uint(8)),
                'message': draw(message(mr_any(('req',), parse_only))), 'route_path': draw(route_path())}
    if k == 'bare':
        M = draw(message(mr_any(('req', 'rpy'), parse_only)))
        if 'svc' not in M and M['raw'][:2].lower() in ('52', 'd2'):
            M = {'raw': '4c' + M['raw'][2:]}
        return {'k': k, 'message': M}
    s, ext = draw(status_fields(kinds=('fail',)))
    if draw(st.integers(0, 2)):
        s, ext = (s & 0x0F) or 1, []
    return {'k': k, 'status': s, 'ext': ext}


def ipv4():
    return st.one_of(st.sampled_from(['0.0.0.0', '255.255.255.255', '192.168.5.253', '10.0.1.2', '123.123.123.123', '1.2.3.4']),
                     st.tuples(*[st.integers(0, 255)] * 4).map(lambda t: '%d.%d.%d.%d' % t))


@st.composite
def item(draw, kinds, parse_only=False):
    t = draw(st.sampled_from(kinds))
    if t == 'null':
        return {'t': t}
    if t == 'conn_addr':
        return {'t': t, 'connection': draw(uint(32))}
    if t == 'conn_data':
        return {'t': t, 'sequence': draw(uint(16)), 'payload': draw(message(mr_logix(('req', 'rpy'), parse_only)))}
    if t == 'unconn_data':
        return {'t': t, 'payload': draw(wrapper(parse_only))}
    if t == 'comm_service':
        name = draw(st.one_of(st.just('Communications'),
                              st.text(st.characters(min_codepoint=1, max_codepoint=255), min_size=1, max_size=20)))
        return {'t': t, 'version': draw(uint(16)), 'capability': draw(uint(16)), 'name': name}
    sock = {'sin_family': draw(sint(16)), 'sin_port': draw(uint(16)), 'sin_addr': draw(ipv4())}
    if t == 'identity':
        return dict(sock, t=t, version=draw(uint(16)), vendor_id=draw(uint(16)), device_type=draw(uint(16)),
                    product_code=draw(uint(16)), product_revision=draw(uint(16)), status_word=draw(uint(16)),
                    serial_number=draw(uint(32)), product_name=draw(latin1_text(sstring_len())), state=draw(uint(8)))
    if t == 'legacy':
        return dict(sock, t=t, version=draw(uint(16)), unknown_1=draw(uint(16)), ip_address=draw(ipv4()))
    tid = draw(st.one_of(st.sampled_from([0x8000, 0x8001, 0x0002, 0x00B3, 0xFFFF]), st.integers(2, 0xFFFF)))
    if tid in rf.TYPE_ID_REV:
        tid = 0x8000
    return {'t': 'unknown', 'type_id': tid, 'data': draw(st.one_of(st.just(''), raw_bytes(1, 16), st.just('00' * 16)))}


ALL_ITEMS = ['null', 'conn_addr', 'conn_data', 'unconn_data', 'comm_service', 'identity', 'legacy', 'unknown']


@st.composite
def cpf_items(draw, parse_only=False):
    shape = draw(st.integers(0, 9))
    if shape < 3:
        items = [{'t': 'null'}, draw(item(['unconn_data'], parse_only))]
    elif shape < 5:
        items = [draw(item(['conn_addr'])), draw(item(['conn_data'], parse_only))]
    else:
        n = draw(st.sampled_from([0, 1, 1, 2, 2, 3, 4]))
        items = [draw(item(ALL_ITEMS, parse_only)) for _ in range(n)]
    if shape < 5 and draw(st.integers(0, 3)) == 0:      # trailing sockaddr-info style items
        k = draw(st.integers(1, 2))
        items += [draw(item(['unknown'])) for _ in range(k)]
    return items


@st.composite
def frame(draw, parse_only=False):
    cmd = draw(st.sampled_from(['register', 'unregister', 'list_services', 'list_identity', 'list_interfaces', 'legacy',
                                'send_rr_data', 'send_rr_data', 'send_rr_data', 'send_unit_data', 'send_unit_data']))
    c = {'cmd': cmd}
    if cmd == 'register':
        c.update(protocol_version=draw(uint(16)), options=draw(uint(16)))
    elif cmd in ('send_rr_data', 'send_unit_data'):
        c.update(interface=draw(uint(32)), timeout=draw(uint(16)))
        if cmd == 'send_rr_data':
            c['items'] = draw(cpf_items(parse_only).filter(ok_items))
        else:
            c['items'] = [draw(item(['conn_addr'])), draw(item(['conn_data'], parse_only))]
    elif cmd != 'unregister':
        if draw(st.booleans()):
            c['items'] = None
        else:
            kind = {'list_services': 'comm_service', 'list_identity': 'identity', 'list_interfaces': 'unknown',
                    'legacy': 'legacy'}[cmd]
            n = draw(st.sampled_from([0, 1, 1, 1, 2]))
            c['items'] = draw(st.lists(item([kind]), min_size=n, max_size=n).filter(ok_items))
    return {'session': draw(uint(32)), 'status': draw(uint(32)), 'options': draw(uint(32)),
            'context': draw(st.one_of(st.just('00' * 8), st.binary(min_size=8, max_size=8).map(lambda b: b.hex()))),
            'command': c}


# ------------------------------------------------------------------------------------------------
# top-level cases

OPTS = st.fixed_dictionaries({'svc_explicit': st.booleans(), 'fo_style': st.sampled_from(['fields', 'ncp', 'decoding', 'auto', 'auto']),
                              'cmd_explicit': st.booleans(), 'app_explicit': st.booleans(), 'cpf_count0': st.booleans(),
                              'typed_kw': st.booleans()})


def with_opts(kind, key, strategy):
    return st.tuples(strategy, OPTS).map(lambda t: {'kind': kind, key: t[0], 'opts': t[1]})


@st.composite
def epath_case(draw, parse_only=False):
    variant = draw(st.sampled_from(['plain', 'plain', 'padded', 'single']))
    if variant == 'single':
        segs = [draw(segment(parse_only))]
    else:
        segs = draw(segments(parse_only, 8))
    return {'segments': segs, 'variant': variant, 'form': draw(st.sampled_from(['dict', 'list']))}


@st.composite
def status_case(draw, parse_only=False):
    s, ext = draw(status_fields(allow0ext=parse_only))
    return {'status': s, 'ext': ext}


@st.composite
def typed_case(draw, parse_only=False):
    if parse_only and draw(st.booleans()):
        return {'type': 'BOOL', 'values': [], '_boolbytes': draw(st.binary(min_size=1, max_size=8)).hex()}
    return draw(typed(max_bytes=70000 if BIG['on'] else 2000))


def iface_case():
    return st.fixed_dictionaries({'ip_address': ipv4(), 'network_mask': ipv4(), 'gateway_address': ipv4(),
                                  'dns_primary': ipv4(), 'dns_secondary': ipv4(),
                                  'domain_name': latin1_text(st.one_of(st.sampled_from([0, 1, 2, 7]), st.integers(0, 40)))})


def case_strategy(group, parse_only=False):
    po = parse_only
    if group == 'element':
        return st.one_of(with_opts('iface', 'p', iface_case()), with_opts('epath', 'p', epath_case(po)), with_opts('epath', 'p', epath_case(po)),
                         with_opts('status', 'p', status_case(po)), with_opts('typed', 'p', typed_case(po)),
                         with_opts('typed', 'p', typed_case(po)))
    if group == 'service':
        return with_opts('mr', 'p', mr_any(('req', 'rpy'), po, max_bytes=66000 if BIG['on'] else 440).filter(ok_top_mr))
    if group == 'frame':
        return st.one_of(with_opts('wrapper', 'p', wrapper(po)), with_opts('cpf', 'p', cpf_items(po).map(lambda i: {'items': i})),
                         with_opts('frame', 'p', frame(po)), with_opts('frame', 'p', frame(po)))
    if group == 'ambiguous':
        return with_opts('fo_ambiguous', 'p', mr_forward_ambiguous())
    raise AssertionError(group)


# ------------------------------------------------------------------------------------------------
# features (non-triviality classes)


def seg_features(segs, out):
    for s in segs:
        if 'symbolic' in s:
            out.add('sym:odd' if len(s['symbolic']) % 2 else 'sym:even')
            if len(s['symbolic']) in (1, 254, 255):
                out.add('sym:len-boundary')
        elif 'port' in s:
            out.add('port:extended' if s['port'] >= 15 else 'port:small')
            if isinstance(s['link'], str):
                out.add('link:addr-odd' if len(s['link']) % 2 else 'link:addr-even')
            else:
                out.add('link:numeric')
        else:
            for k, v in s.items():
                if k.startswith('_'):
                    out.add('seg:forced-wider')
                    continue
                w = 8 if v <= 0xFF else 16 if v <= 0xFFFF else 32
                out.add('seg:%s%d' % (k, w))
                if v in (0xFF, 0x100, 0xFFFF, 0x10000, 0xFFFFFFFF):
                    out.add('seg:width-boundary')
    if not segs:
        out.add('epath:empty')


def typed_features(t, out):
    out.add('type:' + t['type'])
    if t['type'] == 'STRUCT':
        return
    if '_boolbytes' in t:
        out.add('bool:noncanonical-octet')
        return
    if len(t['values']) > 1:
        out.add('typed:array')
    if t['type'] in ('LINT', 'ULINT', 'LREAL'):
        out.add('64bit')
    if t['type'] in INT_BITS:
        bits, signed = INT_BITS[t['type']], not t['type'].startswith('U')
        lo, hi = (-(1 << (bits - 1)), (1 << (bits - 1)) - 1) if signed else (0, (1 << bits) - 1)
        if any(v in (lo, hi) for v in t['values']):
            out.add('int:at-range-boundary')
    if t['type'] in ('STRING', 'SSTRING'):
        for v in t['values']:
            out.add('str:odd' if len(v) % 2 else 'str:even')
            if len(v) in (0, 255, 65535, 65534):
                out.add('str:len-boundary')
    if t['type'] in ('REAL', 'LREAL'):
        for v in t['values']:
            x = rf.to_float(v)
            if x != x:
                out.add('float:nan')
            elif x in (float('inf'), float('-inf')):
                out.add('float:inf')
            elif t['type'] == 'REAL' and struct.unpack('<f', struct.pack('<f', x))[0] != x:
                out.add('float:rounded-to-f32')


def mr_features(m, out):
    out.add('svc:%s:%s' % (m['svc'], m['dir']))
    for k in ('path', 'connection_path'):
        if k in m:
            seg_features(m[k], out)
    if m['dir'] == 'rpy':
        n = len(m.get('ext') or ())
        out.add('ext:%s' % ('0' if n == 0 else '>=1'))
        ok = m['status'] == 0 or (m['status'] == 6 and m['svc'] in ('read_tag', 'read_frag')) or \
            (m['status'] == 0x1E and m['svc'] == 'multiple')
        out.add('status:%s' % ('ok' if ok else 'fail'))
    if isinstance(m.get('data'), dict):
        typed_features(m['data'], out)
    if 'members' in m:
        out.add('bundle:%s' % ('1' if len(m['members']) == 1 else '>=2'))
        for x in m['members']:
            mr_features(x, out)
    if m['svc'] == 'forward_open':
        out.add('fo:large' if m.get('large') else 'fo:small')


def message_features(M, out):
    if 'svc' in M:
        mr_features(M, out)
    else:
        out.add('message:opaque')


def wrapper_features(w, out):
    out.add('wrap:' + w['k'])
    if w['k'] == 'usend':
        seg_features(w['send_path'], out)
        seg_features(w.get('route_path') or [], out)
        out.add('usend:msg-odd' if len(rf.enc_message(w['message'])) % 2 else 'usend:msg-even')
    if 'message' in w:
        message_features(w['message'], out)
    if w['k'] == 'usend_error' and w.get('ext'):
        out.add('ext:>=1')


def items_features(items, out):
    out.add('cpf:%s' % (len(items) if len(items) < 2 else '>=2'))
    for it in items:
        out.add('item:' + it['t'])
        if it['t'] == 'unconn_data':
            wrapper_features(it['payload'], out)
        elif it['t'] == 'conn_data':
            message_features(it['payload'], out)
        elif it['t'] == 'identity':
            out.add('str:odd' if len(it['product_name']) % 2 else 'str:even')


def features(case):
    out = set()
    k, p = case['kind'], case['p']
    if k == 'epath':
        out.add('epath:' + p.get('variant', 'plain'))
        seg_features(p['segments'], out)
    elif k == 'status':
        out.add('ext:%s' % ('0' if not p.get('ext') else '>=1'))
    elif k == 'typed':
        typed_features(p, out)
    elif k == 'iface':
        out.add('str:odd' if len(p['domain_name']) % 2 else 'str:even')
    elif k in ('mr', 'fo_ambiguous'):
        mr_features(p, out)
    elif k == 'wrapper':
        wrapper_features(p, out)
    elif k == 'cpf':
        items_features(p['items'], out)
    elif k == 'frame':
        out.add('cmd:' + p['command']['cmd'] + (':req' if p['command'].get('items', 0) is None else ''))
        if p['command'].get('items'):
            items_features(p['command']['items'], out)
    return out


NONTRIVIAL = {'seg:width-boundary', 'int:at-range-boundary', 'sym:odd', 'str:odd', 'link:addr-odd', 'port:extended',
              'ext:>=1', 'cpf:>=2', 'bundle:>=2', '64bit', 'fo:large', 'usend:msg-odd', 'seg:class16', 'seg:instance16',
              'seg:attribute16', 'seg:connection16', 'seg:element16', 'seg:element32', 'sym:len-boundary', 'str:len-boundary'}


# ------------------------------------------------------------------------------------------------
# deterministic boundary product


def boundary_cases():
    opts = {'svc_explicit': False, 'fo_style': 'fields', 'cmd_explicit': False, 'app_explicit': False,
            'cpf_count0': False, 'typed_kw': False}
    path = [{'symbolic': 'T'}]
    for t, bits in sorted(INT_BITS.items()):
        signed = not t.startswith('U')
        lo, hi = (-(1 << (bits - 1)), (1 << (bits - 1)) - 1) if signed else (0, (1 << bits) - 1)
        vals = sorted({lo, lo + 1, 0, 1, hi - 1, hi} | ({-1} if signed else set()))
        for shape in ('scalar', 'array'):
            groups = [[v] for v in vals] if shape == 'scalar' else [vals, list(reversed(vals))]
            for g in groups:
                ty = {'type': t, 'values': g}
                yield {'kind': 'typed', 'p': ty, 'opts': opts}
                yield {'kind': 'mr', 'p': {'svc': 'write_tag', 'dir': 'req', 'path': path, 'data': ty, 'elements': len(g)}, 'opts': opts}
                yield {'kind': 'mr', 'p': {'svc': 'read_frag', 'dir': 'rpy', 'status': 0, 'ext': [], 'data': ty}, 'opts': opts}
    for t, edge in (('REAL', [f32_to_model(b) for b in F32_EDGE]), ('LREAL', ['f64:%016x' % b for b in F64_EDGE])):
        for g in [[v] for v in edge] + [edge]:
            yield {'kind': 'typed', 'p': {'type': t, 'values': g}, 'opts': opts}
    for t, lens in (('SSTRING', [0, 1, 2, 3, 254, 255]), ('STRING', [0, 1, 2, 3, 255, 256, 257])):
        for n in lens:
            s = ''.join(chr((i * 7 + n) % 256) for i in range(n))
            yield {'kind': 'typed', 'p': {'type': t, 'values': [s]}, 'opts': opts}
            yield {'kind': 'typed', 'p': {'type': t, 'values': [s, 'x', s]}, 'opts': opts}
    for kind in LOGICAL16 + ['element']:
        edge = SEG_EDGE32 if kind == 'element' else SEG_EDGE16
        for v in edge:
            for variant in ('plain', 'padded', 'single'):
                yield {'kind': 'epath', 'p': {'segments': [{kind: v}], 'variant': variant, 'form': 'dict'}, 'opts': opts}
            yield {'kind': 'mr', 'p': {'svc': 'read_tag', 'dir': 'req', 'path': [{'class': 2}, {kind: v}], 'elements': 1}, 'opts': opts}
    for n in (1, 2, 3, 4, 253, 254, 255):
        s = ''.join(chr(33 + (i % 90)) for i in range(n))
        for variant in ('plain', 'padded', 'single'):
            yield {'kind': 'epath', 'p': {'segments': [{'symbolic': s}], 'variant': variant, 'form': 'dict'}, 'opts': opts}
    for port in (1, 2, 14, 15, 16, 255, 256, 0xFFFF):
        for link in (0, 1, 255, '1', '12', '1.2.3.4', '10.10.10.10', 'x' * 255, 'y' * 254):
            if isinstance(link, str) and port >= 15 and len(link) > 250:
                continue
            for variant in ('plain', 'padded', 'single'):
                yield {'kind': 'epath', 'p': {'segments': [{'port': port, 'link': link}], 'variant': variant, 'form': 'dict'}, 'opts': opts}
    for s in (0, 1, 5, 6, 0x0F, 0x10, 0xFF):
        for ext in ([], [0], [0xFFFF], [1, 2], [0, 0xFFFF, 0x100, 0x8000]):
            if s == 0 and ext:
                continue
            yield {'kind': 'status', 'p': {'status': s, 'ext': ext}, 'opts': opts}
