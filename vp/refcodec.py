"""
refcodec -- an independent reference encoder / strict decoder for the EtherNet/IP CIP subset cpppo speaks.

Written from the layout tables (EtherNet/IP encapsulation, Common Packet Format, Message Router
request/reply, Logix tag services, Unconnected Send, Forward Open/Close) using only `struct`.
Imports nothing from cpppo.  Messages are plain dicts / lists so that cases stay JSON-able.

Encoders return bytes.  Decoders are *strict*: lengths must agree exactly, pads must be present,
reserved bytes must be zero, offset tables must tile; anything else raises RefDecodeError.
"""
from __future__ import annotations

import math
import struct


class RefDecodeError(Exception):
    pass


def _need(cond, msg):
    if not cond:
        raise RefDecodeError(msg)


# Reserved / pad byte *values* are checked only in strict mode; structure (lengths, counts, offsets, sizes) always.
STRICT_RESERVED = [True]


def _zero(value_is_zero, msg):
    if STRICT_RESERVED[0] and not value_is_zero:
        raise RefDecodeError(msg)


class structural_only(object):
    """with rc.structural_only(): decode accepting any value in reserved / pad bytes."""

    def __enter__(self):
        self.old = STRICT_RESERVED[0]
        STRICT_RESERVED[0] = False

    def __exit__(self, *a):
        STRICT_RESERVED[0] = self.old


# ------------------------------------------------------------------------------------------------
# elementary types

TYPES = {
    # name: (code, struct format or None, size)
    'BOOL': (0x00C1, 'B', 1),
    'SINT': (0x00C2, 'b', 1),
    'INT': (0x00C3, '<h', 2),
    'DINT': (0x00C4, '<i', 4),
    'LINT': (0x00C5, '<q', 8),
    'USINT': (0x00C6, 'B', 1),
    'UINT': (0x00C7, '<H', 2),
    'UDINT': (0x00C8, '<I', 4),
    'ULINT': (0x00C9, '<Q', 8),
    'REAL': (0x00CA, '<f', 4),
    'LREAL': (0x00CB, '<d', 8),
    'STRING': (0x00D0, None, None),
    'SSTRING': (0x00DA, None, None),
}
CODE2NAME = {v[0]: k for k, v in TYPES.items()}
INT_RANGES = {
    'SINT': (-2 ** 7, 2 ** 7 - 1), 'INT': (-2 ** 15, 2 ** 15 - 1), 'DINT': (-2 ** 31, 2 ** 31 - 1),
    'LINT': (-2 ** 63, 2 ** 63 - 1), 'USINT': (0, 2 ** 8 - 1), 'UINT': (0, 2 ** 16 - 1),
    'UDINT': (0, 2 ** 32 - 1), 'ULINT': (0, 2 ** 64 - 1),
}


def tcode(t):
    return TYPES[t][0] if isinstance(t, str) else int(t)


def tname(t):
    return t if isinstance(t, str) else CODE2NAME[int(t)]


def tsize(t):
    return TYPES[tname(t)][2]


def enc_value(t, v):
    """One element of CIP type t on the wire."""
    t = tname(t)
    if t == 'BOOL':
        return b'\xff' if v else b'\x00'
    if t == 'SSTRING':
        b = v.encode('iso-8859-1') if isinstance(v, str) else bytes(v)
        assert len(b) < 256
        return struct.pack('B', len(b)) + b
    if t == 'STRING':
        b = v.encode('iso-8859-1') if isinstance(v, str) else bytes(v)
        assert len(b) < 65536
        return struct.pack('<H', len(b)) + b + (b'\x00' if len(b) % 2 else b'')
    return struct.pack(TYPES[t][1], v)


def enc_values(t, values):
    return b''.join(enc_value(t, v) for v in values)


def dec_values(t, raw, count=None):
    """Strictly decode raw as a whole number of elements of type t; BOOL -> bool (non-zero true)."""
    t = tname(t)
    raw = bytes(raw)
    out = []
    if t in ('SSTRING', 'STRING'):
        pos = 0
        while pos < len(raw):
            if t == 'SSTRING':
                n = raw[pos]
                pos += 1
                pad = 0
            else:
                _need(pos + 2 <= len(raw), 'STRING length truncated')
                n = struct.unpack_from('<H', raw, pos)[0]
                pos += 2
                pad = n % 2
            _need(pos + n + pad <= len(raw), '%s body truncated' % t)
            out.append(raw[pos:pos + n].decode('iso-8859-1'))
            if pad:
                _zero(raw[pos + n] == 0, 'STRING pad not NUL')
            pos += n + pad
    else:
        fmt, size = TYPES[t][1], TYPES[t][2]
        _need(len(raw) % size == 0, '%d data bytes is not a whole number of %s' % (len(raw), t))
        for i in range(0, len(raw), size):
            v = struct.unpack_from(fmt, raw, i)[0]
            out.append(bool(v) if t == 'BOOL' else v)
    if count is not None:
        _need(len(out) == count, 'expected %d %s elements, found %d' % (count, t, len(out)))
    return out


def canon_value(t, v):
    """Canonical comparable form of a value of CIP type t (floats by bit pattern)."""
    t = tname(t)
    if t in ('REAL', 'LREAL'):
        return enc_value(t, v).hex()
    if t == 'BOOL':
        return bool(v)
    return v


# ------------------------------------------------------------------------------------------------
# EPATH

LOGICAL = {'class': 0x20, 'instance': 0x24, 'element': 0x28, 'connection': 0x2C, 'attribute': 0x30}
LOGICAL_REV = {v: k for k, v in LOGICAL.items()}


def enc_segment(seg):
    if 'symbolic' in seg:
        b = seg['symbolic'].encode('iso-8859-1')
        assert len(b) < 256
        return b'\x91' + struct.pack('B', len(b)) + b + (b'\x00' if len(b) % 2 else b'')
    if 'port' in seg:
        port, link = seg['port'], seg['link']
        assert 1 <= port <= 0xFFFF
        small = port if port < 15 else 15
        if isinstance(link, int):
            out = struct.pack('B', small)
            if small == 15:
                out += struct.pack('<H', port)
            return out + struct.pack('B', link) + (b'' if small != 15 else b'')
        lb = link.encode('iso-8859-1')
        out = struct.pack('BB', small | 0x10, len(lb))
        if small == 15:
            out += struct.pack('<H', port)
        out += lb
        return out + (b'\x00' if len(out) % 2 else b'')
    for kind, base in LOGICAL.items():
        if kind in seg:
            v = seg[kind]
            width = seg.get('_width')       # force a non-minimal width (parse-only cases)
            if width is None:
                width = 8 if v <= 0xFF else 16 if v <= 0xFFFF else 32
            if width == 8:
                return struct.pack('BB', base, v)
            if width == 16:
                return struct.pack('<BBH', base + 1, 0, v)
            assert kind == 'element' or seg.get('_width')
            return struct.pack('<BBI', base + 2, 0, v)
    raise AssertionError('unknown segment %r' % (seg,))


def enc_segments(segments):
    out = b''
    for s in segments:
        e = enc_segment(s)
        out += e
    return out


def enc_epath(segments, padded=False):
    body = enc_segments(segments)
    assert len(body) % 2 == 0, 'EPATH must be a whole number of words: %r' % (segments,)
    assert len(body) // 2 < 256
    return struct.pack('B', len(body) // 2) + (b'\x00' if padded else b'') + body


def dec_segments(raw):
    raw = bytes(raw)
    pos = 0
    segs = []
    while pos < len(raw):
        t = raw[pos]
        if t == 0x91:
            _need(pos + 2 <= len(raw), 'symbolic segment truncated')
            n = raw[pos + 1]
            _need(pos + 2 + n + n % 2 <= len(raw), 'symbolic segment body truncated')
            segs.append({'symbolic': raw[pos + 2:pos + 2 + n].decode('iso-8859-1')})
            if n % 2:
                _zero(raw[pos + 2 + n] == 0, 'symbolic pad not NUL')
            pos += 2 + n + n % 2
        elif (t & 0xE0) == 0x00:
            start = pos
            small = t & 0x0F
            _need(small != 0, 'port 0 is reserved')
            pos += 1
            if t & 0x10:
                _need(pos < len(raw), 'port segment truncated')
                n = raw[pos]
                pos += 1
                port = small
                if small == 15:
                    _need(pos + 2 <= len(raw), 'extended port truncated')
                    port = struct.unpack_from('<H', raw, pos)[0]
                    pos += 2
                _need(pos + n <= len(raw), 'link address truncated')
                link = raw[pos:pos + n].decode('iso-8859-1')
                pos += n
                if (pos - start) % 2:
                    _need(pos < len(raw), 'port segment pad missing')
                    _zero(raw[pos] == 0, 'port segment pad not NUL')
                    pos += 1
            else:
                port = small
                if small == 15:
                    _need(pos + 2 <= len(raw), 'extended port truncated')
                    port = struct.unpack_from('<H', raw, pos)[0]
                    pos += 2
                _need(pos < len(raw), 'link truncated')
                link = raw[pos]
                pos += 1
            segs.append({'port': port, 'link': link})
        elif (t & 0xE0) == 0x20:
            base, fmt = t & 0xFC, t & 0x03
            _need(base in LOGICAL_REV, 'unsupported logical segment 0x%02x' % t)
            kind = LOGICAL_REV[base]
            if fmt == 0:
                _need(pos + 2 <= len(raw), 'logical segment truncated')
                v = raw[pos + 1]
                pos += 2
            elif fmt == 1:
                _need(pos + 4 <= len(raw), '16-bit logical segment truncated')
                _zero(raw[pos + 1] == 0, '16-bit logical segment pad not NUL')
                v = struct.unpack_from('<H', raw, pos + 2)[0]
                pos += 4
            elif fmt == 2:
                _need(pos + 6 <= len(raw), '32-bit logical segment truncated')
                _zero(raw[pos + 1] == 0, '32-bit logical segment pad not NUL')
                v = struct.unpack_from('<I', raw, pos + 2)[0]
                pos += 6
            else:
                raise RefDecodeError('reserved logical format')
            segs.append({kind: v})
        else:
            raise RefDecodeError('unsupported segment type 0x%02x' % t)
    return segs


def dec_epath(raw, pos, padded=False):
    """-> (segments, newpos)"""
    _need(pos < len(raw), 'EPATH size missing')
    words = raw[pos]
    pos += 1
    if padded:
        _need(pos < len(raw), 'EPATH pad missing')
        _zero(raw[pos] == 0, 'EPATH pad not NUL')
        pos += 1
    _need(pos + 2 * words <= len(raw), 'EPATH body truncated')
    return dec_segments(raw[pos:pos + 2 * words]), pos + 2 * words


# ------------------------------------------------------------------------------------------------
# Message Router requests / replies

SVC = {
    'get_attributes_all': 0x01, 'get_attribute_list': 0x03, 'multiple': 0x0A, 'get_attribute_single': 0x0E,
    'set_attribute_single': 0x10, 'read_tag': 0x4C, 'write_tag': 0x4D, 'forward_close': 0x4E,
    'read_frag': 0x52, 'write_frag': 0x53, 'forward_open': 0x54, 'forward_open_large': 0x5B,
}
SVC_REV = {v: k for k, v in SVC.items()}


def enc_status(status, ext=()):
    return struct.pack('BB', status, len(ext)) + b''.join(struct.pack('<H', w) for w in ext)


def mr_request(service, path, data=b''):
    return struct.pack('B', service) + enc_epath(path) + bytes(data)


def mr_reply(service, status=0, ext=(), data=b''):
    """service is the *request* service code; the reply bit is added here."""
    return struct.pack('BB', service | 0x80, 0) + enc_status(status, ext) + bytes(data)


def req_read_tag(path, elements=1):
    return mr_request(0x4C, path, struct.pack('<H', elements))


def req_read_frag(path, elements=1, offset=0):
    return mr_request(0x52, path, struct.pack('<HI', elements, offset))


def req_write_tag(path, t, values, elements=None):
    n = len(values) if elements is None else elements
    return mr_request(0x4D, path, struct.pack('<HH', tcode(t), n) + enc_values(t, values))


def req_write_frag(path, t, values, elements, offset=0):
    return mr_request(0x53, path, struct.pack('<HHI', tcode(t), elements, offset) + enc_values(t, values))


def req_get_attribute_single(path):
    return mr_request(0x0E, path)


def req_set_attribute_single(path, raw):
    return mr_request(0x10, path, raw)


def req_get_attributes_all(path):
    return mr_request(0x01, path)


def req_get_attribute_list(path, attributes):
    return mr_request(0x03, path, struct.pack('<H', len(attributes)) + b''.join(struct.pack('<H', a) for a in attributes))


def enc_multiple_body(messages):
    n = len(messages)
    out = struct.pack('<H', n)
    off = 2 + 2 * n
    for m in messages:
        out += struct.pack('<H', off)
        off += len(m)
    return out + b''.join(messages)


def req_multiple(messages, path=({'class': 2}, {'instance': 1})):
    return mr_request(0x0A, list(path), enc_multiple_body(messages))


def dec_multiple_body(raw):
    """Strict: count, offsets table starting at 2+2N, strictly tiling to the end. -> list of member bytes"""
    raw = bytes(raw)
    _need(len(raw) >= 2, 'multiple: count missing')
    n = struct.unpack_from('<H', raw, 0)[0]
    _need(len(raw) >= 2 + 2 * n, 'multiple: offset table truncated')
    offs = list(struct.unpack_from('<%dH' % n, raw, 2)) if n else []
    if n:
        _need(offs[0] == 2 + 2 * n, 'multiple: first offset %d != 2+2N=%d' % (offs[0], 2 + 2 * n))
    else:
        _need(len(raw) == 2, 'multiple: trailing bytes after empty table')
    members = []
    for i, o in enumerate(offs):
        end = offs[i + 1] if i + 1 < n else len(raw)
        _need(o < end <= len(raw), 'multiple: offsets do not tile (%r, len %d)' % (offs, len(raw)))
        members.append(raw[o:end])
    return members


def dec_mr_reply(raw):
    """Strict Message Router reply -> dict(service, status, ext, data)"""
    raw = bytes(raw)
    _need(len(raw) >= 4, 'reply shorter than 4 bytes')
    svc, rsv, status, nwords = struct.unpack_from('BBBB', raw, 0)
    _need(svc & 0x80, 'reply bit not set in service 0x%02x' % svc)
    _need(rsv == 0, 'reserved byte after reply service is 0x%02x' % rsv)
    _need(len(raw) >= 4 + 2 * nwords, 'extended status truncated')
    ext = list(struct.unpack_from('<%dH' % nwords, raw, 4)) if nwords else []
    return {'service': svc, 'status': status, 'ext': ext, 'data': raw[4 + 2 * nwords:]}


def dec_mr_request(raw):
    raw = bytes(raw)
    _need(len(raw) >= 2, 'request shorter than 2 bytes')
    svc = raw[0]
    _need(not svc & 0x80, 'reply bit set in request service')
    path, pos = dec_epath(raw, 1)
    return {'service': svc, 'path': path, 'data': raw[pos:]}


def dec_read_reply(reply, expect_type=None):
    """For a successful Read Tag [Fragmented] reply: -> (type name, values)."""
    d = reply['data']
    _need(len(d) >= 2, 'read reply without type')
    code = struct.unpack_from('<H', d, 0)[0]
    _need(code in CODE2NAME, 'read reply with unknown type 0x%04x' % code)
    t = CODE2NAME[code]
    if expect_type is not None:
        _need(t == tname(expect_type), 'read reply type %s, expected %s' % (t, tname(expect_type)))
    return t, dec_values(t, d[2:])


# ------------------------------------------------------------------------------------------------
# Unconnected Send, CPF, encapsulation

CM_PATH = ({'class': 6}, {'instance': 1})


def unconnected_send(message, route_path=None, send_path=CM_PATH, priority=5, timeout_ticks=157):
    """route_path None -> still an Unconnected Send with an empty (size 0) route path; use the bare
    message for 'no wrapper at all'."""
    m = bytes(message)
    out = struct.pack('B', 0x52) + enc_epath(list(send_path)) + struct.pack('<BBH', priority, timeout_ticks, len(m)) + m
    if len(m) % 2:
        out += b'\x00'
    return out + enc_epath(list(route_path or []), padded=True)


def dec_unconnected_send(raw):
    raw = bytes(raw)
    _need(raw[:1] == b'\x52', 'not an Unconnected Send')
    send_path, pos = dec_epath(raw, 1)
    _need(pos + 4 <= len(raw), 'Unconnected Send header truncated')
    prio, ticks, n = struct.unpack_from('<BBH', raw, pos)
    pos += 4
    _need(pos + n + n % 2 <= len(raw), 'Unconnected Send message truncated')
    msg = raw[pos:pos + n]
    pos += n
    if n % 2:
        _zero(raw[pos] == 0, 'Unconnected Send pad not NUL')
        pos += 1
    route, pos = dec_epath(raw, pos, padded=True)
    _need(pos == len(raw), 'trailing bytes after Unconnected Send route path')
    return {'send_path': send_path, 'priority': prio, 'timeout_ticks': ticks, 'message': msg, 'route_path': route}


def enc_cpf(items):
    out = struct.pack('<H', len(items))
    for type_id, data in items:
        out += struct.pack('<HH', type_id, len(data)) + bytes(data)
    return out


def dec_cpf(raw, pos=0, exact=True):
    raw = bytes(raw)
    _need(pos + 2 <= len(raw), 'CPF count missing')
    n = struct.unpack_from('<H', raw, pos)[0]
    pos += 2
    items = []
    for _ in range(n):
        _need(pos + 4 <= len(raw), 'CPF item header truncated')
        tid, ln = struct.unpack_from('<HH', raw, pos)
        pos += 4
        _need(pos + ln <= len(raw), 'CPF item data truncated')
        items.append((tid, raw[pos:pos + ln]))
        pos += ln
    if exact:
        _need(pos == len(raw), 'trailing bytes after CPF')
    return items, pos


def send_rr_data(message, interface=0, timeout=5):
    return struct.pack('<IH', interface, timeout) + enc_cpf([(0x0000, b''), (0x00B2, bytes(message))])


def send_unit_data(connection_id, sequence, message, interface=0, timeout=0):
    return struct.pack('<IH', interface, timeout) + enc_cpf(
        [(0x00A1, struct.pack('<I', connection_id)), (0x00B1, struct.pack('<H', sequence) + bytes(message))])


def dec_send_data(payload):
    payload = bytes(payload)
    _need(len(payload) >= 6, 'send data header truncated')
    interface, timeout = struct.unpack_from('<IH', payload, 0)
    items, _ = dec_cpf(payload, 6)
    return {'interface': interface, 'timeout': timeout, 'items': items}


CMD = {'legacy': 0x0001, 'list_services': 0x0004, 'list_identity': 0x0063, 'list_interfaces': 0x0064,
       'register': 0x0065, 'unregister': 0x0066, 'send_rr_data': 0x006F, 'send_unit_data': 0x0070}


def encap(command, session=0, payload=b'', context=b'\x00' * 8, status=0, options=0, length=None):
    context = bytes(context)
    assert len(context) == 8
    n = len(payload) if length is None else length
    return struct.pack('<HHII', command, n, session, status) + context + struct.pack('<I', options) + bytes(payload)


def dec_encap(frame):
    frame = bytes(frame)
    _need(len(frame) >= 24, 'encapsulation header truncated')
    command, length, session, status = struct.unpack_from('<HHII', frame, 0)
    context = frame[12:20]
    options = struct.unpack_from('<I', frame, 20)[0]
    _need(len(frame) == 24 + length, 'frame is %d bytes, header declares 24+%d' % (len(frame), length))
    return {'command': command, 'length': length, 'session': session, 'status': status, 'context': context,
            'options': options, 'payload': frame[24:]}


def split_frames(stream):
    """Split a byte stream into complete frames by their declared lengths -> (frames, leftover)"""
    stream = bytes(stream)
    frames = []
    pos = 0
    while len(stream) - pos >= 24:
        length = struct.unpack_from('<H', stream, pos + 2)[0]
        if len(stream) - pos < 24 + length:
            break
        frames.append(stream[pos:pos + 24 + length])
        pos += 24 + length
    return frames, stream[pos:]


def register(context=b'\x00' * 8, version=1, options=0):
    return encap(CMD['register'], 0, struct.pack('<HH', version, options), context)


def unregister(session, context=b'\x00' * 8):
    return encap(CMD['unregister'], session, b'', context)


def rr_frame(session, message, context=b'\x00' * 8, timeout=5):
    return encap(CMD['send_rr_data'], session, send_rr_data(message, timeout=timeout), context)


def dec_rr_reply(frame):
    """Strict decode of a SendRRData reply frame -> (encap dict, message bytes)"""
    e = dec_encap(frame)
    _need(e['command'] == CMD['send_rr_data'], 'reply command 0x%04x is not SendRRData' % e['command'])
    sd = dec_send_data(e['payload'])
    items = sd['items']
    _need(len(items) == 2, 'SendRRData reply has %d CPF items, expected 2' % len(items))
    _need(items[0] == (0x0000, b''), 'first CPF item is not a null address item: %r' % (items[0],))
    _need(items[1][0] == 0x00B2, 'second CPF item type 0x%04x is not unconnected data' % items[1][0])
    return e, items[1][1]


# ------------------------------------------------------------------------------------------------
# Forward Open / Close (Connection Manager)


def enc_forward_open(fo, large=False):
    """fo: dict(priority, timeout_ticks, O_T_connection_ID, T_O_connection_ID, connection_serial, O_vendor,
    O_serial, connection_timeout_multiplier, O_T_RPI, O_T_NCP, T_O_RPI, T_O_NCP, transport_class_triggers,
    connection_path[segments])"""
    ncp = '<I' if large else '<H'
    body = struct.pack('<BBIIHHIB3x', fo['priority'], fo['timeout_ticks'], fo['O_T_connection_ID'],
                       fo['T_O_connection_ID'], fo['connection_serial'], fo['O_vendor'], fo['O_serial'],
                       fo['connection_timeout_multiplier'])
    body += struct.pack('<I', fo['O_T_RPI']) + struct.pack(ncp, fo['O_T_NCP'])
    body += struct.pack('<I', fo['T_O_RPI']) + struct.pack(ncp, fo['T_O_NCP'])
    body += struct.pack('B', fo['transport_class_triggers'])
    body += enc_epath(fo['connection_path'])
    return mr_request(0x5B if large else 0x54, list(CM_PATH), body)


def dec_forward_open_reply(reply):
    d = reply['data']
    _need(reply['status'] == 0, 'forward open failed')
    _need(len(d) >= 26, 'forward open reply truncated (%d bytes)' % len(d))
    o_t, t_o, cserial, vendor, oserial, o_t_api, t_o_api, app_words, rsv = struct.unpack_from('<IIHHIIIBB', d, 0)
    _need(rsv == 0, 'forward open reply reserved byte non-zero')
    _need(len(d) == 26 + 2 * app_words, 'forward open reply application data length mismatch')
    return {'O_T_connection_ID': o_t, 'T_O_connection_ID': t_o, 'connection_serial': cserial, 'O_vendor': vendor,
            'O_serial': oserial, 'O_T_API': o_t_api, 'T_O_API': t_o_api, 'application': d[26:]}


def enc_forward_close(fc):
    body = struct.pack('<BBHHI', fc['priority'], fc['timeout_ticks'], fc['connection_serial'], fc['O_vendor'],
                       fc['O_serial'])
    path = enc_segments(fc['connection_path'])
    body += struct.pack('BB', len(path) // 2, 0) + path
    return mr_request(0x4E, list(CM_PATH), body)


def dec_forward_close_reply(reply):
    d = reply['data']
    _need(reply['status'] == 0, 'forward close failed')
    _need(len(d) >= 10, 'forward close reply truncated')
    cserial, vendor, oserial, app_words, rsv = struct.unpack_from('<HHIBB', d, 0)
    _need(rsv == 0, 'forward close reply reserved byte non-zero')
    _need(len(d) == 10 + 2 * app_words, 'forward close reply application data length mismatch')
    return {'connection_serial': cserial, 'O_vendor': vendor, 'O_serial': oserial}


def is_nan(x):
    return isinstance(x, float) and math.isnan(x)
