"""
sched -- a deterministic cooperative scheduler for real threads (C09, engine A).

N worker threads run real cpppo code, but only the thread holding the baton runs.  A trace function
(sys.settrace in each worker) counts *events* -- every function call inside the code under test and every
line executed in a configurable set of files -- and at the event counts named by the schedule the baton is
handed to another thread.  A schedule is a list of (run_events, switch_to): "let the running thread execute
run_events more events, then switch to thread switch_to (if it can run; else the next runnable one)".
After the list is exhausted the running thread runs until it finishes or blocks, then the remaining threads
run in index order.  Locks of the code under test are replaced (from the harness) by SchedLock, which
yields the baton instead of blocking while another (suspended) thread holds the lock.

Everything is a pure function of (thread bodies, schedule): no clocks, no OS scheduling decisions.
"""
from __future__ import annotations

import sys
import threading


class Deadlock(Exception):
    pass


class SchedLock(object):
    """Drop-in for threading.Lock: acquire yields the baton while the lock is held by a suspended thread."""

    def __init__(self, sched):
        self._l = threading.Lock()
        self.sched = sched
        self.owner = None

    def acquire(self, blocking=True, timeout=-1):
        if self._l.acquire(False):
            self.owner = self.sched.current_index()
            return True
        if not blocking:
            return False
        while not self._l.acquire(False):
            self.sched.blocked_on(self)
        self.owner = self.sched.current_index()
        return True

    def release(self):
        self.owner = None
        self._l.release()
        self.sched.note_release(self)

    def locked(self):
        return self._l.locked()

    def __enter__(self):
        self.acquire()
        return self

    def __exit__(self, *a):
        self.release()
        return False


class Scheduler(object):
    def __init__(self, schedule, trace_prefixes, line_files=(), max_events=5000000):
        # entries: [k, t] = after k more events switch to t;  ['fn', name, nth, t] = at the nth traced line inside a
        # function called `name` (counted per running stretch) switch to t
        self.schedule = [tuple(e) for e in schedule]
        self.fn_lines = 0
        self.line_events = 0
        self.trace_prefixes = tuple(trace_prefixes)
        self.line_files = tuple(line_files)
        self.max_events = max_events
        self.sems = []
        self.state = []             # 'ready' | 'blocked' | 'done'
        self.blocked_lock = {}
        self.by_ident = {}
        self.running = None
        self.events = 0
        self.countdown = None
        self.want_fn = None
        self.sched_pos = 0
        self.switch_log = []        # (event index, from, to, reason)
        self.errors = {}
        self.main_sem = threading.Semaphore(0)
        self.deadlock = None
        self.event_at = {}          # thread index -> event count, readable by bodies via now()

    # -- used by worker bodies
    def now(self):
        return self.events

    def current_index(self):
        return self.by_ident.get(threading.get_ident())

    # -- scheduling core (always called by the thread holding the baton)
    def _next_preemption(self):
        self.want_fn = None
        self.countdown = None
        if self.sched_pos < len(self.schedule):
            e = self.schedule[self.sched_pos]
            if e[0] == 'fn':
                self.want_fn = (e[1], max(1, int(e[2])))
                self.fn_lines = 0
            elif e[0] == 'line':            # ['line', n, t]: after n more *line* events (request-processing code only)
                self.want_fn = (None, max(1, int(e[1])))
                self.fn_lines = 0
            else:
                self.countdown = max(1, int(e[0]))

    def _runnable(self, prefer=None, exclude=None):
        n = len(self.state)
        order = list(range(n))
        if prefer is not None:
            order = [prefer % n] + [i for i in order if i != prefer % n]
        for i in order:
            if i != exclude and self.state[i] == 'ready':
                return i
        # a thread blocked on a lock that is now free is runnable again
        for i in order:
            if i != exclude and self.state[i] == 'blocked' and not self.blocked_lock[i].locked():
                return i
        return None

    def _hand_over(self, me, to, reason):
        self.switch_log.append((self.events, me, to, reason, self.line_events))
        self.running = to
        if self.state[to] == 'blocked':
            self.state[to] = 'ready'
        self.sems[to].release()
        if me is not None and self.state[me] != 'done':
            self.sems[me].acquire()

    def event(self, fname=None):
        me = self.current_index()
        if me is None or me != self.running:
            return
        self.events += 1
        if self.events > self.max_events:
            raise Deadlock('more than %d traced events' % self.max_events)
        if fname is not None:
            self.line_events += 1
        if self.want_fn is not None:
            if fname is None or (self.want_fn[0] is not None and fname != self.want_fn[0]):
                return
            self.fn_lines += 1
            if self.fn_lines < self.want_fn[1]:
                return
        elif self.countdown is None:
            return
        else:
            self.countdown -= 1
            if self.countdown > 0:
                return
        want = int(self.schedule[self.sched_pos][-1])
        self.sched_pos += 1
        self._next_preemption()
        to = self._runnable(prefer=want, exclude=me)
        if to is not None:
            self._hand_over(me, to, 'preempt')

    def blocked_on(self, lock):
        me = self.current_index()
        if me is None:
            # not a scheduled thread (e.g. the main thread during setup): really wait
            lock._l.acquire()
            lock._l.release()
            return
        self.state[me] = 'blocked'
        self.blocked_lock[me] = lock
        to = self._runnable(exclude=me)
        if to is None:
            self.state[me] = 'ready'
            self.deadlock = 'thread %d blocked on a lock held by %r; no other thread can run' % (me, lock.owner)
            raise Deadlock(self.deadlock)
        self._hand_over(me, to, 'blocked')
        self.state[me] = 'ready'

    def note_release(self, lock):
        pass

    # -- tracing
    # Steps: every line of the request-processing files (line_files); every line inside the lock handling of the
    # parsing framework (hot_functions); every call into those; and one in `sparse` of all other calls in the code
    # under test (the byte-level parsing machinery), so that preemption points concentrate where shared state is
    # touched but can still fall anywhere.
    hot_functions = ('__enter__', '__exit__', 'post_process_closure', 'safe')
    sparse = 16

    def _tracer(self, frame, event, arg):
        code = frame.f_code
        fn = code.co_filename
        if not fn.startswith(self.trace_prefixes):
            return None
        if event == 'call':
            if fn.endswith(self.line_files) or code.co_name in self.hot_functions:
                self.event()
                return self._line_tracer
            self._sparse = getattr(self, '_sparse', 0) + 1
            if self._sparse % self.sparse == 0:
                self.event()
            return None
        return None

    def _line_tracer(self, frame, event, arg):
        if event == 'line':
            self.event(frame.f_code.co_name)
        return self._line_tracer

    # -- running
    def run(self, bodies):
        n = len(bodies)
        self.sems = [threading.Semaphore(0) for _ in range(n)]
        self.state = ['ready'] * n
        threads = []

        def wrap(i, body):
            def target():
                self.by_ident[threading.get_ident()] = i
                self.sems[i].acquire()
                sys.settrace(self._tracer)
                try:
                    body()
                except BaseException as exc:     # noqa
                    self.errors[i] = exc
                finally:
                    sys.settrace(None)
                    self.state[i] = 'done'
                    to = self._runnable(exclude=i)
                    if to is not None:
                        self._hand_over(None, to, 'finished')
                    else:
                        if any(s != 'done' for s in self.state):
                            self.deadlock = self.deadlock or 'threads %r never became runnable' % (
                                [j for j, s in enumerate(self.state) if s != 'done'],)
                            # release them so they can die with Deadlock
                            for j, s in enumerate(self.state):
                                if s != 'done':
                                    self.sems[j].release()
                        self.main_sem.release()
            return target

        for i, b in enumerate(bodies):
            t = threading.Thread(target=wrap(i, b), name='vp-sched-%d' % i, daemon=True)
            threads.append(t)
            t.start()
        self._next_preemption()
        self.running = 0
        self.sems[0].release()
        self.main_sem.acquire()
        for t in threads:
            t.join(10)
        return self
