"""
c01chk -- wrapper / CPF / frame mappings and the three-clause checks of C01 (see c01map for the conventions).

A *node* is (kind, payload):  ('epath', {...}) ('status', {...}) ('typed', {...}) ('mr', m) ('wrapper', w)
('cpf', {'items': [...]}) ('frame', f).  check_node(node, opts, ctx) -> list of Failure tuples
(signature, observed, expected); on failure of a composite node its children are checked on their own and, if
one of them fails, only the innermost failures are returned (root-cause signatures).
"""
from __future__ import annotations

import re

from . import refcodec as rc
from . import refcodec_full as rf
from .c01map import (lib, LibError, guarded, run_machine, D, get_path, norm, B, d_path, e_path, d_status, e_status,
                     d_typed, e_typed, d_mr, e_mr, dialect_of, d_segments, wire_py_values)


class Ctx(object):
    def __init__(self, stats=None):
        self.stats = stats
        self.excluded = []

    def exclude(self, reason):
        self.excluded.append(reason)
        if self.stats is not None:
            self.stats.exclude(reason)


_MACH = {}


def machine(name, factory):
    m = _MACH.get(name)
    if m is None:
        m = _MACH[name] = factory()
    return m


# ------------------------------------------------------------------------------------------------
# mapping: message, wrapper, CPF items, frames


def d_message(M, opts):
    if 'svc' not in M:
        return {'input': bytearray(bytes.fromhex(M['raw']))}
    return d_mr(M, opts)


def d_wrapper(w, opts):
    k = w['k']
    if k == 'bare':
        return {'request': d_message(w['message'], opts)}
    if k == 'usend_error':
        return dict(d_status(w), service=0xD2)
    d = {'service': 0x52, 'status': 0, 'priority': w['priority'], 'timeout_ticks': w['timeout_ticks'],
         'path': d_path(w['send_path']), 'request': d_message(w['message'], opts)}
    if w.get('route_path'):
        d['route_path'] = d_path(w['route_path'])
    return d


def e_message(M, prefix):
    out = [(prefix + 'input', B(rf.enc_message(M)))]
    if 'svc' in M:
        out += e_mr(M, prefix)
    return out


def e_wrapper(w, prefix):
    k = w['k']
    if k == 'bare':
        return e_message(w['message'], prefix + 'request.')
    if k == 'usend_error':
        return [(prefix + 'service', 0xD2)] + e_status(w, prefix)
    msg = rf.enc_message(w['message'])
    out = [(prefix + 'service', 0x52), (prefix + 'priority', w['priority']), (prefix + 'timeout_ticks', w['timeout_ticks']),
           (prefix + 'length', len(msg))]
    out += e_path(w['send_path'], prefix + 'path') + e_path(w.get('route_path') or [], prefix + 'route_path')
    return out + e_message(w['message'], prefix + 'request.')


ITEM_CTX = {'conn_addr': 'connection_ID', 'conn_data': 'connection_data', 'unconn_data': 'unconnected_send',
            'comm_service': 'communications_service', 'identity': 'identity_object', 'legacy': 'legacy_CPF_0x0001'}
IDENT_KEYS = ('version', 'sin_family', 'sin_port', 'sin_addr', 'vendor_id', 'device_type', 'product_code',
              'product_revision', 'status_word', 'serial_number', 'product_name', 'state')
LEGACY_KEYS = ('version', 'unknown_1', 'sin_family', 'sin_port', 'sin_addr', 'ip_address')


def d_item(it, opts):
    t = it['t']
    if t == 'unknown':
        d = {'type_id': it['type_id']}
        if it['data']:
            d['input'] = bytearray(bytes.fromhex(it['data']))
        return d
    d = {'type_id': rf.TYPE_ID[t]}
    if t == 'conn_addr':
        d[ITEM_CTX[t]] = {'connection': it['connection']}
    elif t == 'conn_data':
        d[ITEM_CTX[t]] = {'sequence': it['sequence'], 'request': d_message(it['payload'], opts)}
    elif t == 'unconn_data':
        d[ITEM_CTX[t]] = d_wrapper(it['payload'], opts)
    elif t == 'comm_service':
        d[ITEM_CTX[t]] = {'version': it['version'], 'capability': it['capability'], 'service_name': it['name']}
    elif t == 'identity':
        d[ITEM_CTX[t]] = {k: it[k] for k in IDENT_KEYS}
    elif t == 'legacy':
        d[ITEM_CTX[t]] = {k: it[k] for k in LEGACY_KEYS}
    return d


def e_item(it, prefix):
    tid, data = rf.enc_item(it)
    out = [(prefix + 'type_id', tid), (prefix + 'length', len(data))]
    t = it['t']
    if t == 'unknown':
        if data:
            out.append((prefix + 'input', B(data)))
    elif t == 'conn_addr':
        out.append((prefix + 'connection_ID.connection', it['connection']))
    elif t == 'conn_data':
        out.append((prefix + 'connection_data.sequence', it['sequence']))
        out += e_message(it['payload'], prefix + 'connection_data.request.')
    elif t == 'unconn_data':
        out += e_wrapper(it['payload'], prefix + 'unconnected_send.')
    elif t == 'comm_service':
        p = prefix + 'communications_service.'
        out += [(p + 'version', it['version']), (p + 'capability', it['capability']), (p + 'service_name', it['name'])]
    elif t == 'identity':
        out += [(prefix + 'identity_object.' + k, it[k]) for k in IDENT_KEYS]
    elif t == 'legacy':
        out += [(prefix + 'legacy_CPF_0x0001.' + k, it[k]) for k in LEGACY_KEYS]
    return out


def d_cpf(items, opts):
    if not items and opts.get('cpf_count0'):
        return {'count': 0}
    return {'item': [d_item(it, opts) for it in items]}


def e_cpf(items, prefix):
    out = [(prefix + 'count', len(items))]
    for i, it in enumerate(items):
        out += e_item(it, '%sitem[%d].' % (prefix, i))
    return out


CIP_NAME = {'register': 'register', 'unregister': 'unregister', 'list_services': 'list_services',
            'list_identity': 'list_identity', 'list_interfaces': 'list_interfaces', 'legacy': 'legacy',
            'send_rr_data': 'send_data', 'send_unit_data': 'send_data'}


def d_command(c, opts):
    name = c['cmd']
    if name == 'register':
        return {'protocol_version': c['protocol_version'], 'options': c['options']}
    if name == 'unregister':
        return True
    if name in ('send_rr_data', 'send_unit_data'):
        return {'interface': c['interface'], 'timeout': c['timeout'], 'CPF': d_cpf(c['items'], opts)}
    return {} if c.get('items') is None else {'CPF': d_cpf(c['items'], opts)}


def d_frame(f, opts):
    c = f['command']
    enip = {'session_handle': f['session'], 'status': f['status'], 'options': f['options'],
            'sender_context': {'input': bytearray(bytes.fromhex(f['context']))},
            'CIP': {CIP_NAME[c['cmd']]: d_command(c, opts)}}
    # the command can be deduced from the CIP payload, except where two commands share one payload class or
    # the payload is empty
    if opts.get('cmd_explicit') or c['cmd'] in ('send_unit_data', 'legacy', 'unregister'):
        enip['command'] = rf.CMD[c['cmd']]
    return enip


def e_frame(f):
    c = f['command']
    code, payload = rf.enc_command(c)
    p = 'enip.'
    out = [(p + 'command', code), (p + 'length', len(payload)), (p + 'session_handle', f['session']),
           (p + 'status', f['status']), (p + 'sender_context.input', B(bytes.fromhex(f['context']))),
           (p + 'options', f['options'])]
    if payload:
        out.append((p + 'input', B(payload)))
    q = p + 'CIP.' + CIP_NAME[c['cmd']]
    name = c['cmd']
    if name == 'register':
        out += [(q + '.protocol_version', c['protocol_version']), (q + '.options', c['options'])]
    elif name == 'unregister':
        out.append((q, {'bool': True}))
    elif name in ('send_rr_data', 'send_unit_data'):
        out += [(q + '.interface', c['interface']), (q + '.timeout', c['timeout'])] + e_cpf(c['items'], q + '.CPF.')
    elif c.get('items') is None:
        out.append((q + '.CPF', {}))
    else:
        out += e_cpf(c['items'], q + '.CPF.')
    return out


# ------------------------------------------------------------------------------------------------
# canonical-domain predicates


def walk_paths(m):
    """every segment list inside an mr message"""
    for k in ('path', 'connection_path'):
        if k in m:
            yield m[k]
    for x in m.get('members', ()):
        for p in walk_paths(x):
            yield p


def noncanon_segments(segments):
    return any('_width' in s for s in segments)


def noncanon_mr(m):
    why = []
    if any(noncanon_segments(p) for p in walk_paths(m)):
        why.append('non-narrowest numeric segment: produce not asserted (parse-only)')
    if status0_ext(m):
        why.append('extended status with status 0: produce not asserted (parse-only)')
    return why


def status0_ext(m):
    if m.get('dir') == 'rpy' and m.get('status') == 0 and m.get('ext'):
        return True
    return any(status0_ext(x) for x in m.get('members', ()))


def noncanon_message(M):
    return noncanon_mr(M) if 'svc' in M else []


def noncanon_wrapper(w):
    why = []
    if w['k'] == 'usend':
        if noncanon_segments(w['send_path']) or noncanon_segments(w.get('route_path') or []):
            why.append('non-narrowest numeric segment: produce not asserted (parse-only)')
    if 'message' in w:
        why += noncanon_message(w['message'])
    return why


def ambiguous_wrapper(w):
    """the documented Unconnected-Send vs Read-Tag-Fragmented collisions (parser.unconnected_send.is_uerr)"""
    if w['k'] == 'usend_error':
        if w['status'] >= 0x10 or w.get('ext'):
            return 'Unconnected Send error reply with status >= 0x10 or extended status is read as a Read Tag Fragmented reply: parse not asserted'
        return None
    if w['k'] == 'bare':
        b = rf.enc_message(w['message'])
        if b[:1] == b'\x52':
            return 'bare service 0x52 in an unconnected data item is read as an Unconnected Send: parse not asserted'
        if b[:1] == b'\xd2' and len(b) <= 6 and len(b) >= 4 and b[2] < 0x10 and b[3] == 0:
            return 'bare Read Tag Fragmented error reply (<= 6 bytes, status < 0x10, no extended status) is read as an Unconnected Send error: parse not asserted'
    return None


def items_of(node_kind, payload):
    if node_kind == 'cpf':
        return payload['items']
    c = payload['command']
    return c.get('items') or []


def noncanon_items(items):
    why = []
    for it in items:
        if it['t'] == 'unconn_data':
            why += noncanon_wrapper(it['payload'])
        elif it['t'] == 'conn_data':
            why += noncanon_message(it['payload'])
    return why


def ambiguous_items(items):
    for it in items:
        if it['t'] == 'unconn_data':
            a = ambiguous_wrapper(it['payload'])
            if a:
                return a
    return None


# ------------------------------------------------------------------------------------------------
# comparison helpers

_IDX = re.compile(r'\[\d+\]')


def strip_idx(path):
    return _IDX.sub('[]', path)


def compare_leaves(data, expected, sigbase):
    fails, seen = [], set()
    for path, val in expected:
        found, act = get_path(data, path)
        key = strip_idx(path)
        if not found:
            what = 'missing'
        elif norm(act) != norm(val):
            what = 'differs'
        else:
            continue
        if (what, key) in seen:
            continue
        seen.add((what, key))
        fails.append(('%s:parse:%s:%s' % (sigbase, what, key), {'path': path, 'value': norm(act) if found else None},
                      {'path': path, 'value': norm(val)}))
        if len(fails) >= 4:
            break
    return fails


def bytes_fail(sig, out, ref):
    out, ref = bytes(out), bytes(ref)
    i = 0
    while i < min(len(out), len(ref)) and out[i] == ref[i]:
        i += 1
    return (sig, {'bytes': out.hex(), 'first_difference_at': i, 'length': len(out)}, {'bytes': ref.hex(), 'length': len(ref)})


def exc_fail(sigbase, direction, e):
    return ('%s:%s:exc:%s@%s' % (sigbase, direction, e.exc_type, e.where), str(e), 'no exception')


def three_clauses(sigbase, ref, canonical, parse_ok, produce, parse, expected, regen):
    """produce() -> bytes from the caller's dict; parse() -> (data, terminal, sent[, problems]); regen(data) -> bytes"""
    fails = []
    if canonical:
        try:
            out = guarded(produce)
            if bytes(out) != ref:
                fails.append(bytes_fail(sigbase + ':produce:bytes', out, ref))
        except LibError as e:
            fails.append(exc_fail(sigbase, 'produce', e))
    if not parse_ok:
        return fails
    try:
        data, problems = guarded(parse)
    except LibError as e:
        fails.append(exc_fail(sigbase, 'parse', e))
        return fails
    parse_fails = [('%s:parse:%s' % (sigbase, p[0]), p[1], p[2]) for p in problems]
    parse_fails += compare_leaves(data, expected, sigbase)
    if canonical and regen is not None and not parse_fails:     # a mis-parsed message cannot be expected to regenerate
        produced = [f[1] for f in fails]
        try:
            out = guarded(regen, data)
            if bytes(out) != ref:
                f = bytes_fail(sigbase + ':regen:bytes', out, ref)
                if f[1] not in produced:        # same wrong bytes as clause 1: one root cause, one signature
                    fails.append(f)
        except LibError as e:
            f = exc_fail(sigbase, 'regen', e)
            if f[0].replace(':regen:', ':produce:') not in [x[0] for x in fails]:   # same exception as clause 1
                fails.append(f)
    return fails + parse_fails


def run_checked(mach, ref, data=None, path=None, what='machine'):
    data, term, sent = run_machine(mach, ref, data=data, path=path)
    problems = []
    if not term:
        problems.append(('not-terminal', {'terminal': False, 'in': what}, {'terminal': True}))
    if sent != len(ref):
        problems.append(('not-consumed', {'sent': sent, 'in': what}, {'sent': len(ref)}))
    return data, problems



# ------------------------------------------------------------------------------------------------
# clause 4 ("re-produce"): produced bytes are a function of the field values alone, not of what the same dict produced before
#
# The caller's dict is produced once (the producers leave rendered `input` octets, lengths, sizes... behind in it), then every
# field is overwritten in place with the values of a second message of identical shape (one plain integer field of the
# description changed by one bit) and it is produced again: the bytes must be those a fresh dict holding the second message's
# values produces (which the main clauses compare with the reference encoder).

import copy
import json
import zlib

STRUCTURAL_KEYS = ('t', 'k', 'svc', 'dir', 'cmd', 'type', 'status', 'large', 'variant', 'type_id', 'raw', 'data')


def _int_leaves(node, out, key=None):
    if isinstance(node, dict):
        for k in sorted(node):
            if k in STRUCTURAL_KEYS:
                continue
            if key in ('O_T', 'T_O') and k not in ('connection_ID', 'RPI'):
                # Forward Open connection parameters: produce() documents that it replaces the supplied parameters with their
                # complete decoding (incl. NCP), and an NCP that is present is authoritative over the individual fields
                continue
            _int_leaves(node[k], out, k) if isinstance(node[k], (dict, list)) else (
                out.append((node, k)) if isinstance(node[k], int) and not isinstance(node[k], bool) else None)
    elif isinstance(node, list):
        for i, v in enumerate(node):
            if isinstance(v, (dict, list)):
                _int_leaves(v, out, key)


def mutate_desc(desc):
    """-> (copy of the description with one plain integer field changed in its lowest bit, 'key') or (None, None)"""
    d2 = copy.deepcopy(desc)
    leaves = []
    _int_leaves(d2, leaves)
    if not leaves:
        return None, None
    n = zlib.crc32(json.dumps(desc, sort_keys=True, default=str).encode())
    node, k = leaves[n % len(leaves)]
    node[k] ^= 1
    return d2, k


def keytree(d):
    if isinstance(d, dict):
        return {k: keytree(dict.__getitem__(d, k)) for k in dict.keys(d)}
    if isinstance(d, list):
        return [keytree(x) for x in d]
    return None


def merge_into(dst, src):
    """overwrite, in place, every field of dst with the value src holds (what a caller re-using a message dict does)"""
    for k in dict.keys(src):
        v = dict.__getitem__(src, k)
        cur = dict.get(dst, k)
        if isinstance(v, dict) and isinstance(cur, dict):
            merge_into(cur, v)
        elif isinstance(v, list) and isinstance(cur, list) and len(v) == len(cur) and all(isinstance(x, dict) for x in v + cur):
            for a, b in zip(cur, v):
                merge_into(a, b)
        else:
            dict.__setitem__(dst, k, v)


def reproduce_clause(sigbase, desc, build, finish, ctx):
    """build(desc) -> fresh dict; finish(d, desc) -> bytes"""
    desc2, key = mutate_desc(desc)
    if desc2 is None:
        return []
    try:
        shape1 = keytree(build(desc))
        fresh2 = build(desc2)
        if keytree(fresh2) != shape1:
            return []
        d1 = build(desc)
        guarded(lambda: finish(d1, desc))
        want = bytes(guarded(lambda: finish(build(desc2), desc2)))
    except LibError:
        return []           # reported by the main clauses
    merge_into(d1, fresh2)
    if ctx.stats is not None:
        ctx.stats.count('reproduce:evaluated')
    try:
        out = bytes(guarded(lambda: finish(d1, desc2)))
    except LibError as e:
        return [exc_fail(sigbase, 'reproduce', e)]
    if out != want:
        f = bytes_fail(sigbase + ':reproduce:bytes', out, want)
        f[1]['changed_field'] = key
        return [f]
    return []

# ------------------------------------------------------------------------------------------------
# element checks


def check_epath(p, opts, ctx):
    L = lib()
    P = L['parser']
    variant = p.get('variant', 'plain')
    cls = {'plain': P.EPATH, 'padded': P.EPATH_padded, 'single': P.EPATH_single}[variant]
    segs = p['segments']
    ref = rf.enc_epath(segs, variant)
    canonical = not noncanon_segments(segs)
    if not canonical:
        ctx.exclude('non-narrowest numeric segment: produce not asserted (parse-only)')
    name = cls.__name__
    expected = [(name + '.segment[%d].%s' % (i, k), v) for i, s in enumerate(segs) for k, v in s.items() if not k.startswith('_')]
    if variant != 'single':
        expected.append((name + '.size', rf.epath_words(segs)))
        if not segs:
            expected.append((name + '.segment', []))

    def produce():
        d = D(d_path(segs))
        return cls.produce(d['segment'] if p.get('form') == 'list' else d)

    def parse():
        return run_checked(machine(name, lambda: cls(terminal=True)), ref, what=name)

    def regen(data):
        return cls.produce(dict.__getitem__(data, name))

    return three_clauses('epath:' + variant, ref, canonical, True, produce, parse, expected, regen)


def check_status(s, opts, ctx):
    P = lib()['parser']
    ref = rc.enc_status(s['status'], s.get('ext') or ())
    canonical = not (s['status'] == 0 and s.get('ext'))
    if not canonical:
        ctx.exclude('extended status with status 0: produce not asserted (parse-only)')

    def parse():
        return run_checked(machine('status', lambda: P.status(terminal=True)), ref, what='status')

    return three_clauses('status', ref, canonical, True, lambda: P.status.produce(D(d_status(s))), parse,
                         e_status(s), lambda data: P.status.produce(data))


def check_typed(t, opts, ctx):
    P = lib()['parser']
    code = rf.tcode(t['type'])
    sigbase = 'typed:' + t['type']
    if '_boolbytes' in t:          # parse-only: any non-zero octet is a true BOOL
        ref = bytes.fromhex(t['_boolbytes'])
        ctx.exclude('BOOL octet other than 0x00/0xFF: produce not asserted (parse-only)')
        expected = [('typed_data.data', norm([b != 0 for b in ref]))]
        canonical = False
    else:
        ref = rf.enc_typed(t)
        expected = e_typed(t, 'typed_data')
        canonical = True

    def produce():
        d = D(d_typed(t))
        if opts.get('typed_kw'):        # tag_type as keyword instead of .type
            dict.pop(d, 'type')
            return P.typed_data.produce(d, tag_type=code)
        return P.typed_data.produce(d)

    def parse():
        return run_checked(machine('typed:%d' % code, lambda: P.typed_data(tag_type=code, terminal=True)), ref,
                           what='typed_data')

    def regen(data):
        return P.typed_data.produce(dict.__getitem__(data, 'typed_data'), tag_type=code)

    return three_clauses(sigbase, ref, canonical, True, produce, parse, expected, regen)


def check_iface(m, opts, ctx):
    P = lib()['parser']
    ref = rf.enc_ifaceaddrs(m)
    expected = [('IFACEADDRS.' + k, m[k]) for k in rf.IFACE_KEYS + ('domain_name',)]

    def parse():
        return run_checked(machine('iface', lambda: P.IFACEADDRS(terminal=True)), ref, what='IFACEADDRS')

    return three_clauses('iface', ref, True, True, lambda: P.IFACEADDRS.produce(D(dict(m))), parse, expected,
                         lambda data: P.IFACEADDRS.produce(dict.__getitem__(data, 'IFACEADDRS')))


# ------------------------------------------------------------------------------------------------
# service level


def strip_member_inputs(data):
    """delete the raw octets kept beside each parsed Multiple Service member so that it is re-produced"""
    found, mult = get_path(data, 'multiple')
    if found and isinstance(mult, dict) and dict.__contains__(mult, 'request'):
        for r in dict.__getitem__(mult, 'request'):
            if isinstance(r, dict):
                dict.pop(r, 'input', None)
                strip_member_inputs(r)


def mr_sigbase(m):
    s = 'mr:%s:%s' % (m['svc'], m['dir'])
    if m['svc'] == 'forward_open':
        s += ':large' if m.get('large') else ':small'
    if isinstance(m.get('data'), dict):
        s += '[STRUCT]' if m['data']['type'] == 'STRUCT' else ''
    return s


def check_mr(m, opts, ctx):
    dialect = dialect_of(m)
    ref = rf.enc_mr(m)
    why = noncanon_mr(m)
    for w in why:
        ctx.exclude(w)

    def parse():
        return run_checked(dialect.parser, ref, what=dialect.__name__ + '.parser')

    def regen(data):
        strip_member_inputs(data)
        return dialect.produce(data)

    fails = three_clauses(mr_sigbase(m), ref, not why, True, lambda: dialect.produce(D(d_mr(m, opts))), parse,
                          e_mr(m), regen)
    if not why and not fails:
        fails += reproduce_clause(mr_sigbase(m), m, lambda mm: D(d_mr(mm, opts)), lambda d, mm: dialect_of(mm).produce(d), ctx)
    return fails


# ------------------------------------------------------------------------------------------------
# wrapper / CPF / frame level


def produce_request_input(req_d, M):
    """what client.unconnected_send / connected_send do: encode the request with the dialect's producer into
    request.input before the CPF producer runs"""
    if 'svc' in M:
        dict.__setitem__(req_d, 'input', bytearray(dialect_of(M).produce(req_d)))


def prepare_item_inputs(item_d, it):
    if it['t'] == 'conn_data':
        produce_request_input(item_d['connection_data']['request'], it['payload'])
    elif it['t'] == 'unconn_data' and 'message' in it['payload']:
        produce_request_input(item_d['unconnected_send']['request'], it['payload']['message'])


def parse_item_requests(items_data, items):
    """third layer: the dialect parser over each item's request.input, into the same request dict"""
    problems = []
    for i, it in enumerate(items):
        if it['t'] == 'conn_data':
            M, key = it['payload'], 'connection_data'
        elif it['t'] == 'unconn_data' and 'message' in it['payload']:
            M, key = it['payload']['message'], 'unconnected_send'
        else:
            continue
        if 'svc' not in M:
            continue
        found, req = get_path(items_data[i], key + '.request') if i < len(items_data) else (False, None)
        if not found or not dict.__contains__(req, 'input'):
            continue            # reported as a missing leaf by the comparison
        raw = bytes(bytearray(dict.__getitem__(req, 'input')))
        dialect = dialect_of(M)
        _d, probs = run_checked(dialect.parser, raw, data=req, what='%s.parser over item[%d] request' % (dialect.__name__, i))
        problems += probs
    return problems


def regen_item_inputs(items_data, items):
    for i, it in enumerate(items):
        if it['t'] == 'conn_data':
            M, key = it['payload'], 'connection_data'
        elif it['t'] == 'unconn_data' and 'message' in it['payload']:
            M, key = it['payload']['message'], 'unconnected_send'
        else:
            continue
        if 'svc' not in M or i >= len(items_data):
            continue
        found, req = get_path(items_data[i], key + '.request')
        if found:
            dict.pop(req, 'input', None)
            strip_member_inputs(req)
            dict.__setitem__(req, 'input', bytearray(dialect_of(M).produce(req)))


def check_wrapper(w, opts, ctx):
    P = lib()['parser']
    ref = rf.enc_wrapper(w)
    why = noncanon_wrapper(w)
    for x in why:
        ctx.exclude(x)
    amb = ambiguous_wrapper(w)
    if amb:
        ctx.exclude(amb)
    fake = [{'t': 'unconn_data', 'payload': w}]

    def produce():
        d = D({'unconnected_send': d_wrapper(w, opts)})
        prepare_item_inputs(d, fake[0])
        return P.unconnected_send.produce(d['unconnected_send'])

    def parse():
        # the machine reads the enclosing CPF item's .length (is_uerr): supply it as the item parser would
        data = D({'length': len(ref)})
        data, problems = run_checked(machine('usend', lambda: P.unconnected_send(terminal=True)), ref, data=data,
                                     what='unconnected_send')
        problems += parse_item_requests([data], fake)
        return data, problems

    def regen(data):
        regen_item_inputs([data], fake)
        return P.unconnected_send.produce(dict.__getitem__(data, 'unconnected_send'))

    fails = three_clauses('wrapper:' + w['k'], ref, not why, amb is None, produce, parse,
                          e_wrapper(w, 'unconnected_send.'), regen)

    def finish(d, ww):
        prepare_item_inputs(d, {'t': 'unconn_data', 'payload': ww})
        return P.unconnected_send.produce(d['unconnected_send'])

    if not why and not fails:
        fails += reproduce_clause('wrapper:' + w['k'], w, lambda ww: D({'unconnected_send': d_wrapper(ww, opts)}), finish, ctx)
    return fails


def item_sig(items):
    return '+'.join(it['t'] for it in items) or 'empty'


def check_cpf(c, opts, ctx):
    P = lib()['parser']
    items = c['items']
    ref = rf.enc_cpf(items)
    why = noncanon_items(items)
    for x in why:
        ctx.exclude(x)
    amb = ambiguous_items(items)
    if amb:
        ctx.exclude(amb)

    def produce():
        d = D(d_cpf(items, opts))
        for idd, it in zip(dict.get(d, 'item', []), items):
            prepare_item_inputs(idd, it)
        return P.CPF.produce(d)

    def parse():
        data, problems = run_checked(machine('CPF', lambda: P.CPF(terminal=True)), ref, what='CPF')
        found, lst = get_path(data, 'CPF.item')
        problems += parse_item_requests(lst if found else [], items)
        return data, problems

    def regen(data):
        found, lst = get_path(data, 'CPF.item')
        regen_item_inputs(lst if found else [], items)
        return P.CPF.produce(dict.__getitem__(data, 'CPF'))

    fails = three_clauses('cpf', ref, not why, amb is None, produce, parse, e_cpf(items, 'CPF.'), regen)

    def finish(d, cc):
        for idd, it in zip(dict.get(d, 'item', []), cc['items']):
            prepare_item_inputs(idd, it)
        return P.CPF.produce(d)

    if not why and not fails:
        fails += reproduce_clause('cpf', c, lambda cc: D(d_cpf(cc['items'], opts)), finish, ctx)
    return fails


def check_frame(f, opts, ctx):
    P = lib()['parser']
    c = f['command']
    items = c.get('items') or []
    ref = rf.enc_frame(f)
    why = noncanon_items(items)
    for x in why:
        ctx.exclude(x)
    amb = ambiguous_items(items)
    if amb:
        ctx.exclude(amb)
    cip = 'CIP.' + CIP_NAME[c['cmd']]

    def produce():
        enip = D(d_frame(f, opts))
        found, lst = get_path(enip, cip + '.CPF.item')
        for idd, it in zip(lst if found else [], items):
            prepare_item_inputs(idd, it)
        dict.__setitem__(enip, 'input', bytearray(P.CIP.produce(enip)))
        return P.enip_encode(enip)

    def parse():
        data, problems = run_checked(machine('enip', lambda: P.enip_machine(terminal=True)), ref, what='enip_machine')
        found, payload = get_path(data, 'enip.input')
        payload = bytes(bytearray(payload)) if found else b''
        _d, probs = run_checked(machine('CIP', lambda: P.CIP(terminal=True)), payload, data=data, path='enip', what='CIP')
        problems += probs
        found, lst = get_path(data, 'enip.' + cip + '.CPF.item')
        problems += parse_item_requests(lst if found else [], items)
        return data, problems

    def regen(data):
        enip = dict.__getitem__(data, 'enip')
        dict.pop(enip, 'input', None)
        found, lst = get_path(enip, cip + '.CPF.item')
        regen_item_inputs(lst if found else [], items)
        dict.__setitem__(enip, 'input', bytearray(P.CIP.produce(enip)))
        return P.enip_encode(enip)

    fails = three_clauses('frame:' + c['cmd'], ref, not why, amb is None, produce, parse, e_frame(f), regen)

    def finish(enip, ff):
        found, lst = get_path(enip, cip + '.CPF.item')
        for idd, it in zip(lst if found else [], ff['command'].get('items') or []):
            prepare_item_inputs(idd, it)
        dict.__setitem__(enip, 'input', bytearray(P.CIP.produce(enip)))
        return P.enip_encode(enip)

    if not why and not fails:
        fails += reproduce_clause('frame:' + c['cmd'], f, lambda ff: D(d_frame(ff, opts)), finish, ctx)
    return fails


# ------------------------------------------------------------------------------------------------
# node dispatch and localisation

CHECKS = {'iface': check_iface, 'epath': check_epath, 'status': check_status, 'typed': check_typed, 'mr': check_mr,
          'wrapper': check_wrapper, 'cpf': check_cpf, 'frame': check_frame}


def message_children(M):
    return [('mr', M)] if 'svc' in M else []


def children(kind, p):
    out = []
    if kind == 'mr':
        for k in ('path', 'connection_path'):
            if k in p:
                out.append(('epath', {'segments': p[k], 'variant': 'padded' if (k == 'connection_path' and p['svc'] == 'forward_close') else 'plain'}))
        if p['dir'] == 'rpy':
            out.append(('status', {'status': p['status'], 'ext': p.get('ext') or []}))
        if isinstance(p.get('data'), dict):
            out.append(('typed', p['data']))
        for x in p.get('members', ()):
            out.append(('mr', x))
    elif kind == 'wrapper':
        if p['k'] == 'usend':
            out.append(('epath', {'segments': p['send_path'], 'variant': 'plain'}))
            out.append(('epath', {'segments': p.get('route_path') or [], 'variant': 'padded'}))
        if p['k'] == 'usend_error':
            out.append(('status', {'status': p['status'], 'ext': p.get('ext') or []}))
        if 'message' in p:
            out += message_children(p['message'])
    elif kind in ('cpf', 'frame'):
        if kind == 'frame' and p['command'].get('items') is not None and p['command']['cmd'] != 'unregister':
            out.append(('cpf', {'items': p['command']['items']}))
        else:
            for it in items_of(kind, p):
                if it['t'] == 'unconn_data':
                    out.append(('wrapper', it['payload']))
                elif it['t'] == 'conn_data':
                    out += message_children(it['payload'])
    return out


def check_node(kind, payload, opts, ctx, depth=0):
    fails = CHECKS[kind](payload, opts, ctx)
    if fails and depth < 6:
        inner = []
        quiet = Ctx()           # exclusions are counted once, by the outer check
        for ck, cp in children(kind, payload):
            inner += check_node(ck, cp, opts, quiet, depth + 1)
        if inner:
            seen, out = set(), []
            for f in inner:
                if f[0] not in seen:
                    seen.add(f[0])
                    out.append(f)
            return out
    return fails
