"""
c01map -- the two mappings of the C01 check and the three-clause comparison against cpppo.

  d_*(model)   what a caller of the library writes: the dotdict handed to <class>.produce()
  e_*(model)   the leaves a parse of the reference bytes must contain: [(dotted path, value)]

Both are written from the docstrings of the producers / the parsed-data examples in the library's tests,
independently of refcodec_full (which yields the bytes).  check_node() runs the three clauses of C01 on one
node of a case and, on failure, localises it to the innermost failing sub-node.
"""
from __future__ import annotations

import array
import contextlib
import struct
import traceback

from . import common
from . import refcodec as rc
from . import refcodec_full as rf

_LIB = {}


def lib():
    """Import cpppo lazily and set the simulator objects up once per process: a Logix Message Router at
    class 2 instance 1 (Multiple Service Packet members are parsed by the object their path names) and the
    Logix dialect as default."""
    if not _LIB:
        import cpppo
        from cpppo.server.enip import parser, device, logix
        device.lookup_reset()
        logix.Logix(instance_id=1)
        device.dialect = logix.Logix
        _LIB.update(cpppo=cpppo, parser=parser, device=device, logix=logix, dotdict=cpppo.dotdict,
                    peekable=cpppo.peekable, Logix=logix.Logix, CM=device.Connection_Manager)
    return _LIB


class LibError(Exception):
    """An exception that escaped library code during one direction of a check."""

    def __init__(self, exc, where):
        Exception.__init__(self, '%s: %s' % (type(exc).__name__, str(exc)[:300]))
        self.exc_type = type(exc).__name__
        self.where = where


def guarded(fn, *a, **kw):
    """Call library code; an exception with a repository frame in its traceback becomes LibError, anything
    else is a harness bug and propagates."""
    try:
        return fn(*a, **kw)
    except (KeyboardInterrupt, SystemExit, common.HarnessError):
        raise
    except BaseException as exc:
        frame, _inner = common._innermost_repo_frame(exc.__traceback__)
        if frame is None:
            raise
        raise LibError(exc, '%s:%s' % (frame[0], frame[1]))


def run_machine(machine, data_bytes, data=None, path=None):
    """-> (data, terminal, sent)"""
    L = lib()
    data = L['dotdict']() if data is None else data
    source = L['peekable'](bytes(data_bytes))
    with machine as m:
        with contextlib.closing(m.run(source=source, data=data, path=path)) as engine:
            for _m, _s in engine:
                pass
        terminal = m.terminal
    return data, terminal, source.sent


def D(obj):
    """plain dict/list structure -> dotdict structure (lists of dicts become lists of dotdicts, as the
    library's own client builds them)"""
    dd = lib()['dotdict']
    if isinstance(obj, dict):
        out = dd()
        for k, v in obj.items():
            dict.__setitem__(out, k, D(v))
        return out
    if isinstance(obj, list):
        return [D(x) for x in obj]
    return obj


# ------------------------------------------------------------------------------------------------
# leaf access / normalisation (own path resolver: dotdict's path semantics are C16's subject)


def get_path(data, path):
    """-> (found, value)"""
    cur = data
    for part in path.split('.'):
        name, _, rest = part.partition('[')
        if not isinstance(cur, dict) or not dict.__contains__(cur, name):
            return False, None
        cur = dict.__getitem__(cur, name)
        while rest:
            idx, _, rest = rest.partition(']')
            rest = rest[1:] if rest.startswith('[') else rest
            if not isinstance(cur, list) or int(idx) >= len(cur):
                return False, None
            cur = cur[int(idx)]
    return True, cur


def norm(v):
    if isinstance(v, bool):
        return {'bool': v}
    if isinstance(v, float):
        return rf.from_float(v)
    if isinstance(v, (bytes, bytearray)):
        return {'hex': bytes(v).hex()}
    if isinstance(v, array.array):
        return {'hex': v.tobytes().hex()}
    if isinstance(v, dict):
        if len(v) == 1 and isinstance(dict.get(v, 'bool'), bool):
            return v            # already normalised
        return {k: norm(dict.__getitem__(v, k)) for k in dict.keys(v)}
    if isinstance(v, (list, tuple)):
        return [norm(x) for x in v]
    return v


def B(b):
    return {'hex': bytes(b).hex()}


# ------------------------------------------------------------------------------------------------
# mapping: elements


def d_segments(segments):
    return [{k: v for k, v in s.items() if not k.startswith('_')} for s in segments]


def d_path(segments):
    return {'segment': d_segments(segments)}


def e_path(segments, prefix):
    out = [(prefix + '.size', rf.epath_words(segments))]
    if not segments:
        out.append((prefix + '.segment', []))
    for i, s in enumerate(segments):
        for k, v in s.items():
            if not k.startswith('_'):
                out.append(('%s.segment[%d].%s' % (prefix, i, k), v))
    return out


def d_status(m):
    d = {'status': m['status']}
    if m.get('ext'):
        d['status_ext'] = {'size': len(m['ext']), 'data': list(m['ext'])}
    return d


def e_status(m, prefix=''):
    out = [(prefix + 'status', m['status']), (prefix + 'status_ext.size', len(m.get('ext') or ()))]
    if m.get('ext'):
        out.append((prefix + 'status_ext.data', list(m['ext'])))
    return out


def py_values(typed):
    return [rf.py_value(typed['type'], v) for v in typed['values']]


def d_typed(typed):
    if typed['type'] == 'STRUCT':
        return {'type': rf.STRUCT_CODE, 'structure_tag': typed['structure_tag'],
                'data': {'input': bytearray(bytes.fromhex(typed['raw']))}}
    return {'type': rc.tcode(typed['type']), 'data': py_values(typed)}


def wire_py_values(typed):
    """the Python values a faithful parser yields for the elements on the wire"""
    t = typed['type']
    vals = rc.dec_values(t, rf.enc_typed(typed))
    return vals


def e_typed(typed, prefix):
    if typed['type'] == 'STRUCT':
        return [(prefix + '.structure_tag', typed['structure_tag']),
                (prefix + '.data.input', B(bytes.fromhex(typed['raw'])))]
    return [(prefix + '.data', norm(wire_py_values(typed)))]


def raw_ints(hexs):
    return list(bytes.fromhex(hexs))


# ------------------------------------------------------------------------------------------------
# mapping: Message Router / Connection Manager services

CTX = {'read_tag': 'read_tag', 'read_frag': 'read_frag', 'write_tag': 'write_tag', 'write_frag': 'write_frag',
       'get_attribute_single': 'get_attribute_single', 'set_attribute_single': 'set_attribute_single',
       'get_attributes_all': 'get_attributes_all', 'get_attribute_list': 'get_attribute_list',
       'multiple': 'multiple', 'forward_open': 'forward_open', 'forward_close': 'forward_close'}


def dialect_of(m):
    L = lib()
    return L['CM'] if m['svc'] in ('forward_open', 'forward_close') else L['Logix']


def d_conn(c, large, style):
    """Forward Open connection parameters the three ways callers give them."""
    base = {'connection_ID': c['connection_ID'], 'RPI': c['RPI']}
    fields = {k: c[k] for k in ('size', 'variable', 'priority', 'type', 'redundant')}
    if style == 'ncp':
        base['NCP'] = rf.enc_ncp(c, large)
    elif style == 'decoding':           # what client.forward_open passes: Connection(...).decoding
        base.update(fields, NCP=rf.enc_ncp(c, large), large=large)
    elif style == 'auto':               # individual fields only: produce() deduces Small/Large from the sizes of both directions
        base.update(fields)
    else:
        base.update(fields)
        if large:
            base['large'] = True
    return base


def d_mr(m, opts):
    svc, req = m['svc'], m['dir'] == 'req'
    code = rf.service_code(m)
    ctx = CTX[svc]
    d = {}
    if req:
        d['path'] = d_path(m['path'])
        if opts.get('svc_explicit') and svc != 'forward_open':
            d['service'] = code
    else:
        d['service'] = code | 0x80
        d.update(d_status(m))
    if svc in ('read_tag', 'read_frag'):
        if req:
            d[ctx] = {'elements': m['elements']}
            if svc == 'read_frag':
                d[ctx]['offset'] = m['offset']
        elif m['status'] in rf.READ_DATA_STATUS:
            d[ctx] = d_typed(m['data'])
    elif svc in ('write_tag', 'write_frag'):
        if req:
            d[ctx] = d_typed(m['data'])
            d[ctx]['elements'] = m['elements']
            if svc == 'write_frag':
                d[ctx]['offset'] = m['offset']
    elif svc in ('get_attribute_single', 'get_attributes_all'):
        if req:
            d[ctx] = True
        elif m['status'] == 0:
            d[ctx] = {'data': raw_ints(m['raw'])}
    elif svc == 'set_attribute_single':
        if req:
            d[ctx] = {'data': raw_ints(m['raw'])}
    elif svc == 'get_attribute_list':
        if req:
            d[ctx] = list(m['attributes'])
        elif m['status'] == 0:
            d[ctx] = {'data': list(rf.enc_mr(m)[4 + 2 * len(m.get('ext') or ()):])}
    elif svc == 'multiple':
        if req or m['status'] in rf.MULTI_DATA_STATUS:
            d[ctx] = {'request': [d_mr(x, opts) for x in m['members']]}
    elif svc == 'forward_open':
        large = bool(m.get('large'))
        if req:
            if opts.get('svc_explicit'):
                d['service'] = code
            style = opts.get('fo_style', 'fields')
            if style == 'auto' and large != any(m[k]['size'] > 0x1FF for k in ('O_T', 'T_O')):
                style = 'fields'        # the sizes alone would not say Large: say it explicitly
            d[ctx] = {'priority_time_tick': m['priority_time_tick'], 'timeout_ticks': m['timeout_ticks'],
                      'O_T': d_conn(m['O_T'], large, style), 'T_O': d_conn(m['T_O'], large, style),
                      'connection_serial': m['connection_serial'], 'O_vendor': m['O_vendor'],
                      'O_serial': m['O_serial'], 'connection_timeout_multiplier': m['connection_timeout_multiplier'],
                      'transport_class_triggers': m['transport_class_triggers'],
                      'connection_path': d_path(m['connection_path'])}
        elif m['status'] == 0:
            d[ctx] = {'O_T': {'connection_ID': m['O_T_connection_ID'], 'API': m['O_T_API']},
                      'T_O': {'connection_ID': m['T_O_connection_ID'], 'API': m['T_O_API']},
                      'connection_serial': m['connection_serial'], 'O_vendor': m['O_vendor'], 'O_serial': m['O_serial']}
            if m['application'] or opts.get('app_explicit'):
                d[ctx]['application'] = {'data': raw_ints(m['application'])}
        else:
            d[ctx] = {'connection_serial': m['connection_serial'], 'O_vendor': m['O_vendor'], 'O_serial': m['O_serial']}
            if m.get('remaining_path_size') is not None:
                d[ctx]['remaining_path_size'] = m['remaining_path_size']
    elif svc == 'forward_close':
        if req:
            d[ctx] = {'priority_time_tick': m['priority_time_tick'], 'timeout_ticks': m['timeout_ticks'],
                      'connection_serial': m['connection_serial'], 'O_vendor': m['O_vendor'], 'O_serial': m['O_serial'],
                      'connection_path': d_path(m['connection_path'])}
        elif m.get('body') is not None:
            b = m['body']
            d[ctx] = {'connection_serial': b['connection_serial'], 'O_vendor': b['O_vendor'], 'O_serial': b['O_serial']}
            if b['application'] or opts.get('app_explicit'):
                d[ctx]['application'] = {'data': raw_ints(b['application'])}
    return d


def e_conn(c, large, prefix):
    out = [(prefix + '.' + k, c[k]) for k in ('connection_ID', 'RPI', 'size', 'variable', 'priority', 'type', 'redundant')]
    out.append((prefix + '.NCP', rf.enc_ncp(c, large)))
    out.append((prefix + '.large', {'bool': large}))
    return out


def e_mr(m, prefix=''):
    svc, req = m['svc'], m['dir'] == 'req'
    code = rf.service_code(m)
    ctx = prefix + CTX[svc]
    out = []
    if req:
        out.append((prefix + 'service', code))
        out += e_path(m['path'], prefix + 'path')
    else:
        out.append((prefix + 'service', code | 0x80))
        out += e_status(m, prefix)
    T = {'bool': True}
    if svc in ('read_tag', 'read_frag'):
        if req:
            out.append((ctx + '.elements', m['elements']))
            if svc == 'read_frag':
                out.append((ctx + '.offset', m['offset']))
        elif m['status'] in rf.READ_DATA_STATUS:
            out.append((ctx + '.type', rf.tcode(m['data']['type'])))
            out += e_typed(m['data'], ctx)
        else:
            out.append((ctx, T))
    elif svc in ('write_tag', 'write_frag'):
        if req:
            out.append((ctx + '.type', rf.tcode(m['data']['type'])))
            out.append((ctx + '.elements', m['elements']))
            if svc == 'write_frag':
                out.append((ctx + '.offset', m['offset']))
            out += e_typed(m['data'], ctx)
        else:
            out.append((ctx, T))
    elif svc in ('get_attribute_single', 'get_attributes_all'):
        if req:
            out.append((ctx, T))
        elif m['status'] == 0:
            out.append((ctx + '.data', raw_ints(m['raw'])))
    elif svc == 'set_attribute_single':
        out.append((ctx + '.data', raw_ints(m['raw'])) if req else (ctx, T))
    elif svc == 'get_attribute_list':
        if req:
            out.append((ctx, list(m['attributes'])))
        elif m['status'] == 0:
            # the reply data as the octets they are (as in the sibling Get Attribute Single/All replies and as
            # the producer consumes them)
            out.append((ctx + '.data', list(rf.enc_mr(m)[4 + 2 * len(m.get('ext') or ()):])))
    elif svc == 'multiple':
        if req or m['status'] in rf.MULTI_DATA_STATUS:
            parts = [rf.enc_mr(x) for x in m['members']]
            n = len(parts)
            offs, off = [], 2 + 2 * n
            for p in parts:
                offs.append(off)
                off += len(p)
            out.append((ctx + '.number', n))
            out.append((ctx + '.offsets', offs))
            for i, x in enumerate(m['members']):
                out += e_mr(x, '%s.request[%d].' % (ctx, i))
    elif svc == 'forward_open':
        large = bool(m.get('large'))
        if req:
            for k in ('priority_time_tick', 'timeout_ticks', 'connection_serial', 'O_vendor', 'O_serial',
                      'connection_timeout_multiplier', 'transport_class_triggers'):
                out.append((ctx + '.' + k, m[k]))
            out += e_conn(m['O_T'], large, ctx + '.O_T') + e_conn(m['T_O'], large, ctx + '.T_O')
            out += e_path(m['connection_path'], ctx + '.connection_path')
        elif m['status'] == 0:
            out += [(ctx + '.O_T.connection_ID', m['O_T_connection_ID']), (ctx + '.T_O.connection_ID', m['T_O_connection_ID']),
                    (ctx + '.O_T.API', m['O_T_API']), (ctx + '.T_O.API', m['T_O_API']),
                    (ctx + '.connection_serial', m['connection_serial']), (ctx + '.O_vendor', m['O_vendor']),
                    (ctx + '.O_serial', m['O_serial']), (ctx + '.application.size', len(m['application']) // 4),
                    (ctx + '.application.data', raw_ints(m['application']))]
        else:
            out += [(ctx + '.connection_serial', m['connection_serial']), (ctx + '.O_vendor', m['O_vendor']),
                    (ctx + '.O_serial', m['O_serial'])]
            if m.get('remaining_path_size') is not None:
                out.append((ctx + '.remaining_path_size', m['remaining_path_size']))
    elif svc == 'forward_close':
        if req:
            for k in ('priority_time_tick', 'timeout_ticks', 'connection_serial', 'O_vendor', 'O_serial'):
                out.append((ctx + '.' + k, m[k]))
            out += e_path(m['connection_path'], ctx + '.connection_path')
        elif m.get('body') is None:
            out.append((ctx, T))
        else:
            b = m['body']
            out += [(ctx + '.connection_serial', b['connection_serial']), (ctx + '.O_vendor', b['O_vendor']),
                    (ctx + '.O_serial', b['O_serial']), (ctx + '.application.size', len(b['application']) // 4),
                    (ctx + '.application.data', raw_ints(b['application']))]
    return out
