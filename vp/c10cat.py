"""
Catalogue of parser-machine factories for C10, with an independent, struct-based encoder.

Nothing here calls a cpppo ``produce``: every encoding ``E`` is built from the layout tables in the
docstrings of parser.py / device.py / logix.py with ``struct`` only, and every expected value is
computed from the generated parameters, never from cpppo.

An Entry describes one machine class:

  params(draw) -> p        JSON-able parameters (a Hypothesis draw function is passed in)
  encode(p)    -> Enc      the valid encoding E of p, expected parsed values, declared bounds
  make(p, **kw)-> machine  a *fresh* cpppo machine; kw carries terminal=True and optionally limit=
  selfdelim                True: the grammar knows where E ends (an un-limited run over E+T stops at
                           len(E)); False ("greedy"): the machine takes input until a limit or the
                           end of input, so E is only delimited by a limit of exactly len(E)
  forms                    which limit forms make sense for it
"""
from __future__ import annotations

import struct

from hypothesis import strategies as st


def mods():
    import cpppo
    from cpppo import automata as A
    from cpppo.server.enip import parser as P
    return cpppo, A, P


ALL_FORMS = ('int', 'path', 'call', 'callpath', 'prefix', 'pathmissing')


class Enc(object):
    """E: the encoding; expect: {relative dotted key: value | ('len', n)}; valid: E is a complete valid
    sentence (false when a generated length field disagrees with its content on purpose);
    ibound: offset in E+T (relative to the start of E) that a *successful* parse may not pass because
    of a length field inside E; k/results: repeat count and a function counting the sub-grammar's
    results in the (plain, relative) parsed data; predata: values the caller must have put in the
    data artifact (relative keys)."""

    def __init__(self, E, expect=None, valid=True, ibound=None, k=None, results=None, predata=None,
                 unit=None, classes=(), zero=False, kkey=None, greedy=False, soft_ibound=None, whole=False):
        self.E = bytes(E)
        self.expect = expect or {}
        self.valid = valid
        self.ibound = ibound
        self.k = k
        self.results = results
        self.predata = predata or {}
        self.unit = unit            # element size, to classify "limit cuts an element in half"
        self.classes = list(classes)
        self.kkey = kkey            # relative key of the count as parsed from E (then k only holds when that field was read)
        self.greedy = greedy        # this particular encoding is only delimited by a limit (overrides Entry.selfdelim)
        self.soft_ibound = soft_ibound  # a declared end that cpppo does not hand to the sub-parser as a limit (observation only)
        self.whole = whole          # this encoding must be presented completely buffered (see Entry.whole)
        self.zero = zero            # a repeat count of 0: whether the machine then counts as terminal is not stated


class Entry(object):
    def __init__(self, name, group, params, encode, make, selfdelim=True, forms=ALL_FORMS, runpath=None,
                 text=False, tail=None, field=None, places=('own', 'outer'), whole=False, outer_ctx='o'):
        self.name = name
        self.group = group
        self.params = params
        self.encode = encode
        self.make = make
        self.selfdelim = selfdelim
        self.forms = tuple(forms)
        self.runpath = runpath      # fixed run path (else generated)
        self.text = text            # symbols are 1-char str instead of ints
        self.tail = tail            # optional strategy factory for the tail (p -> strategy of bytes)
        self.field = field          # absolute data key that carries the intrinsic limit ('field' form)
        self.places = places
        self.outer_ctx = outer_ctx  # context of the enclosing dfa used for the 'outer' placement
        self.whole = whole          # the real caller always presents this machine a completely buffered input


CATALOG = {}


def dig(d, key, default=None):
    for part in key.split('.'):
        if isinstance(d, dict) and part in d:
            d = d[part]
        else:
            return default
    return d


def add(entry):
    assert entry.name not in CATALOG, entry.name
    CATALOG[entry.name] = entry
    return entry


def hx(b):
    return bytes(b).hex()


def unhx(s):
    return bytes.fromhex(s)


# ------------------------------------------------------------------------------------------------
# small strategy helpers (all take the Hypothesis draw function)

def d_bytes(draw, lo=0, hi=12):
    return hx(draw(st.binary(min_size=lo, max_size=hi)))


def d_int(draw, lo, hi):
    return draw(st.integers(lo, hi))


def d_pick(draw, seq):
    return draw(st.sampled_from(list(seq)))


REPEATS = (0, 1, 2, 3, 7)


def d_repeat(draw):
    return draw(st.one_of(st.sampled_from(REPEATS), st.integers(0, 9)))


# ------------------------------------------------------------------------------------------------
# Tier 1: framework primitives

def _rep_kw(p):
    """repeat given as int or as a data path ('..k' relative to the machine's own context); 'missing': a path that
    does not exist, which dfa_base.delegate documents as 0 cycles."""
    return '..k' if p.get('rf') in ('path', 'missing') else p['k']


def _rep_predata(p):
    return {'k': p['k']} if p.get('rf') == 'path' else {}


def d_rep_form(draw, k, choices):
    return d_pick(draw, list(choices) + (['missing'] if k == 0 else []))


def _p_octets(draw):
    k = d_repeat(draw)
    return {'k': k, 'rf': d_rep_form(draw, k, ['int', 'int', 'path']), 'b': d_bytes(draw, k, k)}


def _e_octets(p):
    b = unhx(p['b'])
    return Enc(b, expect={'x.input': ['array', 'B', list(b)]} if p['k'] else {}, k=p['k'], unit=1,
               results=lambda d: len((d.get('x', {}).get('input') or [0, 0, []])[2]) if isinstance(d.get('x'), dict) else 0,
               predata=_rep_predata(p), zero=(p['k'] == 0))


def _m_octets(p, **kw):
    _, A, P = mods()
    return P.octets('oct', context='x', repeat=_rep_kw(p), **kw)


add(Entry('prim:octets', 'primitive', _p_octets, _e_octets, _m_octets))


def _e_octets_drop(p):
    b = unhx(p['b'])
    return Enc(b, k=p['k'], unit=1, results=None, predata=_rep_predata(p), zero=(p['k'] == 0))


def _m_octets_drop(p, **kw):
    _, A, P = mods()
    return P.octets_drop('drp', context='x', repeat=_rep_kw(p), **kw)


add(Entry('prim:octets_drop', 'primitive', _p_octets, _e_octets_drop, _m_octets_drop))


def _p_words(draw):
    k = d_repeat(draw)
    return {'k': k, 'rf': d_pick(draw, ['int', 'int', 'path']), 'b': d_bytes(draw, 2 * k, 2 * k)}


def _e_words(p):
    b = unhx(p['b'])
    return Enc(b, expect={'x.input': ['array', 'B', list(b)]} if p['k'] else {}, k=p['k'], unit=2,
               results=lambda d: len((d.get('x', {}).get('input') or [0, 0, []])[2]) // 2 if isinstance(d.get('x'), dict) else 0,
               predata=_rep_predata(p), zero=(p['k'] == 0))


def _m_words(p, **kw):
    _, A, P = mods()
    return P.words('wrd', context='x', repeat=_rep_kw(p), **kw)


add(Entry('prim:words', 'primitive', _p_words, _e_words, _m_words))

STRUCT_FORMATS = ('B', 'b', '<H', '>H', '<h', '<I', '>i', '<Q', '<q', '<f', '>f', '<d')


def _p_ostruct(draw):
    fmt = d_pick(draw, STRUCT_FORMATS)
    n = struct.calcsize(fmt)
    return {'fmt': fmt, 'b': d_bytes(draw, n, n)}


def _e_ostruct(p):
    b = unhx(p['b'])
    return Enc(b, expect={'x': struct.unpack(p['fmt'], b)[0]}, unit=len(b), k=len(b))


def _m_ostruct(p, **kw):
    _, A, P = mods()
    return P.octets_struct('ost', context='x', format=str(p['fmt']), **kw)


add(Entry('prim:octets_struct', 'primitive', _p_ostruct, _e_ostruct, _m_ostruct))


def _p_replist(draw):
    k = d_repeat(draw)
    return {'k': k, 'rf': d_rep_form(draw, k, ['int', 'path', 'path']),
            'v': [d_int(draw, 0, 0xFFFF) for _ in range(k)]}


def _e_replist(p):
    b = b''.join(struct.pack('<H', v) for v in p['v'])
    return Enc(b, expect={'rep.list': p['v']} if p['k'] else {}, k=p['k'], unit=2,
               results=lambda d: len(d.get('rep', {}).get('list', [])) if isinstance(d.get('rep'), dict) else 0,
               predata=_rep_predata(p), zero=(p['k'] == 0))


def _m_replist(p, **kw):
    """dfa(repeat=k | '..k') around a sub-grammar "one UINT, moved onto a list" (the construction that
    parser.status and device.__get_attribute_list use)."""
    _, A, P = mods()
    el = P.UINT('el', context='el')
    el[None] = P.move_if('mv', source='.el', destination='.list', initializer=lambda **kwds: [])
    el[None] = A.state('done', terminal=True)
    return A.dfa('rep', context='rep', initial=el, repeat=_rep_kw(p), **kw)


add(Entry('prim:dfa_repeat_list', 'primitive', _p_replist, _e_replist, _m_replist))


def _p_nest(draw):
    k = d_pick(draw, (0, 1, 2, 3))
    j = d_pick(draw, (1, 2, 3))
    return {'k': k, 'j': j, 'rf': d_pick(draw, ['int', 'path']), 'b': d_bytes(draw, k * j, k * j)}


def _e_nest(p):
    b = unhx(p['b'])
    return Enc(b, expect={'n.blk.input': ['array', 'B', list(b)]} if p['k'] else {}, k=p['k'], unit=p['j'],
               results=lambda d: (len(d['n']['blk']['input'][2]) // p['j']) if isinstance(d.get('n'), dict) and 'blk' in d['n'] else 0,
               predata=_rep_predata(p), zero=(p['k'] == 0))


def _m_nest(p, **kw):
    _, A, P = mods()
    return A.dfa('nest', context='n', initial=P.octets('blk', context='blk', repeat=p['j'], terminal=True),
                 repeat=_rep_kw(p), **kw)


add(Entry('prim:dfa_repeat_nested', 'primitive', _p_nest, _e_nest, _m_nest))

# regular-expression machines.  (Whether a regex machine accepts exactly its language is C11; here
# only limit / accounting behaviour over a few fixed expressions.)


def _p_abc(draw):
    return {'n': d_int(draw, 0, 8)}


def _e_abc(p):
    s = b'a' + b'b' * p['n'] + b'c'
    return Enc(s, expect={'r.input': ['array', 'B', list(s)]}, unit=1)


def _m_abc(p, **kw):
    _, A, P = mods()
    return A.regex_bytes(name='abc', initial='ab*c', context='r', **kw)


add(Entry('prim:regex_bytes(ab*c)', 'regex', _p_abc, _e_abc, _m_abc))


def _p_evenb(draw):
    return {'n': d_int(draw, 0, 5)}


def _e_evenb(p):
    s = b'a' + b'bb' * p['n']
    return Enc(s, unit=2)


def _t_b(p):
    return st.builds(lambda n, rest: b'b' * n + rest, st.integers(0, 4), st.binary(max_size=3))


def _m_evenb(p, **kw):
    _, A, P = mods()
    return A.regex_bytes(name='evenb', initial='a(bb)*', context='r', **kw)


add(Entry('prim:regex_bytes(a(bb)*)', 'regex', _p_evenb, _e_evenb, _m_evenb, selfdelim=False, tail=_t_b))


def _e_evenb_text(p):
    return Enc(b'a' + b'bb' * p['n'], unit=2)


def _m_evenb_text(p, **kw):
    _, A, P = mods()
    return A.regex(name='evenb', initial=str('a(bb)*'), context='r', **kw)


add(Entry('prim:regex(a(bb)*) over str', 'regex', _p_evenb, _e_evenb_text, _m_evenb_text, selfdelim=False,
          text=True, tail=_t_b, forms=('int', 'path', 'call', 'callpath')))


def _p_reppair(draw):
    k = d_repeat(draw)
    return {'k': k, 'rf': d_rep_form(draw, k, ['int', 'path', 'path']),
            'bad': d_pick(draw, (None, None, 0, 0, 1)) if k >= 2 else None}


def _e_reppair(p):
    """k repetitions of the two-symbol sentence 'ab'.  bad = i (< k-1): the 'b' of element i is missing, so that cycle i ends in a
    non-accepting sub-state and what follows is again a run of valid elements: the machine must not complete."""
    els = [b'ab'] * p['k']
    bad = p.get('bad')
    valid = True
    if bad is not None and bad < p['k'] - 1:
        els[bad] = b'a'
        valid = False

    def pairs(d):
        arr = dig(d, 'rep.pair.input', None)
        if arr is None:
            return 0
        if isinstance(arr, (list, tuple)) and len(arr) == 3 and arr[0] == 'array':
            arr = arr[2]
        txt = arr if isinstance(arr, str) else ''.join(x if isinstance(x, str) else chr(x) for x in arr)
        return txt.count('ab')
    return Enc(b''.join(els), valid=valid, k=p['k'], unit=2, results=pairs, predata=_rep_predata(p), zero=(p['k'] == 0),
               classes=['reppair:' + ('valid' if valid else 'intermediate-element-incomplete')])


def _m_reppair(p, **kw):
    """dfa(repeat=k | '..k') around a sub-grammar whose sentence is exactly the two symbols 'a' 'b' (a symbol-restricted,
    multi-state sub-grammar: a cycle can end in a non-accepting state)"""
    cpppo, A, P = mods()
    sa = A.state_input('A', context='pair')
    sb = A.state_input('B', context='pair', terminal=True)
    e = A.state('E')
    e['a'] = sa
    sa['b'] = sb
    return A.dfa('rep', context='rep', initial=e, repeat=_rep_kw(p), **kw)


add(Entry('prim:dfa_repeat_pair', 'primitive', _p_reppair, _e_reppair, _m_reppair, text=True, tail=_t_b,
          forms=('int', 'path', 'call', 'callpath')))




def _p_anystr(draw):
    return {'b': d_bytes(draw, 1, 10)}     # '.*' machines do not accept the empty sentence (C11's matter)


def _e_anystr(p):
    b = unhx(p['b'])
    return Enc(b, expect={'s': b.decode('iso-8859-1')}, unit=1)


def _m_anystr(p, **kw):
    _, A, P = mods()
    return A.string_bytes('any', initial='.*', context='s', decode='iso-8859-1', **kw)


add(Entry('prim:string_bytes(.*)', 'regex', _p_anystr, _e_anystr, _m_anystr, selfdelim=False))


def _p_digits(draw):
    return {'v': d_int(draw, 0, 10 ** d_int(draw, 1, 9))}


def _e_digits(p):
    s = str(p['v']).encode()
    return Enc(s, expect={'i': p['v']}, unit=1)


def _t_digits(p):
    return st.one_of(st.binary(max_size=6),
                     st.builds(lambda n, rest: str(n).encode() + rest, st.integers(0, 9999), st.binary(max_size=3)))


def _m_digits(p, **kw):
    _, A, P = mods()
    return A.integer_bytes('int', context='i', **kw)


add(Entry('prim:integer_bytes', 'regex', _p_digits, _e_digits, _m_digits, selfdelim=False, tail=_t_digits))

# ------------------------------------------------------------------------------------------------
# Tier 2: EtherNet/IP machines (parser.py)

SCALARS = {
    # name: (struct format, post-processing)
    'BOOL': ('B', 'bool'), 'USINT': ('B', None), 'SINT': ('b', None), 'UINT': ('<H', None), 'INT': ('<h', None),
    'WORD': ('<H', None), 'UDINT': ('<I', None), 'DWORD': ('<I', None), 'DINT': ('<i', None),
    'ULINT': ('<Q', None), 'LINT': ('<q', None), 'REAL': ('<f', None), 'LREAL': ('<d', None),
    'UINT_network': ('>H', None), 'INT_network': ('>h', None), 'UDINT_network': ('>I', None),
    'DINT_network': ('>i', None), 'REAL_network': ('>f', None),
    'IPADDR': ('<I', 'ip'), 'IPADDR_network': ('>I', 'ip'),
}


def dotted(v):
    return '.'.join(str((v >> s) & 0xFF) for s in (24, 16, 8, 0))


def scalar_value(name, raw):
    fmt, post = SCALARS[name]
    v = struct.unpack(fmt, raw)[0]
    if post == 'bool':
        v = bool(v)
    elif post == 'ip':
        v = dotted(v)
    return v


def _scalar_entry(name):
    fmt, post = SCALARS[name]
    n = struct.calcsize(fmt)

    def params(draw):
        return {'b': d_bytes(draw, n, n)}

    def encode(p):
        raw = unhx(p['b'])
        return Enc(raw, expect={name: scalar_value(name, raw)}, unit=n, k=n)

    def make(p, **kw):
        _, A, P = mods()
        return getattr(P, name)(**kw)

    add(Entry('TYPE:' + name, 'scalar', params, encode, make))


for _n in SCALARS:
    _scalar_entry(_n)


def enc_sstring(s):
    assert len(s) < 256
    return struct.pack('B', len(s)) + s


def enc_string(s):
    return struct.pack('<H', len(s)) + s + (b'\x00' if len(s) % 2 else b'')


def _p_str(draw):
    return {'s': d_bytes(draw, 0, 9)}


def _e_sstring(p):
    s = unhx(p['s'])
    return Enc(enc_sstring(s), expect={'SSTRING.length': len(s), 'SSTRING.string': s.decode('iso-8859-1')}, unit=max(1, len(s)))


def _m_sstring(p, **kw):
    _, A, P = mods()
    return P.SSTRING(**kw)


add(Entry('SSTRING', 'string', _p_str, _e_sstring, _m_sstring))


def _e_string(p):
    s = unhx(p['s'])
    return Enc(enc_string(s), expect={'STRING.length': len(s), 'STRING.string': s.decode('iso-8859-1')}, unit=max(1, len(s)))


def _m_string(p, **kw):
    _, A, P = mods()
    return P.STRING(**kw)


add(Entry('STRING', 'string', _p_str, _e_string, _m_string))


def _p_iface(draw):
    return {'a': [d_bytes(draw, 4, 4) for _ in range(5)], 's': d_bytes(draw, 0, 7)}


def _e_iface(p):
    s = unhx(p['s'])
    E = b''.join(unhx(a) for a in p['a']) + enc_string(s)
    names = ['ip_address', 'network_mask', 'gateway_address', 'dns_primary', 'dns_secondary']
    exp = {'IFACEADDRS.' + n: scalar_value('IPADDR', unhx(a)) for n, a in zip(names, p['a'])}
    exp['IFACEADDRS.domain_name'] = s.decode('iso-8859-1')
    return Enc(E, expect=exp, unit=4)


def _m_iface(p, **kw):
    _, A, P = mods()
    return P.IFACEADDRS(**kw)


add(Entry('IFACEADDRS', 'string', _p_iface, _e_iface, _m_iface))


def _p_struct(draw):
    return {'tag': d_int(draw, 0, 0xFFFF), 'b': d_bytes(draw, 0, 8)}


def _e_struct(p):
    b = unhx(p['b'])
    exp = {'STRUCT.structure_tag': p['tag']}
    if b:
        exp['STRUCT.data.input'] = ['array', 'B', list(b)]
    return Enc(struct.pack('<H', p['tag']) + b, expect=exp, unit=1)


def _m_struct(p, **kw):
    _, A, P = mods()
    return P.STRUCT(**kw)


add(Entry('STRUCT', 'typed', _p_struct, _e_struct, _m_struct, selfdelim=False))

# -- EPATH family


def d_segment(draw, kinds=None):
    kind = d_pick(draw, kinds or ['class', 'instance', 'connection', 'attribute', 'element', 'symbolic', 'port', 'portaddr'])
    if kind in ('class', 'instance', 'connection', 'attribute'):
        w = d_pick(draw, (8, 16))
        return {'t': kind, 'w': w, 'v': d_int(draw, 0, 0xFF if w == 8 else 0xFFFF)}
    if kind == 'element':
        w = d_pick(draw, (8, 16, 32))
        return {'t': kind, 'w': w, 'v': d_int(draw, 0, (1 << w) - 1)}
    if kind == 'symbolic':
        return {'t': kind, 's': d_bytes(draw, 1, 7)}       # empty names excluded: '.*' machines reject the empty sentence
    if kind == 'port':
        ext = d_pick(draw, (False, False, True))
        return {'t': kind, 'port': d_int(draw, 0, 0xFFFF) if ext else d_int(draw, 1, 14), 'ext': ext, 'link': d_int(draw, 0, 255)}
    ext = d_pick(draw, (False, False, True))
    return {'t': 'portaddr', 'port': d_int(draw, 0, 0xFFFF) if ext else d_int(draw, 1, 14), 'ext': ext, 's': d_bytes(draw, 1, 7)}


SEGTYPE = {'class': 0x20, 'instance': 0x24, 'connection': 0x2C, 'attribute': 0x30, 'element': 0x28}


def enc_segment(seg):
    t = seg['t']
    if t in SEGTYPE:
        base = SEGTYPE[t]
        if seg['w'] == 8:
            return struct.pack('BB', base, seg['v'])
        if seg['w'] == 16:
            return struct.pack('<BBH', base + 1, 0, seg['v'])
        return struct.pack('<BBI', base + 2, 0, seg['v'])
    if t == 'symbolic':
        s = unhx(seg['s'])
        return struct.pack('BB', 0x91, len(s)) + s + (b'\x00' if len(s) % 2 else b'')
    if t == 'port':
        if seg['ext']:
            return struct.pack('<BHB', 0x0F, seg['port'], seg['link'])
        return struct.pack('BB', seg['port'], seg['link'])
    s = unhx(seg['s'])
    pad = b'\x00' if len(s) % 2 else b''
    if seg['ext']:
        return struct.pack('<BBH', 0x1F, len(s), seg['port']) + s + pad
    return struct.pack('BB', 0x10 | seg['port'], len(s)) + s + pad


def seg_expect(seg):
    """The value cpppo documents for a parsed segment (checked only for the simple numeric kinds)."""
    t = seg['t']
    if t in SEGTYPE:
        return {t: seg['v']}
    return None


def enc_epath(segs, padded=False, size_delta=0):
    body = b''.join(enc_segment(s) for s in segs)
    assert len(body) % 2 == 0
    words = min(255, max(0, len(body) // 2 + size_delta))
    return struct.pack('B', words) + (b'\x00' if padded else b'') + body, words


def _p_epath(draw):
    n = d_pick(draw, (0, 1, 1, 2, 3, 4))
    return {'segs': [d_segment(draw) for _ in range(n)], 'sd': d_pick(draw, (0, 0, 0, 0, -1, -2, 1, 2))}


def _epath_entry(clsname, padded):
    def encode(p):
        E, words = enc_epath(p['segs'], padded=padded, size_delta=p['sd'])
        hdr = 2 if padded else 1
        natural = (len(E) - hdr) // 2
        valid = words == natural
        exp = {}
        if valid:
            exp[clsname + '.size'] = words
            exp[clsname + '.segment'] = ('len', len(p['segs']))
            for i, s in enumerate(p['segs']):
                se = seg_expect(s)
                if se is not None:
                    exp['%s.segment#%d' % (clsname, i)] = ('sub', se)
        return Enc(E, expect=exp, valid=valid, ibound=hdr + 2 * words, unit=2,
                   classes=['epath:size_field=%s' % ('exact' if valid else 'short' if words < natural else 'long')])

    def make(p, **kw):
        _, A, P = mods()
        return getattr(P, clsname)(**kw)

    add(Entry(clsname, 'epath', _p_epath, encode, make))


_epath_entry('EPATH', False)
_epath_entry('EPATH_padded', True)
_epath_entry('route_path', True)


def _p_epath_single(draw):
    return {'seg': d_segment(draw)}


def _e_epath_single(p):
    E = enc_segment(p['seg'])
    exp = {'EPATH_single.segment': ('len', 1)}
    return Enc(E, expect=exp, unit=2)


def _m_epath_single(p, **kw):
    _, A, P = mods()
    return P.EPATH_single(**kw)


add(Entry('EPATH_single', 'epath', _p_epath_single, _e_epath_single, _m_epath_single))

# -- status


def d_status(draw):
    n = d_pick(draw, (0, 0, 1, 2, 3))
    return {'code': d_int(draw, 0, 255), 'ext': [d_int(draw, 0, 0xFFFF) for _ in range(n)]}


def enc_status(s):
    return struct.pack('BB', s['code'], len(s['ext'])) + b''.join(struct.pack('<H', v) for v in s['ext'])


def _e_status(p):
    exp = {'status': p['code'], 'status_ext.size': len(p['ext'])}
    if p['ext']:
        exp['status_ext.data'] = p['ext']
    return Enc(enc_status(p), expect=exp, unit=2, k=len(p['ext']), kkey='status_ext.size',
               results=lambda d: len(d.get('status_ext', {}).get('data', [])) if isinstance(d.get('status_ext'), dict) else 0)


def _m_status(p, **kw):
    _, A, P = mods()
    return P.status(**kw)


add(Entry('status', 'status', d_status, _e_status, _m_status))

# -- typed_data for each of the 14 element types

TYPED = {
    # tag_type: (name, struct format or None)
    0x00C1: ('BOOL', 'B'), 0x00C2: ('SINT', 'b'), 0x00C6: ('USINT', 'B'), 0x00C3: ('INT', '<h'), 0x00C7: ('UINT', '<H'),
    0x00C4: ('DINT', '<i'), 0x00C8: ('UDINT', '<I'), 0x00C5: ('LINT', '<q'), 0x00C9: ('ULINT', '<Q'),
    0x00CA: ('REAL', '<f'), 0x00CB: ('LREAL', '<d'), 0x00DA: ('SSTRING', None), 0x00D0: ('STRING', None),
    0x02A0: ('STRUCT', None),
}


def d_typed_payload(draw, tag, maxn=4):
    """-> JSON-able description of the elements."""
    name, fmt = TYPED[tag]
    n = d_int(draw, 0, maxn)
    if fmt is not None:
        size = struct.calcsize(fmt)
        return {'tag': tag, 'el': [d_bytes(draw, size, size) for _ in range(n)]}
    if name in ('SSTRING', 'STRING'):
        return {'tag': tag, 'el': [d_bytes(draw, 0, 5) for _ in range(n)]}
    # at least one payload byte: typed_data's STRUCT branch raises on "structure_tag followed by no data"
    # (move_if 'mov_struct' finds no .STRUCT.data) -- a codec matter (C01), not a limit matter
    return {'tag': tag, 'stag': d_int(draw, 0, 0xFFFF), 'raw': d_bytes(draw, 1, 8)}


def enc_typed_payload(t):
    name, fmt = TYPED[t['tag']]
    if fmt is not None:
        return b''.join(unhx(e) for e in t['el'])
    if name == 'SSTRING':
        return b''.join(enc_sstring(unhx(e)) for e in t['el'])
    if name == 'STRING':
        return b''.join(enc_string(unhx(e)) for e in t['el'])
    return struct.pack('<H', t['stag']) + unhx(t['raw'])


def typed_values(t):
    name, fmt = TYPED[t['tag']]
    if fmt is not None:
        vals = [struct.unpack(fmt, unhx(e))[0] for e in t['el']]
        return [bool(v) for v in vals] if name == 'BOOL' else vals
    if name in ('SSTRING', 'STRING'):
        return [unhx(e).decode('iso-8859-1') for e in t['el']]
    return None


def typed_unit(t):
    name, fmt = TYPED[t['tag']]
    return struct.calcsize(fmt) if fmt else 2


def _typed_entry(tag):
    name, fmt = TYPED[tag]

    def params(draw):
        p = d_typed_payload(draw, tag)
        p['ttf'] = d_pick(draw, ('int', 'int', 'path'))
        return p

    def encode(p):
        E = enc_typed_payload(p)
        exp = {}
        vals = typed_values(p)
        if vals:                       # no elements: .data is documented as not initialised
            exp['typed_data.data'] = vals
        if name == 'STRUCT':
            exp['typed_data.structure_tag'] = p['stag']
        pre = {'typed_data.type': tag} if p['ttf'] == 'path' else {}
        return Enc(E, expect=exp, unit=typed_unit(p), predata=pre,
                   results=(lambda d: len(d.get('typed_data', {}).get('data', [])) if isinstance(d.get('typed_data'), dict) else 0) if name != 'STRUCT' else None)

    def tail(p):
        # tails that continue the element stream, so that limits past len(E) still cut elements
        if fmt is not None:
            return st.binary(max_size=2 * struct.calcsize(fmt) + 1)
        return st.binary(max_size=8)

    def make(p, **kw):
        _, A, P = mods()
        return P.typed_data(tag_type='.type' if p['ttf'] == 'path' else tag, **kw)

    add(Entry('typed_data:' + name, 'typed', params, encode, make, selfdelim=False, tail=tail))


for _t in TYPED:
    _typed_entry(_t)

# -- encapsulation: header, whole frame, command bodies


def d_header(draw):
    return {'cmd': d_pick(draw, (0x0001, 0x0004, 0x0063, 0x0064, 0x0065, 0x0066, 0x006F, 0x0070, 0x1234)),
            'sess': d_int(draw, 0, 0xFFFFFFFF), 'stat': d_int(draw, 0, 0xFFFFFFFF), 'ctx': d_bytes(draw, 8, 8),
            'opt': d_int(draw, 0, 0xFFFFFFFF)}


def enc_header(h, length):
    return struct.pack('<HHII', h['cmd'], length, h['sess'], h['stat']) + unhx(h['ctx']) + struct.pack('<I', h['opt'])


def _p_enip_header(draw):
    return {'h': d_header(draw), 'len': d_int(draw, 0, 0xFFFF)}


def _e_enip_header(p):
    h = p['h']
    return Enc(enc_header(h, p['len']),
               expect={'header.command': h['cmd'], 'header.length': p['len'], 'header.session_handle': h['sess'],
                       'header.status': h['stat'], 'header.options': h['opt'],
                       'header.sender_context.input': ['array', 'B', list(unhx(h['ctx']))]}, unit=4)


def _m_enip_header(p, **kw):
    _, A, P = mods()
    return P.enip_header(**kw)


add(Entry('enip_header', 'encapsulation', _p_enip_header, _e_enip_header, _m_enip_header))


def _p_enip_machine(draw):
    p = {'h': d_header(draw), 'pay': d_bytes(draw, 0, 10), 'ld': d_pick(draw, (0, 0, 0, 0, -1, -2, 1, 3))}
    if d_pick(draw, (0,) * 11 + (1,)):
        # a payload whose length needs the upper half of the 16-bit length field (repeat count >= 0x8000)
        p['big'] = d_pick(draw, (32767, 32768, 32769, 40000, 65000))      # (frame + tail must fit the 16-bit 'prefix' limit form)
        p['ld'] = 0
    return p


def _e_enip_machine(p):
    pay = unhx(p['pay'])
    if p.get('big'):
        pay = bytes((i * 7 + 3) & 0xFF for i in range(p['big']))
    length = max(0, len(pay) + p['ld'])
    E = enc_header(p['h'], length) + pay
    valid = length == len(pay)
    exp = {}
    if valid:
        exp = {'enip.command': p['h']['cmd'], 'enip.length': length, 'enip.session_handle': p['h']['sess']}
        if pay:
            exp['enip.input'] = ['array', 'B', list(pay)]
    return Enc(E, expect=exp, valid=valid, ibound=24 + length, unit=1, k=length, kkey='enip.length',
               results=lambda d: len((d.get('enip', {}).get('input') or [0, 0, []])[2]) if isinstance(d.get('enip'), dict) else 0,
               classes=['enip:length_field=%s' % ('exact' if valid else 'short' if length < len(pay) else 'long')])


def _m_enip_machine(p, **kw):
    _, A, P = mods()
    return P.enip_machine(**kw)


add(Entry('enip_machine', 'encapsulation', _p_enip_machine, _e_enip_machine, _m_enip_machine))


def _p_register(draw):
    return {'pv': d_int(draw, 0, 0xFFFF), 'opt': d_int(draw, 0, 0xFFFF)}


def enc_register(p):
    return struct.pack('<HH', p['pv'], p['opt'])


def _e_register(p):
    return Enc(enc_register(p), expect={'register.protocol_version': p['pv'], 'register.options': p['opt']}, unit=2)


def _m_register(p, **kw):
    _, A, P = mods()
    return P.register(**kw)


add(Entry('register', 'command', _p_register, _e_register, _m_register))

# -- CPF item bodies


def d_usend(draw):
    """An Unconnected Send (0x52) request: service, path, priority, ticks, length, message [, pad], route path."""
    return {'path': [d_segment(draw, ['class', 'instance', 'attribute', 'symbolic']) for _ in range(d_int(draw, 0, 2))],
            'prio': d_int(draw, 0, 255), 'ticks': d_int(draw, 0, 255), 'msg': d_bytes(draw, 0, 9),
            'route': [d_segment(draw, ['port', 'portaddr']) for _ in range(d_int(draw, 0, 2))]}


def enc_usend(u):
    msg = unhx(u['msg'])
    return (b'\x52' + enc_epath(u['path'])[0] + struct.pack('<BBH', u['prio'], u['ticks'], len(msg)) + msg
            + (b'\x00' if len(msg) % 2 else b'') + enc_epath(u['route'], padded=True)[0])


def _e_usend(p):
    msg = unhx(p['msg'])
    exp = {'unconnected_send.service': 0x52, 'unconnected_send.priority': p['prio'],
           'unconnected_send.timeout_ticks': p['ticks'], 'unconnected_send.length': len(msg),
           'unconnected_send.route_path.segment': ('len', len(p['route'])),
           'unconnected_send.path.segment': ('len', len(p['path']))}
    if msg:
        exp['unconnected_send.request.input'] = ['array', 'B', list(msg)]
    return Enc(enc_usend(p), expect=exp, unit=2, k=len(msg), kkey='unconnected_send.length',
               results=lambda d: len((d.get('unconnected_send', {}).get('request', {}) or {}).get('input', [0, 0, []])[2])
               if isinstance(d.get('unconnected_send'), dict) and isinstance(d['unconnected_send'].get('request'), dict) else 0)


def _m_usend(p, **kw):
    _, A, P = mods()
    return P.unconnected_send(**kw)


add(Entry('unconnected_send:0x52', 'cpf_item', d_usend, _e_usend, _m_usend))


def _p_usend_other(draw):
    first = d_pick(draw, [b for b in (0x01, 0x0E, 0x4C, 0x4D, 0x53, 0x8E, 0xCC, 0xD3, 0x00, 0xFF)])
    return {'b': hx(bytes([first])) + d_bytes(draw, 0, 9)}


def _e_usend_other(p):
    b = unhx(p['b'])
    return Enc(b, expect={'unconnected_send.request.input': ['array', 'B', list(b)]}, unit=1)


add(Entry('unconnected_send:opaque', 'cpf_item', _p_usend_other, _e_usend_other, _m_usend, selfdelim=False))


def _p_usend_err(draw):
    return {'sts': d_int(draw, 1, 0x0F)}


def _e_usend_err(p):
    E = struct.pack('BBBB', 0xD2, 0x00, p['sts'], 0x00)
    return Enc(E, expect={'unconnected_send.service': 0xD2, 'unconnected_send.status': p['sts']}, unit=1,
               predata={'length': len(E)})


# is_uerr() looks 4 symbols ahead with bare next(); the real caller parses a completely buffered item, so: whole input,
# and no 'prefix' form (there ..length would be the prefix value, which decides the grammar branch)
add(Entry('unconnected_send:0xD2-error', 'cpf_item', _p_usend_err, _e_usend_err, _m_usend, whole=True,
          forms=('int', 'path', 'call', 'callpath')))


def d_comm_service(draw):
    name = draw(st.binary(min_size=1, max_size=10).map(lambda b: b.replace(b'\x00', b'\x01')))   # '[^\\0]*' machines reject the empty sentence
    return {'ver': d_int(draw, 0, 0xFFFF), 'cap': d_int(draw, 0, 0xFFFF), 'name': hx(name)}


def enc_comm_service(c):
    return struct.pack('<HH', c['ver'], c['cap']) + unhx(c['name']) + b'\x00'


def _e_comm_service(p):
    return Enc(enc_comm_service(p), expect={'communications_service.version': p['ver'],
                                            'communications_service.capability': p['cap'],
                                            'communications_service.service_name': unhx(p['name']).decode('iso-8859-1')}, unit=2)


def _m_comm_service(p, **kw):
    _, A, P = mods()
    return P.communications_service(**kw)


add(Entry('communications_service', 'cpf_item', d_comm_service, _e_comm_service, _m_comm_service))


def d_identity(draw):
    return {'ver': d_int(draw, 0, 0xFFFF), 'fam': d_int(draw, -0x8000, 0x7FFF), 'port': d_int(draw, 0, 0xFFFF),
            'addr': d_bytes(draw, 4, 4), 'zero': d_pick(draw, ('0000000000000000', d_bytes(draw, 8, 8))),
            'ids': [d_int(draw, 0, 0xFFFF) for _ in range(5)],
            'serial': d_int(draw, 0, 0xFFFFFFFF), 'name': d_bytes(draw, 0, 8),
            'state': d_pick(draw, (None, d_int(draw, 0, 255))), 'extra': d_bytes(draw, 0, 4)}


def enc_identity(i):
    E = struct.pack('<H', i['ver']) + struct.pack('>hH', i['fam'], i['port']) + unhx(i['addr']) + unhx(i['zero'])
    E += struct.pack('<HHHHHI', *(i['ids'] + [i['serial']])) + enc_sstring(unhx(i['name']))
    if i['state'] is not None:
        E += struct.pack('B', i['state']) + unhx(i['extra'])
    return E


def _e_identity(p):
    exp = {'identity_object.version': p['ver'], 'identity_object.sin_family': p['fam'], 'identity_object.sin_port': p['port'],
           'identity_object.sin_addr': scalar_value('IPADDR_network', unhx(p['addr'])),
           'identity_object.vendor_id': p['ids'][0], 'identity_object.status_word': p['ids'][4],
           'identity_object.serial_number': p['serial'],
           'identity_object.product_name': unhx(p['name']).decode('iso-8859-1')}
    if p['state'] is not None:
        exp['identity_object.state'] = p['state']
    return Enc(enc_identity(p), expect=exp, unit=2)


def _m_identity(p, **kw):
    _, A, P = mods()
    return P.identity_object(**kw)


add(Entry('identity_object', 'cpf_item', d_identity, _e_identity, _m_identity, selfdelim=False))


def d_legacy(draw):
    ip = draw(st.binary(min_size=1, max_size=15).map(lambda b: b.replace(b'\x00', b'.')))
    return {'ver': d_int(draw, 0, 0xFFFF), 'unk': d_int(draw, 0, 0xFFFF), 'fam': d_int(draw, -0x8000, 0x7FFF),
            'port': d_int(draw, 0, 0xFFFF), 'addr': d_bytes(draw, 4, 4), 'zero': d_pick(draw, ('0000000000000000', d_bytes(draw, 8, 8))),
            'ip': hx(ip), 'nuls': d_int(draw, 0, 4)}


def enc_legacy(g):
    return (struct.pack('<HH', g['ver'], g['unk']) + struct.pack('>hH', g['fam'], g['port']) + unhx(g['addr'])
            + unhx(g['zero']) + unhx(g['ip']) + b'\x00' * g['nuls'])


def _e_legacy(p):
    exp = {'legacy_CPF_0x0001.version': p['ver'], 'legacy_CPF_0x0001.unknown_1': p['unk'],
           'legacy_CPF_0x0001.sin_family': p['fam'], 'legacy_CPF_0x0001.sin_port': p['port'],
           'legacy_CPF_0x0001.sin_addr': scalar_value('IPADDR_network', unhx(p['addr'])),
           'legacy_CPF_0x0001.ip_address': unhx(p['ip']).decode('iso-8859-1')}
    return Enc(enc_legacy(p), expect=exp, unit=2)


def _m_legacy(p, **kw):
    _, A, P = mods()
    return P.legacy_CPF_0x0001(**kw)


add(Entry('legacy_CPF_0x0001', 'cpf_item', d_legacy, _e_legacy, _m_legacy, selfdelim=False))


def _p_conn_id(draw):
    return {'c': d_int(draw, 0, 0xFFFFFFFF)}


def _e_conn_id(p):
    return Enc(struct.pack('<I', p['c']), expect={'connection_ID.connection': p['c']}, unit=4)


def _m_conn_id(p, **kw):
    _, A, P = mods()
    return P.connection_ID(**kw)


add(Entry('connection_ID', 'cpf_item', _p_conn_id, _e_conn_id, _m_conn_id))


def d_conn_data(draw):
    return {'seq': d_int(draw, 0, 0xFFFF), 'b': d_bytes(draw, 1, 9)}


def enc_conn_data(c):
    return struct.pack('<H', c['seq']) + unhx(c['b'])


def _e_conn_data(p):
    b = unhx(p['b'])
    exp = {'connection_data.sequence': p['seq']}
    if b:
        exp['connection_data.request.input'] = ['array', 'B', list(b)]
    return Enc(enc_conn_data(p), expect=exp, unit=1)


def _m_conn_data(p, **kw):
    _, A, P = mods()
    return P.connection_data(**kw)


add(Entry('connection_data', 'cpf_item', d_conn_data, _e_conn_data, _m_conn_data, selfdelim=False))

# -- CPF

ITEM_KINDS = ('null', 'conn_id', 'conn_data', 'usend', 'usend_opaque', 'usend_d2', 'comm', 'identity', 'legacy', 'unknown', 'empty_known')


def d_item(draw, kinds=ITEM_KINDS):
    kind = d_pick(draw, kinds)
    if kind == 'null':
        return {'k': kind}
    if kind == 'conn_id':
        return {'k': kind, 'c': d_int(draw, 0, 0xFFFFFFFF)}
    if kind == 'conn_data':
        return {'k': kind, 'd': d_conn_data(draw)}
    if kind == 'usend':
        return {'k': kind, 'u': d_usend(draw)}
    if kind == 'usend_opaque':
        return {'k': kind, 'b': _p_usend_other(draw)['b']}
    if kind == 'usend_d2':
        # service 0xD2 inside an unconnected-data item: unconnected_send.is_uerr() pulls 4 symbols, pushes them back,
        # and takes it for an Unconnected Send error (exactly: service, reserved, status < 0x10, ext size 0) or for an
        # opaque reply (anything longer than 6 bytes, or with status >= 0x10 / an extended status)
        if d_pick(draw, (True, False)):
            return {'k': kind, 'b': hx(struct.pack('BBBB', 0xD2, 0, d_int(draw, 0, 0x0F), 0))}
        if d_pick(draw, (True, False)):
            return {'k': kind, 'b': hx(struct.pack('BBBB', 0xD2, 0, d_int(draw, 0x10, 0xFF), d_int(draw, 0, 3))) + d_bytes(draw, 0, 6)}
        return {'k': kind, 'b': hx(struct.pack('BBBB', 0xD2, 0, d_int(draw, 0, 0xFF), d_int(draw, 0, 3))) + d_bytes(draw, 3, 8)}
    if kind == 'comm':
        return {'k': kind, 'c': d_comm_service(draw)}
    if kind == 'identity':
        return {'k': kind, 'i': d_identity(draw)}
    if kind == 'legacy':
        return {'k': kind, 'g': d_legacy(draw)}
    if kind == 'empty_known':
        return {'k': kind, 'type': d_pick(draw, (0x00B2, 0x00A1, 0x00B1, 0x0100, 0x000C, 0x0001))}
    return {'k': 'unknown', 'type': d_pick(draw, (0x8000, 0x00B3, 0x0002, 0xFFFF)), 'b': d_bytes(draw, 1, 8)}


def item_type_body(it):
    k = it['k']
    if k == 'null':
        return 0x0000, b''
    if k == 'conn_id':
        return 0x00A1, struct.pack('<I', it['c'])
    if k == 'conn_data':
        return 0x00B1, enc_conn_data(it['d'])
    if k == 'usend':
        return 0x00B2, enc_usend(it['u'])
    if k in ('usend_opaque', 'usend_d2'):
        return 0x00B2, unhx(it['b'])
    if k == 'comm':
        return 0x0100, enc_comm_service(it['c'])
    if k == 'identity':
        return 0x000C, enc_identity(it['i'])
    if k == 'legacy':
        return 0x0001, enc_legacy(it['g'])
    if k == 'empty_known':
        return it['type'], b''
    return it['type'], unhx(it['b'])


KNOWN_ITEM_TYPES = (0x0001, 0x00A1, 0x00B1, 0x00B2, 0x0100, 0x000C)


def enc_cpf(items, last_delta=0):
    """-> (E, valid, ibound, greedy, soft): count, then per item type_id, length, body.  last_delta perturbs the
    *declared* length of the last item (its body stays), to present a length field that disagrees with its
    content.  An item whose type cpppo has no parser for is read by an 'unrecognized' octets machine that is
    NOT given the item length as a limit (parser.py CPF.__init__: "just parse remainder into .input"); such an
    item therefore is only generated in last position, makes the encoding greedy, and its declared end is
    reported as `soft` (observation), not as a bound the statement speaks about."""
    E = struct.pack('<H', len(items))
    valid, ibound, greedy, soft = True, None, False, None
    for n, it in enumerate(items):
        typ, body = item_type_body(it)
        declared = len(body)
        last = n == len(items) - 1
        if last and last_delta:
            declared = max(0, declared + last_delta)
            valid = declared == len(body)
        E += struct.pack('<HH', typ, declared)
        if last:
            # (an item of unrecognized type is read with repeat='.length' since the repository fix a2e75c0: its declared end is a
            #  bound like any other)
            ibound = len(E) + declared
        else:
            assert typ in KNOWN_ITEM_TYPES or declared == 0, 'unrecognized item with a body only in last position'
        E += body
    if not items:
        ibound = len(E)
    return E, valid, ibound, greedy, soft


def d_items(draw, n, kinds=ITEM_KINDS):
    inner = [k for k in kinds if k != 'unknown']
    return [d_item(draw, kinds if i == n - 1 else inner) for i in range(n)]


def _p_cpf(draw):
    n = d_pick(draw, (0, 1, 1, 2, 2, 3))
    return {'items': d_items(draw, n), 'ld': d_pick(draw, (0, 0, 0, 0, 0, -1, -3, 1, 2))}


def _cpf_expect(prefix, items):
    exp = {}
    if items:
        exp[prefix + 'CPF.item'] = ('len', len(items))
        for i, it in enumerate(items):
            typ, body = item_type_body(it)
            exp['%sCPF.item#%d' % (prefix, i)] = ('sub', {'type_id': typ, 'length': len(body)})
    else:
        exp[prefix + 'CPF.count'] = 0
    return exp


def _e_cpf(p, prefix=''):
    E, valid, ibound, greedy, soft = enc_cpf(p['items'], p['ld'])
    exp = _cpf_expect(prefix, p['items']) if valid else {}
    kinds = sorted({it['k'] for it in p['items']})
    return Enc(E, expect=exp, valid=valid, ibound=ibound, unit=2, k=len(p['items']), kkey=prefix + 'CPF.count',
               results=lambda d: len(dig(d, prefix + 'CPF.item', []) or []), greedy=greedy, soft_ibound=soft,
               whole=any(it['k'] == 'usend_d2' for it in p['items']),     # is_uerr() looks ahead with bare next()
               classes=['cpf:last_item_length=%s' % ('exact' if valid else 'short' if p['ld'] < 0 else 'long')]
               + ['cpf:item=' + k for k in kinds] + ['cpf:items=%d' % len(p['items'])])


def _m_cpf(p, **kw):
    _, A, P = mods()
    return P.CPF(**kw)


add(Entry('CPF', 'cpf', _p_cpf, _e_cpf, _m_cpf))


def _p_send_data(draw):
    p = _p_cpf(draw)
    p['ifc'] = d_int(draw, 0, 0xFFFFFFFF)
    p['tmo'] = d_int(draw, 0, 0xFFFF)
    return p


def _e_send_data(p, prefix='send_data.'):
    c = _e_cpf(p, prefix=prefix)
    hdr = struct.pack('<IH', p['ifc'], p['tmo'])
    exp = dict(c.expect)
    if c.valid:
        exp[prefix + 'interface'] = p['ifc']
        exp[prefix + 'timeout'] = p['tmo']
    return Enc(hdr + c.E, expect=exp, valid=c.valid, ibound=None if c.ibound is None else 6 + c.ibound, unit=2, classes=c.classes,
               k=c.k, kkey=c.kkey, results=c.results, greedy=c.greedy, soft_ibound=None if c.soft_ibound is None else 6 + c.soft_ibound,
               whole=c.whole)


def _m_send_data(p, **kw):
    _, A, P = mods()
    return P.send_data(**kw)


add(Entry('send_data', 'command', _p_send_data, _e_send_data, _m_send_data))


def _cpf_service_entry(clsname, kinds):
    def params(draw):
        n = d_pick(draw, (0, 1, 1, 2))
        return {'items': d_items(draw, n, kinds), 'ld': d_pick(draw, (0, 0, 0, 0, -1, 1))}

    def encode(p):
        return _e_cpf(p, prefix=clsname + '.')

    def make(p, **kw):
        _, A, P = mods()
        return getattr(P, clsname)(**kw)

    add(Entry(clsname, 'command', params, encode, make))


_cpf_service_entry('list_services', ('comm', 'unknown', 'null'))
_cpf_service_entry('list_identity', ('identity', 'unknown', 'null'))
_cpf_service_entry('list_interfaces', ('unknown', 'null', 'conn_id'))
_cpf_service_entry('legacy', ('legacy', 'unknown', 'null'))

# -- CIP: selects the command parser by ..command, limits it by ...length (a length parsed earlier in the
#    same message: the encapsulation header's).  Run exactly as logix.process / client do: path='enip'.

CIP_COMMANDS = {
    'register': (0x0065,), 'unregister': (0x0066,), 'send_data': (0x006F, 0x0070), 'list_services': (0x0004,),
    'list_identity': (0x0063,), 'list_interfaces': (0x0064,), 'legacy': (0x0001,),
}
CIP_KINDS = {'list_services': ('comm', 'unknown', 'null'), 'list_identity': ('identity', 'unknown', 'null'),
             'list_interfaces': ('unknown', 'null', 'conn_id'), 'legacy': ('legacy', 'unknown', 'null')}


def _p_cip(draw):
    what = d_pick(draw, sorted(CIP_COMMANDS))
    p = {'what': what, 'cmd': d_pick(draw, CIP_COMMANDS[what])}
    if what == 'register':
        p['r'] = _p_register(draw)
    elif what == 'send_data':
        p['s'] = _p_send_data(draw)
    elif what != 'unregister':
        n = d_pick(draw, (0, 1, 1, 2))
        p['c'] = {'items': d_items(draw, n, CIP_KINDS[what]), 'ld': d_pick(draw, (0, 0, 0, -1, 1))}
    return p


def _e_cip(p):
    what = p['what']
    pre = {'command': p['cmd']}
    if what == 'register':
        inner = _e_register(p['r'])
        exp = {'CIP.' + k: v for k, v in inner.expect.items()}
        return Enc(inner.E, expect=exp, unit=2, predata=pre, classes=['cip:' + what])
    if what == 'unregister':
        return Enc(b'', expect={'CIP.unregister': True}, predata=pre, classes=['cip:' + what])
    if what == 'send_data':
        inner = _e_send_data(p['s'], prefix='CIP.send_data.')
    else:
        inner = _e_cpf(p['c'], prefix='CIP.%s.' % what)
    return Enc(inner.E, expect=inner.expect, valid=inner.valid, ibound=inner.ibound, unit=2, predata=pre,
               classes=['cip:' + what] + inner.classes, k=inner.k, kkey=inner.kkey, results=inner.results,
               greedy=inner.greedy, soft_ibound=inner.soft_ibound, whole=inner.whole)


_CIP_CACHE = {}


def _m_cip(p, **kw):
    """CIP takes no per-case argument (its limit is the data field ...length), and real callers keep one instance
    for a whole session; building one costs ~15 ms (7 command parsers x CPF x 6 item parsers), so reuse it."""
    _, A, P = mods()
    key = tuple(sorted(kw.items()))
    if key not in _CIP_CACHE:
        _CIP_CACHE[key] = P.CIP(**kw)
    return _CIP_CACHE[key]


add(Entry('CIP', 'cip', _p_cip, _e_cip, _m_cip, forms=('field',), runpath='enip', field='length',
          places=('own',)))


def names(groups=None):
    return [n for n, e in CATALOG.items() if groups is None or e.group in groups]


# ------------------------------------------------------------------------------------------------
# Tier 3: the registered service request/reply machines (device.py: Object, Connection_Manager; logix.py: Logix).
# They live inside the class-level parsers Object.parser (shared by Object, Message_Router and Logix) and
# Connection_Manager.parser, selected by the first symbol; they take no constructor arguments, so the limit is
# always placed on an enclosing dfa (as device.py itself does for its `application` data).

def _svc_parser(which):
    from cpppo.server.enip import device, logix          # noqa: F401  (logix registers its services on import)
    return logix.Logix.parser if which == 'logix' else device.Connection_Manager.parser


def d_req_path(draw):
    return [d_segment(draw, ['class', 'instance', 'attribute', 'element', 'symbolic']) for _ in range(d_int(draw, 0, 3))]


def _svc_entry(name, which, params, encode, selfdelim=True, tail=None, **kw_entry):
    """whole=True: the service parsers are only ever run over a completely buffered request/reply
    (peekable(data.request.input)); several of them decide "no more data" on a no-input transition."""
    def make(p, **kw):
        return _svc_parser(which)

    kw_entry.setdefault('forms', ('int', 'path', 'call', 'callpath'))
    add(Entry('svc:' + name, 'service', params, encode, make, selfdelim=selfdelim, tail=tail,
              places=('outer',), whole=True, **kw_entry))


def _req_head(svc, p):
    return struct.pack('B', svc) + enc_epath(p['path'])[0]


def _req_expect(svc, p):
    return {'service': svc, 'path.segment': ('len', len(p['path']))}


def _rpy_head(svc, p):
    return struct.pack('BB', svc, 0) + enc_status(p['st'])


def _rpy_expect(svc, p):
    exp = {'service': svc, 'status': p['st']['code'], 'status_ext.size': len(p['st']['ext'])}
    return exp


# Object: Get Attributes All / Get Attribute Single requests (service, path)
for _nm, _svc, _ctx in (('get_attributes_all', 0x01, 'get_attributes_all'), ('get_attribute_single', 0x0E, 'get_attribute_single')):
    def _mk(_nm=_nm, _svc=_svc, _ctx=_ctx):
        def params(draw):
            return {'path': d_req_path(draw)}

        def encode(p):
            exp = _req_expect(_svc, p)
            exp[_ctx] = True
            return Enc(_req_head(_svc, p), expect=exp, unit=2)
        _svc_entry(_nm, 'logix', params, encode)
    _mk()


# replies carrying "status, then the remainder as typed data" (greedy)
def _typed_reply(name, svc, ctx, elsize, fmt):
    def params(draw):
        n = d_int(draw, 0, 4)
        return {'st': d_status(draw), 'el': [d_bytes(draw, elsize, elsize) for _ in range(n)]}

    def encode(p):
        body = b''.join(unhx(e) for e in p['el'])
        exp = _rpy_expect(svc, p)
        if p['el']:
            exp[ctx + '.data'] = [struct.unpack(fmt, unhx(e))[0] for e in p['el']]
        return Enc(_rpy_head(svc, p) + body, expect=exp, unit=elsize)

    def tail(p):
        return st.binary(max_size=2 * elsize + 1)

    _svc_entry(name, 'logix', params, encode, selfdelim=False, tail=tail)


_typed_reply('get_attributes_all_reply', 0x81, 'get_attributes_all', 1, 'B')
_typed_reply('get_attribute_single_reply', 0x8E, 'get_attribute_single', 1, 'B')
_typed_reply('get_attribute_list_reply', 0x83, 'get_attribute_list', 1, 'B')     # USINT data, as it is produced (repo fix 06259c6)
_typed_reply('service_code_reply(0x99)', 0x99, 'service_code', 1, 'B')


def _p_ga_list(draw):
    n = d_int(draw, 1, 4)           # "TODO: handle 0 attributes?" in device.py: a zero count is not parsed
    return {'path': d_req_path(draw), 'att': [d_int(draw, 0, 0xFFFF) for _ in range(n)]}


def _e_ga_list(p):
    exp = _req_expect(0x03, p)
    exp['get_attribute_list'] = p['att']
    E = _req_head(0x03, p) + struct.pack('<H', len(p['att'])) + b''.join(struct.pack('<H', a) for a in p['att'])
    return Enc(E, expect=exp, unit=2, k=len(p['att']),
               results=lambda d: len(d['get_attribute_list']) if isinstance(d.get('get_attribute_list'), list)
               else len(dig(d, 'get_attribute_list.attributes', []) or []))


# device.__get_attribute_list moves its result with destination=GA_LST_CTX (no leading '.'), so it only works when
# the parser is run with an empty path (observed: path='request' -> AssertionError "Could not find ...").  That is a
# codec matter (C01/C07); here the machine is run the only way it works: path '', enclosing dfa without context.
_svc_entry('get_attribute_list', 'logix', _p_ga_list, _e_ga_list, forms=('int', 'call'), runpath='', outer_ctx=None)


def _p_sa_single(draw):
    return {'path': d_req_path(draw), 'b': d_bytes(draw, 1, 8)}


def _e_sa_single(p):
    b = unhx(p['b'])
    exp = _req_expect(0x10, p)
    exp['set_attribute_single.data'] = list(b)
    return Enc(_req_head(0x10, p) + b, expect=exp, unit=1)


_svc_entry('set_attribute_single', 'logix', _p_sa_single, _e_sa_single, selfdelim=False)


def _status_only_reply(name, svc, ctx):
    def params(draw):
        return {'st': d_status(draw)}

    def encode(p):
        exp = _rpy_expect(svc, p)
        exp[ctx] = True
        return Enc(_rpy_head(svc, p), expect=exp, unit=2)
    _svc_entry(name, 'logix', params, encode)


_status_only_reply('set_attribute_single_reply', 0x90, 'set_attribute_single')
_status_only_reply('write_tag_reply', 0xCD, 'write_tag')
_status_only_reply('write_frag_reply', 0xD3, 'write_frag')


# Logix: Read Tag [Fragmented]
def _p_read_tag(draw):
    return {'path': d_req_path(draw), 'n': d_int(draw, 0, 0xFFFF)}


def _e_read_tag(p):
    exp = _req_expect(0x4C, p)
    exp['read_tag.elements'] = p['n']
    return Enc(_req_head(0x4C, p) + struct.pack('<H', p['n']), expect=exp, unit=2)


_svc_entry('read_tag', 'logix', _p_read_tag, _e_read_tag)


def _p_read_frag(draw):
    return {'path': d_req_path(draw), 'n': d_int(draw, 0, 0xFFFF), 'off': d_int(draw, 0, 0xFFFFFFFF)}


def _e_read_frag(p):
    exp = _req_expect(0x52, p)
    exp['read_frag.elements'] = p['n']
    exp['read_frag.offset'] = p['off']
    return Enc(_req_head(0x52, p) + struct.pack('<HI', p['n'], p['off']), expect=exp, unit=2)


_svc_entry('read_frag', 'logix', _p_read_frag, _e_read_frag)

REPLY_TAGS = (0x00C1, 0x00C2, 0x00C3, 0x00C4, 0x00C7, 0x00CA, 0x00CB, 0x00DA, 0x00D0, 0x02A0)


def _nonempty(draw, t):
    """the element stream must not be empty: the grammars need a symbol to enter typed_data after the type/count"""
    if 'el' in t and not t['el']:
        size = typed_unit(t) if TYPED[t['tag']][1] else 0
        t['el'] = [d_bytes(draw, size, size) if size else d_bytes(draw, 0, 4)]
    return t


def _read_reply(name, svc, ctx):
    def params(draw):
        stt = d_status(draw)
        if d_pick(draw, (True, True, False)):
            stt = {'code': d_pick(draw, (0x00, 0x06)), 'ext': []}
        p = {'st': stt}
        if stt['code'] in (0x00, 0x06):
            p['t'] = _nonempty(draw, d_typed_payload(draw, d_pick(draw, REPLY_TAGS), maxn=3))
        return p

    def encode(p):
        exp = _rpy_expect(svc, p)
        E = _rpy_head(svc, p)
        unit = 2
        if 't' in p:
            E += struct.pack('<H', p['t']['tag']) + enc_typed_payload(p['t'])
            exp[ctx + '.type'] = p['t']['tag']
            vals = typed_values(p['t'])
            if vals:
                exp[ctx + '.data'] = vals
            unit = typed_unit(p['t'])
            return Enc(E, expect=exp, unit=unit, greedy=True, classes=['reply:with-typed-data'])
        return Enc(E, expect=exp, unit=unit, classes=['reply:status-only'])

    _svc_entry(name, 'logix', params, encode)          # self-delimiting unless it carries typed data (Enc.greedy)


_read_reply('read_tag_reply', 0xCC, 'read_tag')
_read_reply('read_frag_reply', 0xD2, 'read_frag')


def _write_req(name, svc, ctx, frag):
    def params(draw):
        # STRUCT often: it is the branch with the fixed limit (STRUCT( limit=2 ) reads just the structure_tag)
        t = _nonempty(draw, d_typed_payload(draw, d_pick(draw, REPLY_TAGS + (0x02A0, 0x02A0, 0x02A0)), maxn=3))
        p = {'path': d_req_path(draw), 't': t, 'n': d_int(draw, 0, 0xFFFF)}
        if frag:
            p['off'] = d_int(draw, 0, 0xFFFFFFFF)
        return p

    def encode(p):
        t = p['t']
        exp = _req_expect(svc, p)
        exp[ctx + '.type'] = t['tag']
        exp[ctx + '.elements'] = p['n']
        E = _req_head(svc, p) + struct.pack('<H', t['tag'])
        if t['tag'] == 0x02A0:
            # STRUCT: type, structure_tag, elements [, offset], raw data
            E += struct.pack('<H', t['stag'])
            payload = unhx(t['raw'])
            exp[ctx + '.structure_tag'] = t['stag']
        else:
            payload = enc_typed_payload(t)
            vals = typed_values(t)
            if vals:
                exp[ctx + '.data'] = vals
        E += struct.pack('<H', p['n'])
        if frag:
            E += struct.pack('<I', p['off'])
            exp[ctx + '.offset'] = p['off']
        return Enc(E + payload, expect=exp, unit=typed_unit(t))

    _svc_entry(name, 'logix', params, encode, selfdelim=False)


_write_req('write_tag', 0x4D, 'write_tag', False)
_write_req('write_frag', 0x53, 'write_frag', True)

# Connection Manager

NCP_SMALL = (0x43F4, 0x4200, 0x2000, 0x01F4, 0x0000)
NCP_LARGE = (0x42000FA0, 0x40000200, 0x200001F4, 0x00000000)


def _p_fwd_open(draw, large):
    return {'path': d_req_path(draw), 'prio': d_int(draw, 0, 255), 'ticks': d_int(draw, 0, 255),
            'otid': d_int(draw, 0, 0xFFFFFFFF), 'toid': d_int(draw, 0, 0xFFFFFFFF), 'cser': d_int(draw, 0, 0xFFFF),
            'ovnd': d_int(draw, 0, 0xFFFF), 'oser': d_int(draw, 0, 0xFFFFFFFF), 'tmul': d_int(draw, 0, 255),
            'pad': d_bytes(draw, 3, 3), 'otrpi': d_int(draw, 0, 0xFFFFFFFF), 'otncp': d_pick(draw, NCP_LARGE if large else NCP_SMALL),
            'torpi': d_int(draw, 0, 0xFFFFFFFF), 'toncp': d_pick(draw, NCP_LARGE if large else NCP_SMALL),
            'tclt': d_int(draw, 0, 255), 'cpath': [d_segment(draw, ['port', 'class', 'instance', 'connection']) for _ in range(d_int(draw, 0, 3))],
            'sd': d_pick(draw, (0, 0, 0, 0, -1, 1))}


def _fwd_open_entry(name, svc, large):
    def params(draw):
        return _p_fwd_open(draw, large)

    def encode(p):
        ncp = '<I' if large else '<H'
        head = (_req_head(svc, p) + struct.pack('<BBIIHHIB', p['prio'], p['ticks'], p['otid'], p['toid'], p['cser'], p['ovnd'],
                                                p['oser'], p['tmul']) + unhx(p['pad'])
                + struct.pack('<I', p['otrpi']) + struct.pack(ncp, p['otncp']) + struct.pack('<I', p['torpi'])
                + struct.pack(ncp, p['toncp']) + struct.pack('B', p['tclt']))
        cp, words = enc_epath(p['cpath'], size_delta=p['sd'])
        valid = words == (len(cp) - 1) // 2
        exp = {}
        if valid:
            exp = _req_expect(svc, p)
            exp.update({'forward_open.priority_time_tick': p['prio'], 'forward_open.O_T.connection_ID': p['otid'],
                        'forward_open.T_O.connection_ID': p['toid'], 'forward_open.connection_serial': p['cser'],
                        'forward_open.O_serial': p['oser'], 'forward_open.transport_class_triggers': p['tclt'],
                        'forward_open.O_T.RPI': p['otrpi'], 'forward_open.connection_path.segment': ('len', len(p['cpath']))})
        return Enc(head + cp, expect=exp, valid=valid, ibound=len(head) + 1 + 2 * words, unit=2,
                   classes=['epath:size_field=%s' % ('exact' if valid else 'short' if p['sd'] < 0 else 'long')])

    _svc_entry(name, 'cm', params, encode)


_fwd_open_entry('forward_open', 0x54, False)
_fwd_open_entry('forward_open_large', 0x5B, True)


def _app_data(draw):
    words = d_int(draw, 0, 3)
    return {'b': d_bytes(draw, 2 * words, 2 * words), 'ad': d_pick(draw, (0, 0, 0, 0, -1, 1))}


def _enc_app(a):
    b = unhx(a['b'])
    words = max(0, len(b) // 2 + a['ad'])
    return struct.pack('BB', words, 0) + b, words, words == len(b) // 2


def _fwd_open_reply_entry(name, svc):
    def params(draw):
        ok = d_pick(draw, (True, True, False))
        p = {'st': {'code': 0, 'ext': []} if ok else d_status(draw), 'cser': d_int(draw, 0, 0xFFFF), 'ovnd': d_int(draw, 0, 0xFFFF),
             'oser': d_int(draw, 0, 0xFFFFFFFF)}
        if p['st']['code'] == 0:
            p.update({'otid': d_int(draw, 0, 0xFFFFFFFF), 'toid': d_int(draw, 0, 0xFFFFFFFF), 'otapi': d_int(draw, 0, 0xFFFFFFFF),
                      'toapi': d_int(draw, 0, 0xFFFFFFFF), 'app': _app_data(draw)})
        else:
            p['rem'] = d_pick(draw, (None, d_int(draw, 0, 255)))
        return p

    def encode(p):
        exp = _rpy_expect(svc, p)
        E = _rpy_head(svc, p)
        if p['st']['code'] == 0:
            E += struct.pack('<IIHHIII', p['otid'], p['toid'], p['cser'], p['ovnd'], p['oser'], p['otapi'], p['toapi'])
            app, words, valid = _enc_app(p['app'])
            ibound = len(E) + 2 + 2 * words
            E += app
            if valid:
                exp.update({'forward_open.O_T.connection_ID': p['otid'], 'forward_open.T_O.API': p['toapi'],
                            'forward_open.application.size': words,
                            'forward_open.application.data': list(unhx(p['app']['b']))})
            return Enc(E, expect=exp if valid else {}, valid=valid, ibound=ibound, unit=2,
                       classes=['fwd_reply:success', 'app_size_field=%s' % ('exact' if valid else 'short' if p['app']['ad'] < 0 else 'long')])
        E += struct.pack('<HHI', p['cser'], p['ovnd'], p['oser'])
        exp.update({'forward_open.connection_serial': p['cser'], 'forward_open.O_serial': p['oser']})
        if p['rem'] is not None:
            E += struct.pack('BB', p['rem'], 0)
            exp['forward_open.remaining_path_size'] = p['rem']
        return Enc(E, expect=exp, unit=2, classes=['fwd_reply:failure'], greedy=p['rem'] is None)   # may continue with remaining_path_size

    _svc_entry(name, 'cm', params, encode)


_fwd_open_reply_entry('forward_open_reply', 0xD4)
_fwd_open_reply_entry('forward_open_large_reply', 0xDB)


def _p_fwd_close(draw):
    return {'path': d_req_path(draw), 'prio': d_int(draw, 0, 255), 'ticks': d_int(draw, 0, 255), 'cser': d_int(draw, 0, 0xFFFF),
            'ovnd': d_int(draw, 0, 0xFFFF), 'oser': d_int(draw, 0, 0xFFFFFFFF),
            'cpath': [d_segment(draw, ['port', 'class', 'instance', 'connection']) for _ in range(d_int(draw, 0, 3))],
            'sd': d_pick(draw, (0, 0, 0, 0, -1, 1))}


def _e_fwd_close(p):
    head = _req_head(0x4E, p) + struct.pack('<BBHHI', p['prio'], p['ticks'], p['cser'], p['ovnd'], p['oser'])
    cp, words = enc_epath(p['cpath'], padded=True, size_delta=p['sd'])
    valid = words == (len(cp) - 2) // 2
    exp = {}
    if valid:
        exp = _req_expect(0x4E, p)
        exp.update({'forward_close.connection_serial': p['cser'], 'forward_close.O_serial': p['oser'],
                    'forward_close.connection_path.segment': ('len', len(p['cpath']))})
    return Enc(head + cp, expect=exp, valid=valid, ibound=len(head) + 2 + 2 * words, unit=2,
               classes=['epath:size_field=%s' % ('exact' if valid else 'short' if p['sd'] < 0 else 'long')])


_svc_entry('forward_close', 'cm', _p_fwd_close, _e_fwd_close)


def _p_fwd_close_reply(draw):
    p = {'st': d_status(draw), 'full': d_pick(draw, (True, True, False))}
    if p['full']:
        p.update({'cser': d_int(draw, 0, 0xFFFF), 'ovnd': d_int(draw, 0, 0xFFFF), 'oser': d_int(draw, 0, 0xFFFFFFFF),
                  'app': _app_data(draw)})
    return p


def _e_fwd_close_reply(p):
    exp = _rpy_expect(0xCE, p)
    E = _rpy_head(0xCE, p)
    if not p['full']:
        exp['forward_close'] = True
        return Enc(E, expect=exp, unit=2, classes=['fwd_reply:minimal'], greedy=True)    # status only; anything further is parsed as the full form
    E += struct.pack('<HHI', p['cser'], p['ovnd'], p['oser'])
    app, words, valid = _enc_app(p['app'])
    ibound = len(E) + 2 + 2 * words
    E += app
    if valid:
        exp.update({'forward_close.connection_serial': p['cser'], 'forward_close.application.size': words,
                    'forward_close.application.data': list(unhx(p['app']['b']))})
    return Enc(E, expect=exp if valid else {}, valid=valid, ibound=ibound, unit=2,
               classes=['fwd_reply:full', 'app_size_field=%s' % ('exact' if valid else 'short' if p['app']['ad'] < 0 else 'long')])


_svc_entry('forward_close_reply', 'cm', _p_fwd_close_reply, _e_fwd_close_reply)


# Message Router: Multiple Service Packet.  The request names its target by path (an instantiated Message Router
# must exist, as in the simulator); the reply has no path and is decoded by device.dialect (the client sets it to
# logix.Logix).  Header: service [, path | reserved, status], number, number x offset, then the concatenated
# services; the offsets dfa runs repeat='.multiple.number'.

def _multiple_setup():
    from cpppo.server.enip import device, logix
    if device.dialect is None:
        device.dialect = logix.Logix                     # what client.connector.__init__ does
    if not device.lookup(0x02, 1):
        logix.Logix(name='c10 router', instance_id=1)        # what the simulator's main() does
    return logix.Logix.parser


def d_sub_request(draw):
    kind = d_pick(draw, ('read_tag', 'read_frag', 'get_attribute_single'))
    path = d_req_path(draw)
    if kind == 'read_tag':
        return {'k': kind, 'path': path, 'n': d_int(draw, 1, 100)}
    if kind == 'read_frag':
        return {'k': kind, 'path': path, 'n': d_int(draw, 1, 100), 'off': d_int(draw, 0, 1000)}
    return {'k': kind, 'path': path}


def enc_sub_request(r):
    if r['k'] == 'read_tag':
        return _req_head(0x4C, r) + struct.pack('<H', r['n'])
    if r['k'] == 'read_frag':
        return _req_head(0x52, r) + struct.pack('<HI', r['n'], r['off'])
    return _req_head(0x0E, r)


def d_sub_reply(draw):
    kind = d_pick(draw, ('write_tag_reply', 'read_tag_reply_error', 'set_attribute_single_reply'))
    return {'k': kind, 'st': d_status(draw) if kind != 'read_tag_reply_error' else {'code': d_int(draw, 1, 5), 'ext': [d_int(draw, 0, 0xFFFF)]}}


def enc_sub_reply(r):
    svc = {'write_tag_reply': 0xCD, 'read_tag_reply_error': 0xCC, 'set_attribute_single_reply': 0x90}[r['k']]
    return _rpy_head(svc, r)


def _enc_multiple_body(bodies):
    n = len(bodies)
    offs, pos = [], 2 + 2 * n
    for b in bodies:
        offs.append(pos)
        pos += len(b)
    return struct.pack('<H', n) + b''.join(struct.pack('<H', o) for o in offs) + b''.join(bodies), offs


def _p_multiple(draw):
    return {'subs': [d_sub_request(draw) for _ in range(d_int(draw, 1, 3))]}


def _e_multiple(p):
    body, offs = _enc_multiple_body([enc_sub_request(r) for r in p['subs']])
    head = b'\x0a' + enc_epath([{'t': 'class', 'w': 8, 'v': 2}, {'t': 'instance', 'w': 8, 'v': 1}])[0]
    exp = {'service': 0x0A, 'multiple.number': len(offs), 'multiple.offsets': offs, 'multiple.request': ('len', len(offs))}
    for i, r in enumerate(p['subs']):
        exp['multiple.request#%d' % i] = ('sub', {'service': {'read_tag': 0x4C, 'read_frag': 0x52, 'get_attribute_single': 0x0E}[r['k']]})
    return Enc(head + body, expect=exp, unit=2, k=len(offs), kkey='multiple.number',
               results=lambda d: len(dig(d, 'multiple.offsets', []) or []))


def _m_multiple(p, **kw):
    return _multiple_setup()


add(Entry('svc:multiple', 'service', _p_multiple, _e_multiple, _m_multiple, selfdelim=False,
          forms=('int', 'path', 'call', 'callpath'), places=('outer',), whole=True))


def _p_multiple_reply(draw):
    return {'st': {'code': d_pick(draw, (0x00, 0x1E)), 'ext': []}, 'subs': [d_sub_reply(draw) for _ in range(d_int(draw, 1, 3))]}


def _e_multiple_reply(p):
    body, offs = _enc_multiple_body([enc_sub_reply(r) for r in p['subs']])
    exp = _rpy_expect(0x8A, p)
    exp.update({'multiple.number': len(offs), 'multiple.offsets': offs, 'multiple.request': ('len', len(offs))})
    return Enc(_rpy_head(0x8A, p) + body, expect=exp, unit=2, k=len(offs), kkey='multiple.number',
               results=lambda d: len(dig(d, 'multiple.offsets', []) or []))


add(Entry('svc:multiple_reply', 'service', _p_multiple_reply, _e_multiple_reply, _m_multiple, selfdelim=False,
          forms=('int', 'path', 'call', 'callpath'), places=('outer',), whole=True))
